#!/usr/bin/env python3
"""dev tool (not a registered check): every stored behaviour-preserving refactoring (benign/*.diff, produced by
independent sub-agents and verified by them with the test suite and an equivalence harness) is applied to a scratch
copy of the current package; every check must exit 0 on it.  Exit 1 = false alarm, exit 2 = inconclusive analysis."""
import glob, os, shutil, subprocess, sys, tempfile, concurrent.futures as cf
ROOT = os.path.dirname(os.path.dirname(os.path.abspath(__file__)))
PROPS = ["C01", "C02", "C03", "C04", "C07", "C08", "C09", "C10", "C11", "C12", "C13", "C14", "C15", "C16", "C17", "C18", "C19"]
if os.environ.get("PROPS"):
    PROPS = os.environ["PROPS"].split(",")
tier = os.environ.get("VERIF_TIER", "quick")


def one(diff):
    tmp = tempfile.mkdtemp(prefix="bn_")
    try:
        shutil.copytree("/repo/checkpoint_schedules", os.path.join(tmp, "checkpoint_schedules"))
        p = subprocess.run(["patch", "-p1", "-s", "-i", diff], cwd=tmp, capture_output=True, text=True)
        if p.returncode:
            return diff, {"patch": (3, [p.stdout + p.stderr])}
        res = {}
        for pid in PROPS:
            env = dict(os.environ, VERIF_REPO=tmp, VERIF_EVIDENCE_DIR=os.path.join(tmp, ".ev"))
            q = subprocess.run([os.path.join(ROOT, "vcheck"), pid, "--tier", tier], capture_output=True, text=True, env=env)
            if q.returncode:
                res[pid] = (q.returncode, [l[:400] for l in q.stdout.splitlines() if l.startswith(("  REFUTED", "ANALYSIS-"))][:4])
        return diff, res
    finally:
        shutil.rmtree(tmp, ignore_errors=True)


def main():
    pats = sys.argv[1:] or [""]
    diffs = sorted(d for d in glob.glob(os.path.join(ROOT, "benign", "*.diff")) if any(os.path.basename(d).startswith(p) for p in pats))
    bad = 0
    with cf.ThreadPoolExecutor(max_workers=int(os.environ.get("JOBS", "4"))) as ex:
        for diff, res in ex.map(one, diffs):
            print(("[ok  ] " if not res else "[FAIL] ") + os.path.basename(diff))
            for pid, (rc, lines) in res.items():
                bad += 1
                print(f"         {pid} exit={rc}")
                for l in lines:
                    print("           ", l)
    print("failures:", bad)
    return 1 if bad else 0


if __name__ == "__main__":
    sys.exit(main())
