"""catalogue of scratch-copy variants: MUTANTS must be reported (exit 1, naming the
construct), BENIGN variants must stay silent (exit 0; exit 2 where stated).
Each edit is an exact, unique text replacement in one file of the package."""
TL = "twolevel_binomial.py"
MS = "multistage.py"
MX = "mixed.py"
BS = "basic_schedules.py"
SC = "schedule.py"
HR = "hrevolve.py"
SQ = "hrevolve_sequences/"

MUTANTS = [
 # ---- C01
 dict(id="M01a", props=["C01", "C13"], file=TL, what="TwoLevel reads a binomial checkpoint from DISK",
      old="yield Copy(cp_n, self._binomial_storage, StorageType.WORK)", new="yield Copy(cp_n, StorageType.DISK, StorageType.WORK)",
      names="yield-Copy[2]"),
 dict(id="M01b", props=["C01", "C14"], file=MS, what="Multistage read label index depth-2",
      old="            cp_storage = self._storage[len(snapshots) - 1]\n            if cp_n ==", new="            cp_storage = self._storage[len(snapshots) - 2]\n            if cp_n ==",
      names="#label"),
 dict(id="M01c", props=["C01", "C04"], file=TL, what="TwoLevel records n1 instead of n0",
      old="                            snapshots.append(n0)", new="                            snapshots.append(n1)", names="push-snapshots"),
 dict(id="M01d", props=["C01", "C12"], file=SQ + "revolve.py", what="quartet with Forward [index, index+2]",
      old='            sequence.insert(operation("Forward", [index + 1, index + 2]))', new='            sequence.insert(operation("Forward", [index, index + 2]))',
      names="insert-Write_Forward_memory"),
 dict(id="M01e", props=["C01"], file=MS, what="Multistage forgets to record a reversal-time checkpoint (write() not called)",
      old="                    self._n = n1\n                    cp_storage = write(n0)\n                    yield Forward(n0, n1, True, False, cp_storage)",
      new="                    self._n = n1\n                    cp_storage = self._storage[len(snapshots)]\n                    yield Forward(n0, n1, True, False, cp_storage)",
      names="yield-Forward[3]", expect={"C01": 1}),
 # ---- C02
 dict(id="M02a", props=["C02", "C08"], file=TL, what="TwoLevel does not reset r before EndReverse",
      old="            self._r = 0\n            yield EndReverse()", new="            yield EndReverse()", names="yield-EndReverse[0]", expect={"C02": 1, "C08": [0, 1]}),
 dict(id="M02b", props=["C02"], file=SQ + "revolve.py", what="Backward [index+2, index]",
      old='            sequence.insert(operation("Backward", [index + 2, index + 1]))', new='            sequence.insert(operation("Backward", [index + 2, index]))',
      names="insert-Backward"),
 dict(id="M02c", props=["C02"], file=MX, what="Mixed Reverse covers two steps",
      old="yield Reverse(self._max_n - self._r + 1, self._max_n - self._r, True)", new="yield Reverse(self._max_n - self._r + 1, self._max_n - self._r - 1, True)",
      names="yield-Reverse[0]"),
 # ---- C03
 dict(id="M03a", props=["C03", "C13"], file=TL, what="TwoLevel inner n_snapshots + 1 (path never run by the suite)",
      old="                            n_snapshots = (self._binomial_snapshots + 1\n                                           - len(snapshots))",
      new="                            n_snapshots = (self._binomial_snapshots + 2\n                                           - len(snapshots))", names="call-n_advance[1]"),
 dict(id="M03b", props=["C03", "C14"], file=MS, what="RAM slice one too long",
      old="reverse=True)[:snapshots_in_ram]:", new="reverse=True)[:snapshots_in_ram + 1]:", names="ram-slice"),
 dict(id="M03c", props=["C03"], file=MS, what="capacity guard off by one",
      old="if len(snapshots) >= self._snapshots_in_ram + self._snapshots_on_disk:  # noqa: E501", new="if len(snapshots) > self._snapshots_in_ram + self._snapshots_on_disk:  # noqa: E501",
      names="capacity-guard", expect=[2]),     # a weakened never-firing guard: behaviour unchanged, so never a VIOLATION
 # ---- C04
 dict(id="M04a", props=["C04", "C01"], file=TL, what="TwoLevel copies the last-use binomial checkpoint instead of moving it",
      old="yield Move(cp_n, self._binomial_storage, StorageType.WORK)", new="yield Copy(cp_n, self._binomial_storage, StorageType.WORK)",
      names="/pop(snapshots)"),
 dict(id="M04b", props=["C04", "C03"], file=HR, what="revert of the converter repair (Move decided without the storage)",
      edits=[("if self._is_last_read(i, storage, n_0):\n                    snapshots.remove((storage, n_0))", "if n_0 == self._max_n - self._r - 1:\n                    snapshots.remove(n_0)"),
             ("snapshots.add((w_storage, w_n0))", "snapshots.add(w_n0)")], names="#key(snapshots)"),
 dict(id="M04c", props=["C04"], file=MX, what="Mixed drops the final leftover guard and never pops on delete",
      old="            if cp_delete:\n                snapshot_n.remove(cp_n)\n                snapshots.pop()\n", new="            if cp_delete:\n                snapshot_n.remove(cp_n)\n",
      names="yield-Move[0]"),
 # ---- C07
 dict(id="M07a", props=["C07"], file=HR, what="Revolve.__init__ passes ub, uf",
      old="schedule = list(revolve(max_n - 1, snapshots_in_ram, wd, rd, uf, ub))", new="schedule = list(revolve(max_n - 1, snapshots_in_ram, wd, rd, ub, uf))",
      names="sink"),
 dict(id="M07b", props=["C07"], file=SQ + "hrevolve.py", what="rvect[K] -> rvect[0] in the general list_mem only",
      old="    list_mem = [j * uf + hopt[K][l - j][cmem - 1] + rvect[K] +", new="    list_mem = [j * uf + hopt[K][l - j][cmem - 1] + rvect[0] +",
      names="decision"),
 dict(id="M07c", props=["C07"], file=HR, what="HRevolve wc = [0, rd]",
      old="        wc = [0, wd]", new="        wc = [0, rd]", names="sink"),
 dict(id="M07d", props=["C07"], file=SQ + "hrevolve.py", what="revert of the get_hopt_table signature repair",
      old="def get_hopt_table(lmax, cvect, wvect, rvect, uf, ub):", new="def get_hopt_table(lmax, cvect, wvect, rvect, ub, uf):", names="get_hopt_table#sink"),
 dict(id="M07e", props=["C07"], file=SQ + "disk_revolve.py", what="disk_revolve decision compares with <= reversed (>)",
      old="    if min(list_mem) < opt_0[cm][l]:\n        jmin = argmin(list_mem)\n        sequence.insert(operation(\"Write_disk\", 0))",
      new="    if min(list_mem) > opt_0[cm][l]:\n        jmin = argmin(list_mem)\n        sequence.insert(operation(\"Write_disk\", 0))", names="decision"),
 dict(id="M07f", props=["C07"], file=SQ + "hrevolve.py", what="general production reads level 0 instead of level K",
      old='        sequence.insert(operation("Read", [K, 0]))\n        sequence.insert_sequence(\n            hrevolve_aux(jmin - 1, K, cmem, cvect, wvect, rvect,',
      new='        sequence.insert(operation("Read", [0, 0]))\n        sequence.insert_sequence(\n            hrevolve_aux(jmin - 1, K, cmem, cvect, wvect, rvect,', names="production"),
 dict(id="M07g", props=["C07"], file=SQ + "revolve.py", what="second sub-sequence of revolve uses one slot less",
      old="        revolve(jmin - 1, cm, wd, rd, fwd_cost,\n                bwd_cost, opt_0=opt_0).remove_useless_wm()", new="        revolve(jmin - 1, cm - 1, wd, rd, fwd_cost,\n                bwd_cost, opt_0=opt_0).remove_useless_wm()", names="production"),
 dict(id="M02d", props=["C02"], file=SQ + "disk_revolve.py", what="l == 0 production of disk_revolve reverses step [2,1]",
      old='        sequence.insert(operation("Backward", [1, 0]))\n        sequence.insert(operation("Discard_Forward_memory",  1))\n        return sequence',
      new='        sequence.insert(operation("Backward", [2, 1]))\n        sequence.insert(operation("Discard_Forward_memory",  1))\n        return sequence', names="disk_revolve"),
 dict(id="M07h", props=["C07"], file=SQ + "revolve.py", what="one-slot column of opt_0 counts one adjoint step too few",
      old="        opt[1].append((l+1) * ub + l * (l + 1) / 2 * uf)", new="        opt[1].append(l * ub + l * (l + 1) / 2 * uf)", names="border[2]"),
 dict(id="M07i", props=["C07"], file=SQ + "disk_revolve.py", what="opt_inf[1] for cm == 0 forgets the disk read",
      old="        opt_inf.append(wd + uf + 2 * ub + rd)", new="        opt_inf.append(wd + uf + 2 * ub)", names="border[1]"),
 dict(id="M07j", props=["C07"], file=SQ + "revolve.py", what="cm == 1 production re-reads the checkpoint from step 1",
      old='            if index + 1 != 0:\n                sequence.insert(operation("Forward", [0, index + 1]))\n            sequence.insert(operation("Write_Forward_memory", index + 2))',
      new='            if index + 1 != 0:\n                sequence.insert(operation("Forward", [0, index + 2]))\n            sequence.insert(operation("Write_Forward_memory", index + 2))', names="border[2]", expect={"C07": 1}),
 # ---- C08
 dict(id="M08a", props=["C08"], file=MS, what="self._n = n1 dropped before a yield Forward",
      old="                assert n1 > n0\n                self._n = n1\n                yield Forward(n0, n1, False, False, StorageType.WORK)",
      new="                assert n1 > n0\n                yield Forward(n0, n1, False, False, StorageType.WORK)", names="yield-Forward[2]"),
 dict(id="M08b", props=["C08", "C02"], file=MS, what="self._r += 1 placed after the yield Reverse",
      old="            self._r += 1\n            yield Reverse(self._n, self._n - 1, True)\n        if self._r != self._max_n:",
      new="            yield Reverse(self._n, self._n - 1, True)\n            self._r += 1\n        if self._r != self._max_n:", names="yield-Reverse[1]"),
 dict(id="M08c", props=["C08"], file=BS, what="revert of the SingleDisk repair (r reset before the only EndReverse)",
      old="                self._exhausted = True\n                yield EndReverse()\n                break", new="                self._exhausted = True\n                self._r = 0\n                yield EndReverse()\n                break",
      names="yield-EndReverse[0]"),
 # ---- C09
 dict(id="M09a", props=["C09"], file=BS, what="SingleDisk(move) loops forever (break removed)",
      old="                self._exhausted = True\n                yield EndReverse()\n                break", new="                self._exhausted = True\n                yield EndReverse()",
      names="SingleDiskStorageSchedule"),
 dict(id="M09b", props=["C09"], file=MS, what="_exhausted = True moved after the last yield",
      old="        self._exhausted = True\n        yield EndReverse()\n\n    @property\n    def is_exhausted(self):\n        return self._exhausted\n\n    def uses_storage_type(self, storage_type):\n        \"\"\"Check if a given storage type is used in this schedule.\n\n        Returns",
      new="        yield EndReverse()\n        self._exhausted = True\n\n    @property\n    def is_exhausted(self):\n        return self._exhausted\n\n    def uses_storage_type(self, storage_type):\n        \"\"\"Check if a given storage type is used in this schedule.\n\n        Returns",
      names="yield-EndReverse[0]"),
 dict(id="M09c", props=["C09", "C01", "C12"], file=BS, what="revert of the SingleMemory repair",
      old="yield Reverse(self._max_n, 0, False)", new="yield Reverse(self._max_n, 0, True)", names="yield-Reverse[0]", expect={"C09": 1, "C01": 1, "C12": 0}),
 dict(id="M09d", props=["C09"], file=SC, what="revert of the is_running repair",
      old='return hasattr(self, "iter")', new='return hasattr(self, "_iter")', names="is_running"),
 # ---- C10
 dict(id="M10a", props=["C10"], file=SC, what="finalize accepts n one step beyond the forward",
      old="            if self._n >= n:", new="            if self._n >= n - 1:", names="finalize#cell"),
 dict(id="M10b", props=["C10"], file=SC, what="or -> and in finalize's elif",
      old="        elif self._n != n or self._max_n != n:", new="        elif self._n != n and self._max_n != n:", names="finalize#cell"),
 dict(id="M10c", props=["C10"], file=SC, what="finalize stores before it checks",
      old="        if self._max_n is None:\n            if self._n >= n:\n                self._n = n\n                self._max_n = n\n            else:\n                raise RuntimeError(\"Invalid checkpointing state\")",
      new="        if self._max_n is None:\n            old = self._n\n            self._n = n\n            self._max_n = n\n            if old < n:\n                raise RuntimeError(\"Invalid checkpointing state\")",
      names="finalize#raise"),
 # ---- C11
 dict(id="M11a", props=["C11"], file=MS, what="Multistage reports RAM only with more than one RAM label",
      old="            return self._snapshots_in_ram > 0", new="            return self._snapshots_in_ram > 1", names="cover(RAM)"),
 dict(id="M11b", props=["C11"], file=MX, what="Mixed reports DISK only",
      old="        return self._storage == storage_type", new="        return storage_type == StorageType.DISK", names="cover(RAM)"),
 dict(id="M11c", props=["C11"], file=TL, what="revert of the TwoLevel uses_storage_type repair",
      old="return storage_type in {StorageType.DISK, self._binomial_storage}", new="return storage_type == self._binomial_storage", names="cover(DISK)"),
 # ---- C12
 dict(id="M12a", props=["C12", "C13"], file=TL, what="TwoLevel inner n_advance asked for max_n - n0 steps",
      old="                            n1 = n0 + n_advance(self._max_n - self._r - n0,\n                                                n_snapshots,",
      new="                            n1 = n0 + n_advance(self._max_n - n0,\n                                                n_snapshots,", names="call-n_advance[1]", expect={"C12": 1, "C13": 1}),
 dict(id="M12b", props=["C12", "C16"], file=MX, what="table arm of Mixed asks for one step more",
      old="                    step_type, n1, _ = schedule[\n                        self._max_n - self._r - n0,", new="                    step_type, n1, _ = schedule[\n                        self._max_n - self._r - n0 + 1,",
      names="schedule[]"),
 dict(id="M12c", props=["C12"], file=MS, what="Multistage Reverse keeps the adjoint data",
      old="            self._r += 1\n            yield Reverse(self._n, self._n - 1, True)\n        if self._r", new="            self._r += 1\n            yield Reverse(self._n, self._n - 1, False)\n        if self._r",
      names="yield-Reverse[1]"),
 # ---- C13
 dict(id="M13a", props=["C13", "C01"], file=TL, what="TwoLevel pops when the top is the adjoint position itself",
      old="                    if cp_n == self._max_n - self._r - 1:\n                        snapshots.pop()\n                        self._n = cp_n\n                        if cp_n == n0s:",
      new="                    if cp_n == self._max_n - self._r:\n                        snapshots.pop()\n                        self._n = cp_n\n                        if cp_n == n0s:", names="TwoLevelCheckpointSchedule", expect={"C13": 1, "C01": [0, 1, 2]}),
 dict(id="M13b", props=["C13"], file=TL, what="TwoLevel forward loop writes to the binomial storage",
      old="            yield Forward(n0, n1, True, False, StorageType.DISK)", new="            yield Forward(n0, n1, True, False, self._binomial_storage)", names="yield-Forward[0]"),
 # ---- C14
 dict(id="M14a", props=["C14"], file=MS, what="drop reverse=True", old="key=itemgetter(1),\n                       reverse=True)", new="key=itemgetter(1))", names="top-k"),
 dict(id="M14b", props=["C14"], file=MS, what="rank by index", old="key=itemgetter(1),\n                       reverse=True)", new="key=itemgetter(0),\n                       reverse=True)", names="top-k"),
 dict(id="M14c", props=["C14"], file=MS, what="Copy handler stops counting",
      old="        if snapshot_i < 0:\n            raise RuntimeError(\"Invalid checkpointing state\")\n        weights[snapshot_i] += read_weight\n\n    @action.register(Move)",
      new="        if snapshot_i < 0:\n            raise RuntimeError(\"Invalid checkpointing state\")\n\n    @action.register(Move)", names="action_copy"),
 dict(id="M14d", props=["C14"], file=MS, what="forward loop budget uses RAM units only",
      old="        while self._n < self._max_n - 1:\n            n_snapshots = (self._snapshots_in_ram\n                           + self._snapshots_on_disk\n                           - len(snapshots))",
      new="        while self._n < self._max_n - 1:\n            n_snapshots = (self._snapshots_in_ram\n                           - len(snapshots))", names="units-expr", expect={"C14": 1}),
 # ---- C15
 dict(id="M15a", props=["C15"], file=MX, what="cache key (n,) only",
      old="        if (n, s) not in _cache:\n            _cache[(n, s)] = fn(n, s)\n        return _cache[(n, s)]", new="        if (n,) not in _cache:\n            _cache[(n,)] = fn(n, s)\n        return _cache[(n,)]",
      names="cache-_cache"),
 dict(id="M15c", props=["C15"], file=MX, what="uses_storage_type advances _n",
      old="        assert storage_type in StorageType\n        return self._storage == storage_type", new="        assert storage_type in StorageType\n        self._n += 0\n        return self._storage == storage_type",
      names="uses_storage_type"),
 dict(id="M15d", props=["C15", "C09"], file=SC, what="generator cached on the class",
      old="            if not hasattr(self, \"iter\"):\n                self.iter = cls_iter(self)\n            return self.iter", new="            if not hasattr(cls, \"iter\"):\n                cls.iter = cls_iter(self)\n            return cls.iter",
      names="generator-cache", expect={"C15": 1, "C09": [1, 2]}),
 dict(id="M15e", props=["C15"], file=SQ + "revolve.py", what="get_opt_0_table memoised on (lmax, mmax) only",
      edits=[("def get_opt_0_table(lmax, mmax, uf, ub, print_table=None):", "_TABLES = {}\n\n\ndef get_opt_0_table(lmax, mmax, uf, ub, print_table=None):"),
             ("    # Build table\n    opt = [Table() for _ in range(mmax + 1)]", "    if (lmax, mmax) in _TABLES:\n        return _TABLES[(lmax, mmax)]\n    # Build table\n    opt = [Table() for _ in range(mmax + 1)]"),
             ("            opt[m].append(value)\n    return opt", "            opt[m].append(value)\n    _TABLES[(lmax, mmax)] = opt\n    return opt")],
      names="cache-_TABLES"),
 # ---- C17
 dict(id="M17a", props=["C17"], file=MX, what="drop Mixed's storage check",
      old="        if storage not in [StorageType.RAM, StorageType.DISK]:\n            raise ValueError(\"Invalid storage\")\n\n        super().__init__(max_n)", new="        super().__init__(max_n)",
      names="storage not RAM/DISK"),
 dict(id="M17b", props=["C17"], file=TL, what="period < 1 -> period < 0", old="        if period < 1:", new="        if period < 0:", names="period<=0"),
 dict(id="M17c", props=["C17"], file=SC, what="drop max_n < 1 in the base class",
      old="        if max_n is not None and max_n < 1:\n            raise ValueError(\"max_n must be positive\")\n\n", new="", names="max_n<=0"),
 dict(id="M17d", props=["C17"], file=SQ + "hrevolve.py", what="revert of the HRevolve(max_n=1) repair",
      old="        if lmax < 1:\n            continue\n", new="", names="get_hopt_table#store"),
 # ---- C18
 dict(id="M18a", props=["C18"], file=SC, what="Reverse.n0 returns args[0]",
      old="    @property\n    def n0(self):\n        return self.args[1]", new="    @property\n    def n0(self):\n        return self.args[0]", names="Reverse.n0"),
 dict(id="M18b", props=["C18"], file=SC, what="Forward.__len__ + 1",
      old="    def __len__(self):\n        return self.n1 - self.n0\n\n    def __contains__(self, step):\n        return self.n0 <= step < self.n1\n\n    @property\n    def n0(self):\n        return self.args[0]",
      new="    def __len__(self):\n        return self.n1 - self.n0 + 1\n\n    def __contains__(self, step):\n        return self.n0 <= step < self.n1\n\n    @property\n    def n0(self):\n        return self.args[0]",
      names="Forward.__len__"),
 dict(id="M18c", props=["C18", "C03"], file=MS, what="Forward(n0, n1, False, False, DISK label)",
      old="                    yield Forward(n0, n1, True, False, cp_storage)\n\n                if self._n", new="                    yield Forward(n0, n1, False, False, cp_storage)\n\n                if self._n",
      names="yield-Forward[3]", expect={"C18": 1, "C03": [0, 1, 2]}),
 dict(id="M18d", props=["C18"], file=SC, what="revert of the __eq__ repair",
      old="return isinstance(other, type(self)) and self.args == other.args", new="return isinstance(self, other) and self.args == other.args", names="__eq__"),
 dict(id="M18e", props=["C18"], file=SC, what="Reverse iterates ascending",
      old="        yield from range(self.n1 - 1, self.n0 - 1, -1)", new="        yield from range(self.n0, self.n1)", names="Reverse.__iter__"),
 # ---- C19
 dict(id="M19a", props=["C19"], file=SQ + "periodic_disk_revolve.py", what="mx = min(mx, l // 2)",
      old="    print(\"We use periods of size \", mx)", new="    mx = min(mx, max(l // 2, 1))\n    print(\"We use periods of size \", mx)", names="#period"),
 dict(id="M19b", props=["C19"], file=SQ + "periodic_disk_revolve.py", what="cm+1 -> cm in the closed form",
      old="    while beta(cm+1, t) <= (wd + rd) / uf:", new="    while beta(cm, t) <= (wd + rd) / uf:", names="mxrr_close_formula"),
 dict(id="M19c", props=["C19"], file=SQ + "periodic_disk_revolve.py", what="mx = mx + l % 2",
      old="    print(\"We use periods of size \", mx)", new="    mx = mx + l % 2\n    print(\"We use periods of size \", mx)", names="#period"),
 dict(id="M19d", props=["C19"], file=SQ + "periodic_disk_revolve.py", what="read loop walks back by mx - 1",
      old="        current_task -= mx\n", new="        current_task -= mx - 1\n", names="read/step"),
 # ---- C16 (see above)
 dict(id="M16a", props=["C16"], file=MX, what="table accepts WRITE_ICS candidates on < instead of <=",
      old="if schedule[n_i, s_i, 2] < 0 or m1 <= schedule[n_i, s_i, 2]:", new="if schedule[n_i, s_i, 2] < 0 or m1 < schedule[n_i, s_i, 2]:",
      names="mixed#recurrence"),
 dict(id="M16b", props=["C16"], file=MX, what="table s_i == 1 cost off by one",
      old="schedule[n_i, s_i, :] = (_WRITE_ICS, n_i - 1, n_i * (n_i + 1) // 2 - 1)", new="schedule[n_i, s_i, :] = (_WRITE_ICS, n_i - 1, n_i * (n_i + 1) // 2)",
      names="mixed#recurrence"),
 dict(id="M16c", props=["C16"], file=MX, what="table arm drops int(reuse_snapshot)",
      old="""                    step_type, n1, _ = schedule[
                        self._max_n - self._r - n0,
                        self._snapshots - len(snapshots) + int(reuse_snapshot)]""",
      new="""                    step_type, n1, _ = schedule[
                        self._max_n - self._r - n0,
                        self._snapshots - len(snapshots)]""", names="selection[0]"),
 dict(id="M16d", props=["C16"], file=MX, what="memoised planner WRITE_ADJ_DEPS accepted on <=",
      old="        if m1 < m[2]:\n            m = (StepType.WRITE_ADJ_DEPS, 1, m1)", new="        if m1 <= m[2]:\n            m = (StepType.WRITE_ADJ_DEPS, 1, m1)",
      names="mixed#recurrence"),
]

BENIGN = [
 dict(id="B13b", props=["C03", "C13", "C01", "C12"], file=TL,
      what="TwoLevel clamps its binomial budget to what one period block can use (period - 1), inside the generator: never a VIOLATION",
      old="""                snapshots = [n0s]
""", new="""                self._binomial_snapshots = min(self._binomial_snapshots,
                                               max(self._period - 1, 0))
                snapshots = [n0s]
""", expect=[0, 2]),
 dict(id="B03c", props=["C03", "C13"], file=TL,
      what="TwoLevel re-stores its own period in the generator (no-op store of a configuration attribute)",
      old="""                snapshots = [n0s]
""", new="""                self._period = self._period + 0
                snapshots = [n0s]
""", expect=[0]),
 dict(id="B19b", props=["C19", "C01", "C02", "C07"], file=SQ + "periodic_disk_revolve.py", what="periodic sweep rewritten as for loops over a period index (correct count)",
      edits=[("""    current_task = 0
    while l - current_task > mx:
        sequence.insert(operation("Write_disk", current_task))
        sequence.insert(operation("Forward",
                                  [current_task, current_task + mx]))
        current_task += mx
""", """    n_periods = (l - 1) // mx
    for period in range(n_periods):
        sequence.insert(operation("Write_disk", period * mx))
        sequence.insert(operation("Forward",
                                  [period * mx, (period + 1) * mx]))
    current_task = n_periods * mx
"""), ("""    while current_task > 0:
        current_task -= mx
        sequence.insert(operation("Read_disk", current_task))""", """    for period in reversed(range(n_periods)):
        current_task = period * mx
        sequence.insert(operation("Read_disk", current_task))""")], expect=[0, 2]),
 dict(id="B13a", props=["C01", "C03", "C04", "C09", "C13", "C08", "C02", "C12", "C18", "C11"], file=TL,
      what="TwoLevel reverse loop refactored through a cp_storage local (correct Move/Copy decision kept)",
      old="""                    if cp_n == self._max_n - self._r - 1:
                        snapshots.pop()
                        self._n = cp_n
                        if cp_n == n0s:
                            yield Copy(cp_n, StorageType.DISK, StorageType.WORK)  # noqa: E501
                        else:
                            yield Move(cp_n, self._binomial_storage, StorageType.WORK)  # noqa: E501
                    else:
                        self._n = cp_n
                        if cp_n == n0s:
                            yield Copy(cp_n, StorageType.DISK, StorageType.WORK)  # noqa: E501
                        else:
                            yield Copy(cp_n, self._binomial_storage, StorageType.WORK)  # noqa: E501
""",
      new="""                    if cp_n == n0s:
                        cp_storage = StorageType.DISK
                    else:
                        cp_storage = self._binomial_storage
                    self._n = cp_n
                    if cp_n == self._max_n - self._r - 1:
                        snapshots.pop()
                        if cp_n == n0s:
                            # periodic disk checkpoints are kept for later passes
                            yield Copy(cp_n, cp_storage, StorageType.WORK)
                        else:
                            yield Move(cp_n, cp_storage, StorageType.WORK)
                    else:
                        yield Copy(cp_n, cp_storage, StorageType.WORK)
"""),
 dict(id="B16a", props=["C16"], file=MX, what="commuted cost expression in the memoised planner",
      old="""            m1 = (
                i
                + mixed_step_memoization(i, s)[2]
                + mixed_step_memoization(n - i, s - 1)[2])""",
      new="""            m1 = (
                mixed_step_memoization(n - i, s - 1)[2]
                + mixed_step_memoization(i, s)[2] + i)"""),
 dict(id="B01a", props=["C01", "C03", "C04", "C13"], file=TL, what="TwoLevel push moved before the yield",
      old="                            yield Forward(n0, n1, True, False, self._binomial_storage)  # noqa: E501\n\n                            if len(snapshots) >= self._binomial_snapshots + 1:\n                                raise RuntimeError(\"Invalid checkpointing \"\n                                                   \"state\")\n                            snapshots.append(n0)",
      new="                            if len(snapshots) >= self._binomial_snapshots + 1:\n                                raise RuntimeError(\"Invalid checkpointing \"\n                                                   \"state\")\n                            snapshots.append(n0)\n                            yield Forward(n0, n1, True, False, self._binomial_storage)  # noqa: E501"),
 dict(id="B17a", props=["C17", "C10"], file=SC, what="guard rewritten max_n <= 0",
      old="        if max_n is not None and max_n < 1:", new="        if max_n is not None and max_n <= 0:"),
 dict(id="B07a", props=["C07"], file=HR, what="wd/rd exchanged where only their sum is used (DiskRevolve)",
      old="        schedule = list(disk_revolve(max_n - 1, snapshots_in_ram, wd, rd, uf,\n                                     ub))",
      new="        schedule = list(disk_revolve(max_n - 1, snapshots_in_ram, rd, wd, uf,\n                                     ub))"),
 dict(id="B08a", props=["C08", "C02", "C03", "C12"], file=MS, what="a never-firing internal guard deleted", expect=[0, 2],
      old="        if self._n != self._max_n - 1:\n            raise RuntimeError(\"Invalid checkpointing state\")\n\n        # Forward -> reverse",
      new="        # Forward -> reverse"),
 dict(id="B10a", props=["C10"], file=SC, what="finalize guard rewritten equivalently",
      old="        elif self._n != n or self._max_n != n:", new="        elif not (self._n == n and self._max_n == n):"),
 dict(id="B08b", props=["C08", "C01", "C12"], file=MS, what="local renamed and expression reordered",
      old="                n0 = self._n\n                n1 = n0 + n_advance(self._max_n - self._r - n0,\n                                    n_snapshots,\n                                    trajectory=self._trajectory)\n                assert n1 > n0\n                self._n = n1\n                yield Forward(n0, n1, False, False, StorageType.WORK)",
      new="                start = self._n\n                n1 = n_advance(-start + self._max_n - self._r,\n                               n_snapshots,\n                               trajectory=self._trajectory) + start\n                assert n1 > start\n                self._n = n1\n                yield Forward(start, n1, False, False, StorageType.WORK)"),
 dict(id="B18a", props=["C18"], file=SC, what="__contains__ rewritten with and",
      old="    def __contains__(self, step):\n        return self.n0 <= step < self.n1\n\n    @property\n    def n0(self):\n        return self.args[1]",
      new="    def __contains__(self, step):\n        return step >= self.n0 and step < self.n1\n\n    @property\n    def n0(self):\n        return self.args[1]"),
 dict(id="B19a", props=["C19"], file=SQ + "periodic_disk_revolve.py", what="sweep guard rewritten",
      old="    while l - current_task > mx:", new="    while current_task + mx < l:"),
 dict(id="B09a", props=["C09", "C08"], file=BS, what="SingleDisk reset written with an else branch",
      old="            # Reset for new reverse\n            self._r = 0\n            yield EndReverse()\n\n    @property\n    def is_exhausted(self):\n        return self._exhausted",
      new="            else:\n                # Reset for new reverse\n                self._r = 0\n                yield EndReverse()\n\n    @property\n    def is_exhausted(self):\n        return self._exhausted"),
]
