"""catalogue of scratch-copy variants: MUTANTS must be reported (exit 1, naming the
construct), BENIGN variants must stay silent (exit 0; exit 2 where stated)."""
MUTANTS = [
 dict(id="M16a", props=["C16"], file="mixed.py", what="table accepts WRITE_ICS candidates on < instead of <=",
      old="if schedule[n_i, s_i, 2] < 0 or m1 <= schedule[n_i, s_i, 2]:", new="if schedule[n_i, s_i, 2] < 0 or m1 < schedule[n_i, s_i, 2]:",
      names="mixed#recurrence"),
 dict(id="M16b", props=["C16"], file="mixed.py", what="table s_i == 1 cost off by one",
      old="schedule[n_i, s_i, :] = (_WRITE_ICS, n_i - 1, n_i * (n_i + 1) // 2 - 1)", new="schedule[n_i, s_i, :] = (_WRITE_ICS, n_i - 1, n_i * (n_i + 1) // 2)",
      names="mixed#recurrence"),
 dict(id="M16c", props=["C16"], file="mixed.py", what="table arm drops int(reuse_snapshot)",
      old="""                    step_type, n1, _ = schedule[
                        self._max_n - self._r - n0,
                        self._snapshots - len(snapshots) + int(reuse_snapshot)]""",
      new="""                    step_type, n1, _ = schedule[
                        self._max_n - self._r - n0,
                        self._snapshots - len(snapshots)]""", names="selection[0]"),
 dict(id="M16d", props=["C16"], file="mixed.py", what="memoised planner WRITE_ADJ_DEPS accepted on <=",
      old="        if m1 < m[2]:\n            m = (StepType.WRITE_ADJ_DEPS, 1, m1)", new="        if m1 <= m[2]:\n            m = (StepType.WRITE_ADJ_DEPS, 1, m1)",
      names="mixed#recurrence"),
]
BENIGN = [
 dict(id="B16a", props=["C16"], file="mixed.py", what="commuted cost expression in the memoised planner",
      old="""            m1 = (
                i
                + mixed_step_memoization(i, s)[2]
                + mixed_step_memoization(n - i, s - 1)[2])""",
      new="""            m1 = (
                mixed_step_memoization(n - i, s - 1)[2]
                + mixed_step_memoization(i, s)[2] + i)"""),
]
