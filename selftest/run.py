#!/usr/bin/env python3
"""self-test of the checkers (not a registered check): apply each catalogued edit to a
scratch copy of /repo's package, run the named check with VERIF_REPO pointing at it, and
compare exit code / reported construct with the expectation.  Scratch copies live under
$TMPDIR and are removed immediately."""
import json, os, shutil, subprocess, sys, tempfile, concurrent.futures as cf
HERE = os.path.dirname(os.path.abspath(__file__))
ROOT = os.path.dirname(HERE)
REPO = os.environ.get("VERIF_REPO", "/repo")
sys.path.insert(0, HERE)


def apply_edit(root, m):
    path = os.path.join(root, "checkpoint_schedules", m["file"])
    src = open(path).read()
    edits = m["edits"] if "edits" in m else [(m["old"], m["new"])]
    for old, new in edits:
        cnt = src.count(old)
        want = m.get("count", 1)
        if cnt != want:
            raise RuntimeError(f"{m['id']}: pattern occurs {cnt} times in {m['file']}, expected {want}: {old[:60]!r}")
        src = src.replace(old, new)
    compile(src, path, "exec")
    open(path, "w").write(src)


def run_one(m):
    tmp = tempfile.mkdtemp(prefix="vt_")
    try:
        shutil.copytree(os.path.join(REPO, "checkpoint_schedules"), os.path.join(tmp, "checkpoint_schedules"))
        apply_edit(tmp, m)
        res = []
        for pid in m["props"]:
            env = dict(os.environ, VERIF_REPO=tmp, VERIF_EVIDENCE_DIR=os.path.join(tmp, "ev"))
            p = subprocess.run([os.path.join(ROOT, "vcheck"), pid], capture_output=True, text=True, env=env, timeout=600)
            lines = [l for l in p.stdout.splitlines() if l.startswith(("  REFUTED", "VIOLATION", "ANALYSIS-"))]
            res.append((pid, p.returncode, lines))
        return m, res, None
    except Exception as e:
        return m, [], f"{type(e).__name__}: {e}"
    finally:
        shutil.rmtree(tmp, ignore_errors=True)


def main():
    from mutants import MUTANTS, BENIGN
    sel = sys.argv[1:]
    items = [dict(m, kind="mutant") for m in MUTANTS] + [dict(m, kind="benign") for m in BENIGN]
    if sel:
        items = [m for m in items if any(m["id"].startswith(s) for s in sel)]
    bad = 0
    with cf.ThreadPoolExecutor(max_workers=int(os.environ.get("JOBS", "12"))) as ex:
        for m, res, err in ex.map(run_one, items):
            if err:
                print(f"[ERR ] {m['id']}: {err}")
                bad += 1
                continue
            for pid, code, lines in res:
                want = m.get("expect", 1 if m["kind"] == "mutant" else 0)
                if isinstance(want, dict):
                    want = want.get(pid, 1)
                okc = code == want or (isinstance(want, (list, tuple)) and code in want)
                named = True
                nm = m.get("names")
                if isinstance(nm, dict):
                    nm = nm.get(pid)
                elif pid != m["props"][0]:
                    nm = None
                if m["kind"] == "mutant" and code == 1 and nm:
                    named = any(nm in l for l in lines)
                status = "ok  " if (okc and named) else "FAIL"
                if status == "FAIL":
                    bad += 1
                print(f"[{status}] {m['id']:<8} {pid} exit={code} want={want} {m.get('what', '')}")
                if status == "FAIL" or os.environ.get("VERBOSE"):
                    for l in lines[:6]:
                        print("         " + l[:260])
    print("failures:", bad)
    return 1 if bad else 0


if __name__ == "__main__":
    sys.exit(main())
