"""C12: no Forward may advance beyond the adjoint position (TwoLevel, period >= 3)."""
from checkpoint_schedules import (TwoLevelCheckpointSchedule, StorageType,
                                  Forward, Reverse, EndForward, EndReverse)


def check(period, s, max_n, storage):
    sch = TwoLevelCheckpointSchedule(period, s, binomial_storage=storage)
    r = 0
    finalized = False
    passes = 0
    while passes < 2:
        a = next(sch)
        if isinstance(a, Forward):
            if not finalized:
                if a.n1 >= max_n:
                    sch.finalize(max_n)
                    finalized = True
            else:
                limit = max_n - r
                assert a.n1 <= limit, \
                    (period, s, max_n, storage, a, "adjoint at", limit)
        elif isinstance(a, Reverse):
            r += 1
        elif isinstance(a, EndReverse):
            r = 0
            passes += 1


for period in range(1, 8):
    for s in range(0, 4):
        for max_n in range(1, 16):
            for storage in (StorageType.RAM, StorageType.DISK):
                check(period, s, max_n, storage)
print("ok")
