"""C08 demo: after every action, schedule.n equals the step at which the
forward state in working storage stands; r counts reversed steps."""
import itertools
from checkpoint_schedules import (
    TwoLevelCheckpointSchedule, StorageType, Forward, Reverse, EndForward,
    EndReverse, Copy, Move)


def check(period, s, storage, n, passes=2):
    sch = TwoLevelCheckpointSchedule(period, s, binomial_storage=storage)
    it = iter(sch)
    model_n, model_r = 0, 0
    assert (sch.n, sch.r, sch.max_n) == (0, 0, None)
    while model_n < n:
        a = next(it)
        assert isinstance(a, Forward) and a.n0 == model_n
        model_n = a.n1
        assert sch.n == model_n and sch.r == 0 and sch.max_n is None
    sch.finalize(n)
    model_n = n
    assert (sch.n, sch.r, sch.max_n) == (n, 0, n)
    assert isinstance(next(it), EndForward)
    for p in range(passes):
        while True:
            a = next(it)
            if isinstance(a, EndReverse):
                model_r = 0
                model_n = None
            elif isinstance(a, Forward):
                assert a.n0 == model_n
                model_n = a.n1
            elif isinstance(a, Reverse):
                assert a.n1 == n - model_r
                model_r += a.n1 - a.n0
            elif isinstance(a, (Copy, Move)):
                assert a.to_storage == StorageType.WORK
                model_n = a.n
            if model_n is not None:
                assert sch.n == model_n, (period, s, n, p, a, sch.n, model_n)
            assert sch.r == model_r, (period, s, n, p, a, sch.r, model_r)
            assert sch.max_n == n
            if isinstance(a, EndReverse):
                break


for period, s, storage in itertools.product(
        (1, 2, 3, 5, 8), (0, 1, 2, 3), (StorageType.RAM, StorageType.DISK)):
    for n in (1, 2, 3, 7, 13, 16):
        check(period, s, storage, n)
print("ok")
