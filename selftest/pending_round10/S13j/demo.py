"""C13 demo: every period block is recomputed with the binomial optimum number
of forward steps for L steps and binomial_snapshots+1 units, all passes."""
import functools
import itertools
from checkpoint_schedules import (
    TwoLevelCheckpointSchedule, StorageType, Forward, Reverse, EndForward,
    EndReverse, Copy, Move)


@functools.lru_cache(maxsize=None)
def opt(L, s):
    # minimal number of forward steps (including the step storing adjoint
    # dependencies) to reverse L steps with s checkpointing units
    if L == 1:
        return 1
    if s == 1:
        return L * (L + 1) // 2
    return min(k + opt(L - k, s - 1) + opt(k, s) for k in range(1, L))


def check(period, s, storage, trajectory, n, passes=2):
    sch = TwoLevelCheckpointSchedule(period, s, binomial_storage=storage,
                                     binomial_trajectory=trajectory)
    it = iter(sch)
    k = 0
    while k * period < n:
        a = next(it)
        assert isinstance(a, Forward)
        assert (a.n0, a.n1) == (k * period, (k + 1) * period)
        assert a.write_ics and not a.write_adj_deps
        assert a.storage == StorageType.DISK
        k += 1
    sch.finalize(n)
    assert isinstance(next(it), EndForward)
    for p in range(passes):
        count = {}
        while True:
            a = next(it)
            if isinstance(a, EndReverse):
                break
            if isinstance(a, Forward):
                b = a.n0 // period
                assert (a.n1 - 1) // period == b
                count[b] = count.get(b, 0) + a.n1 - a.n0
                if a.write_ics:
                    assert a.storage == storage
        for b in range((n + period - 1) // period):
            L = min((b + 1) * period, n) - b * period
            assert count[b] == opt(L, s + 1), \
                (period, s, storage, trajectory, n, p, b, L, count[b],
                 opt(L, s + 1))


for period, s, storage, trajectory in itertools.product(
        (1, 2, 3, 5, 8, 13), (0, 1, 2, 3, 4),
        (StorageType.RAM, StorageType.DISK), ("maximum", "revolve")):
    for n in (1, 2, 3, 7, 13, 16, 26, 30):
        check(period, s, storage, trajectory, n)
print("ok")
