# Property C02: nothing but StopIteration follows the EndReverse of the last
# permitted adjoint calculation (SingleDiskStorageSchedule(move_data=True)
# permits exactly one: its data has been moved out of storage).
import checkpoint_schedules
from checkpoint_schedules import (SingleDiskStorageSchedule, Forward, Reverse,
                                  EndForward, EndReverse)
n = 4
cp = SingleDiskStorageSchedule(move_data=True)
while True:
    a = next(cp)
    if isinstance(a, EndForward):
        break
    assert isinstance(a, Forward)
    if a.n1 == n:
        cp.finalize(n)
expect = n
while True:
    a = next(cp)
    if isinstance(a, Reverse):
        assert (a.n1, a.n0) == (expect, expect - 1)
        expect -= 1
    elif isinstance(a, EndReverse):
        break
assert expect == 0 and cp.is_exhausted
try:
    extra = next(cp)
except StopIteration:
    extra = None
assert extra is None, f"action {extra!r} after the last permitted EndReverse"
print("ok", checkpoint_schedules.__file__)
