# Property C10: once max_n is known, finalize(k) is rejected unless
# k == max_n and the forward stands at max_n.
import checkpoint_schedules
from checkpoint_schedules import MultistageCheckpointSchedule, Forward
cp = MultistageCheckpointSchedule(10, 1, 1)
a = next(cp)
assert isinstance(a, Forward) and 0 < cp.n < 10
for k in (cp.n, 10):   # forward not at its end / wrong end
    try:
        cp.finalize(k)
    except RuntimeError:
        pass
    else:
        raise AssertionError(f"finalize({k}) accepted with n={cp.n}, max_n={cp.max_n}")
print("ok", checkpoint_schedules.__file__)
