"""C17: period < 1 must be rejected at construction or first next(), before any action."""
from checkpoint_schedules import TwoLevelCheckpointSchedule, StorageType

for storage in (StorageType.RAM, StorageType.DISK):
    for s in range(0, 4):
        for period in (0, -1):
            emitted = []
            try:
                sch = TwoLevelCheckpointSchedule(period, s, binomial_storage=storage)
                emitted.append(next(sch))
            except (ValueError, RuntimeError, AssertionError) as e:
                if emitted:
                    raise
            assert not emitted, (period, s, storage, emitted)
print("ok")
