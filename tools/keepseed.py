#!/usr/bin/env python3
"""dev tool: confirm a sub-agent's seeded change (suite passes with it, demo fails with / passes without),
run all checks against it and store it under /verif/seeded/<id>/.
usage: keepseed.py <seed dir> <k> <id> <property>"""
import json, os, shutil, subprocess, sys
ROOT = os.path.dirname(os.path.dirname(os.path.abspath(__file__)))
src, k, sid, prop = sys.argv[1:5]
patch, demo, notes = (os.path.join(src, f"{n}{k}.{e}") for n, e in (("patch", "diff"), ("demo", "py"), ("notes", "md")))
p = subprocess.run([sys.executable, os.path.join(ROOT, "tools", "seedcheck.py"), patch, demo, "--suite"],
                   capture_output=True, text=True, timeout=7200)
try:
    res = json.loads(p.stdout)
except Exception:
    print("seedcheck failed:", p.stdout[-2000:], p.stderr[-2000:])
    sys.exit(2)
ok = res.get("demo_clean_exit") == 0 and res.get("demo_seeded_exit") not in (0, None) and "82 passed" in res.get("suite", "")
caught = sorted(pid for pid, c in res["checks_nonzero"].items() if c["exit"] == 1)
incon = sorted(pid for pid, c in res["checks_nonzero"].items() if c["exit"] == 2)
print(f"{sid}: confirmed={ok} suite='{res.get('suite')}' demo clean/seeded={res.get('demo_clean_exit')}/{res.get('demo_seeded_exit')} "
      f"VIOLATION from {caught} inconclusive {incon}")
if not ok:
    sys.exit(1)
dst = os.path.join(ROOT, "seeded", sid)
os.makedirs(dst, exist_ok=True)
shutil.copy(patch, os.path.join(dst, "patch.diff"))
shutil.copy(demo, os.path.join(dst, "demo.py"))
note = open(notes).read() if os.path.exists(notes) else ""
meta = {
    "id": sid, "breaks_property": prop, "source": "independent sub-agent given only the property text and a scratch worktree",
    "what_it_needs_to_manifest": note,
    "confirmed": {"suite_with_change": res.get("suite"), "demo_exit_clean": res.get("demo_clean_exit"),
                  "demo_exit_with_change": res.get("demo_seeded_exit"), "demo_output_tail": res.get("demo_seeded_tail"),
                  "commands": ["git -C <scratch worktree of /repo HEAD> apply patch.diff",
                               "PYTHONPATH=<worktree> /venv/bin/python -m pytest -q -p no:cacheprovider -n 4 tests",
                               "PYTHONPATH=<worktree> /venv/bin/python demo.py  (with and without the change)",
                               "VERIF_REPO=<worktree> ./vcheck <ID>  for all claimed properties"]},
    "checks_reporting_VIOLATION": caught, "checks_inconclusive_exit2": incon,
    "check_reports": res["checks_nonzero"],
}
json.dump(meta, open(os.path.join(dst, "meta.json"), "w"), indent=1)
