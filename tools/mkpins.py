#!/usr/bin/env python3
"""dev tool: record the number of decided obligations per rule on the current tree as the
pinned minimum (a rule that later matches fewer sites fails the run instead of passing vacuously)"""
import json, os, sys
HERE = os.path.dirname(os.path.dirname(os.path.abspath(__file__)))
sys.path.insert(0, HERE)
from sa.main import PROPS, Ctx
from sa.load import Repo
from sa.report import Check, PROVED, REFUTED
import importlib
pins = {}
repo = Repo()
for tier in ("quick", "thorough"):
    for pid in PROPS:
        chk = Check(pid, tier, quiet=True, repo=repo)
        ctx = Ctx(repo, tier)
        importlib.import_module(f"sa.rules.{pid.lower()}").run(chk, ctx)
        counts = {}
        for o in chk.obs:
            if o.verdict in (PROVED, REFUTED):
                counts[o.rule] = counts.get(o.rule, 0) + 1
        for r, c in counts.items():
            if r in ("C16.COST",):      # information only: never required
                continue
            pins.setdefault(pid, {}).setdefault(r, {})[tier] = c
json.dump(pins, open(os.path.join(HERE, "pins.json"), "w"), indent=1, sort_keys=True)
print("pinned", sum(len(v) for v in pins.values()), "rules")
