#!/usr/bin/env python3
"""dev tool: summary of a mutsweep result file: candidate false alarms (trace same, some exit 1) and candidate gaps
(trace differs, suite passes, no exit 1)"""
import json, sys
rows = [json.loads(l) for l in open(sys.argv[1])]
tot = len(rows)
inv = [r for r in rows if r.get("status")]
same = [r for r in rows if r.get("trace") == "same"]
killed = [r for r in rows if r.get("tests") == "fail"]
surv = [r for r in rows if r.get("trace") in ("diff", "crash") and r.get("tests") in ("pass", "skipped")]
fa = [r for r in same if any(v == 1 for v in r.get("checks", {}).values())]
e2 = [r for r in same if r.get("checks") and not any(v == 1 for v in r["checks"].values())]
caught = [r for r in surv if any(v == 1 for v in r.get("checks", {}).values())]
gap2 = [r for r in surv if r.get("checks") and not any(v == 1 for v in r["checks"].values())]
gap0 = [r for r in surv if not r.get("checks")]
print(f"{tot} mutants: {len(inv)} invalid, {len(killed)} killed by the suite, {len(same)} trace-equivalent "
      f"({len(fa)} with an exit 1 = candidate false alarms, {len(e2)} exit 2 only), {len(surv)} survive the suite with a different trace "
      f"({len(caught)} reported by a check, {len(gap2)} exit 2 only, {len(gap0)} silent)")
def show(title, lst):
    print("\n== " + title)
    for r in lst:
        c = r.get("checks", {})
        print(f"  {r['file']}:{r['line']} [{r['idx']}] {r['desc'][:44]:<44} exit1={sorted(p for p, v in c.items() if v == 1)} exit2={sorted(p for p, v in c.items() if v == 2)}")
        if "-v" in sys.argv:
            for p, ls in r.get("lines", {}).items():
                for l in ls[:1]:
                    print("       ", p, l[:200])
show("candidate false alarms (trace same, exit 1)", fa)
show("survivors not reported (silent)", gap0)
show("survivors with exit 2 only", gap2)
if "-a" in sys.argv:
    show("survivors reported", caught)
    show("trace-equivalent with exit 2", e2)
