#!/usr/bin/env python3
"""dev tool: confirm a seeded change and run the checks against it.
usage: seedcheck.py <patch.diff> <demo.py> [--suite]   (scratch worktree under /tmp, removed afterwards)
prints: demo result without / with the change, optional suite result, and per-property check exit codes."""
import json, os, shutil, subprocess, sys, tempfile, concurrent.futures as cf
ROOT = os.path.dirname(os.path.dirname(os.path.abspath(__file__)))
PROPS = ["C01", "C02", "C03", "C04", "C07", "C08", "C09", "C10", "C11", "C12", "C13", "C14", "C15", "C16", "C17", "C18", "C19"]


def sh(cmd, cwd=None, env=None, timeout=3600):
    p = subprocess.run(cmd, shell=True, cwd=cwd, env=env, capture_output=True, text=True, timeout=timeout)
    return p.returncode, p.stdout + p.stderr


def main():
    patch, demo = os.path.abspath(sys.argv[1]), os.path.abspath(sys.argv[2])
    suite = "--suite" in sys.argv
    wt = tempfile.mkdtemp(prefix="seedchk_")
    os.rmdir(wt)
    rc, out = sh(f"git -C /repo worktree add -q --detach {wt} HEAD")
    assert rc == 0, out
    res = {"patch": patch}
    try:
        env = dict(os.environ, PYTHONPATH=wt)
        rc0, out0 = sh(f"timeout 900 /venv/bin/python {demo}", cwd=wt, env=env)
        res["demo_clean_exit"] = rc0
        rc, out = sh(f"git apply {patch}", cwd=wt)
        assert rc == 0, "patch does not apply: " + out
        rc1, out1 = sh(f"timeout 900 /venv/bin/python {demo}", cwd=wt, env=env)
        res["demo_seeded_exit"] = rc1
        res["demo_seeded_tail"] = out1.strip().splitlines()[-3:]
        if suite:
            rcs, outs = sh("/venv/bin/python -m pytest -q -p no:cacheprovider -n 4 tests", cwd=wt, env=env, timeout=3600)
            res["suite"] = outs.strip().splitlines()[-1]
        checks = {}

        def one(pid):
            e = dict(os.environ, VERIF_REPO=wt, VERIF_EVIDENCE_DIR=os.path.join(wt, ".ev"))
            rc, out = sh(f"{ROOT}/vcheck {pid}", env=e)
            lines = [l for l in out.splitlines() if l.startswith(("  REFUTED", "ANALYSIS-"))]
            return pid, rc, lines
        with cf.ThreadPoolExecutor(max_workers=6) as ex:
            for pid, rc, lines in ex.map(one, PROPS):
                if rc != 0:
                    checks[pid] = {"exit": rc, "lines": [l[:300] for l in lines[:4]]}
        res["checks_nonzero"] = checks
    finally:
        sh(f"git -C /repo worktree remove --force {wt}")
    print(json.dumps(res, indent=1))


if __name__ == "__main__":
    main()
