#!/usr/bin/env python3
"""dev tool: re-run all checks against every stored seeded change (scratch copies, VERIF_REPO) and
refresh the detection record in each meta.json; prints a summary table."""
import json, os, shutil, subprocess, sys, tempfile, concurrent.futures as cf
ROOT = os.path.dirname(os.path.dirname(os.path.abspath(__file__)))
PROPS = ["C01", "C02", "C03", "C04", "C07", "C08", "C09", "C10", "C11", "C12", "C13", "C14", "C15", "C16", "C17", "C18", "C19"]


def run_seed(sid):
    d = os.path.join(ROOT, "seeded", sid)
    tmp = tempfile.mkdtemp(prefix="rs_")
    try:
        shutil.copytree("/repo/checkpoint_schedules", os.path.join(tmp, "checkpoint_schedules"))
        p = subprocess.run(["patch", "-p1", "-s", "-i", os.path.join(d, "patch.diff")], cwd=tmp, capture_output=True, text=True)
        if p.returncode != 0:
            return sid, None, "patch failed: " + p.stdout + p.stderr
        res = {}
        for pid in PROPS:
            env = dict(os.environ, VERIF_REPO=tmp, VERIF_EVIDENCE_DIR=os.path.join(tmp, ".ev"))
            q = subprocess.run([os.path.join(ROOT, "vcheck"), pid], capture_output=True, text=True, env=env, timeout=900)
            if q.returncode != 0:
                res[pid] = {"exit": q.returncode,
                            "lines": [l[:300] for l in q.stdout.splitlines() if l.startswith(("  REFUTED", "ANALYSIS-"))][:4]}
        return sid, res, None
    finally:
        shutil.rmtree(tmp, ignore_errors=True)


def main():
    sids = sorted(x for x in os.listdir(os.path.join(ROOT, "seeded")) if os.path.isdir(os.path.join(ROOT, "seeded", x)))
    if len(sys.argv) > 1:
        sids = [s for s in sids if any(s.startswith(a) for a in sys.argv[1:])]
    with cf.ThreadPoolExecutor(max_workers=int(os.environ.get("JOBS", "4"))) as ex:
        for sid, res, err in ex.map(run_seed, sids):
            if err:
                print(sid, "ERROR", err)
                continue
            mp = os.path.join(ROOT, "seeded", sid, "meta.json")
            meta = json.load(open(mp))
            meta["checks_reporting_VIOLATION"] = sorted(p for p, c in res.items() if c["exit"] == 1)
            meta["checks_inconclusive_exit2"] = sorted(p for p, c in res.items() if c["exit"] == 2)
            meta["check_reports"] = res
            json.dump(meta, open(mp, "w"), indent=1)
            own = meta["breaks_property"]
            print(f"{sid} ({own}): VIOLATION {meta['checks_reporting_VIOLATION']}  inconclusive {meta['checks_inconclusive_exit2']}"
                  f"  own-property: {'caught' if own in meta['checks_reporting_VIOLATION'] else 'exit2' if own in meta['checks_inconclusive_exit2'] else 'MISSED'}")


if __name__ == "__main__":
    main()
