#!/bin/sh
# dev tool: run every registered check on the current tree; non-zero exit if any check is not clean
cd "$(dirname "$0")/.." || exit 2
tier=${1:-quick}
bad=0
for p in C01 C02 C03 C04 C07 C08 C09 C10 C11 C12 C13 C14 C15 C16 C17 C18 C19; do
  ( ./vcheck $p --tier $tier > /tmp/runall_$p.txt 2>&1; echo $? > /tmp/runall_$p.rc ) &
done
wait
for p in C01 C02 C03 C04 C07 C08 C09 C10 C11 C12 C13 C14 C15 C16 C17 C18 C19; do
  rc=$(cat /tmp/runall_$p.rc)
  echo "$p exit=$rc $(head -1 /tmp/runall_$p.txt | cut -c1-110)"
  [ "$rc" = "0" ] || { bad=1; grep -E "VIOLATION|ANALYSIS-|REFUTED" /tmp/runall_$p.txt | head -5; }
done
exit $bad
