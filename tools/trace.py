#!/usr/bin/env python3
"""dev tool (NOT a check, never used to decide a property): behavioural trace of a checkout of checkpoint_schedules,
used only to *triage* automatically generated mutants (tools/mutsweep.py): a mutant whose trace equals the pristine
trace over this box is treated as behaviour-preserving (the checks must stay silent on it), one whose trace differs as
behaviour-changing (some check should report it, if the change breaks a listed property).

usage: PYTHONPATH=<checkout> python trace.py <out file>      (writes one line per observation)
"""
import hashlib
import io
import itertools
import os
import sys


def main(out_path):
    import checkpoint_schedules as cs
    from checkpoint_schedules import (StorageType, EndForward, EndReverse, Forward, Reverse, Copy, Move,
                                      MultistageCheckpointSchedule, TwoLevelCheckpointSchedule, MixedCheckpointSchedule,
                                      SingleMemoryStorageSchedule, SingleDiskStorageSchedule, NoneCheckpointSchedule,
                                      HRevolve, DiskRevolve, PeriodicDiskRevolve, Revolve)
    root = os.environ.get("TRACE_ROOT")
    if root:
        assert os.path.realpath(cs.__file__).startswith(os.path.realpath(root)), cs.__file__
    out = open(out_path, "w")
    real = sys.stdout
    sys.stdout = io.StringIO()

    def emit(*a):
        out.write(repr(a) + "\n")

    def guarded(f):
        try:
            return ("ok", repr(f()))
        except BaseException as e:      # noqa
            return ("exc", type(e).__name__)

    def obs(s):
        return (guarded(lambda: s.n), guarded(lambda: s.r), guarded(lambda: s.max_n), guarded(lambda: s.is_exhausted),
                guarded(lambda: s.is_running), tuple(guarded(lambda t=t: s.uses_storage_type(t)) for t in StorageType))

    def stream(tag, make, fin=None, passes=1, limit=4000):
        """fin: None (offline) or the forward position at which finalize(fin) is called"""
        try:
            s = make()
        except BaseException as e:      # noqa
            emit(tag, "ctor", type(e).__name__)
            return
        h = hashlib.sha256()
        emit(tag, "obs0", obs(s))
        k = ends = 0
        try:
            while k < limit:
                if fin is not None and s.max_n is None and s.n >= fin:
                    emit(tag, "finalize", guarded(lambda: s.finalize(fin)))
                try:
                    a = next(s)
                except StopIteration:
                    emit(tag, "stop", k, guarded(lambda: next(s)))
                    break
                k += 1
                h.update(repr((a, type(a).__name__, obs(s))).encode())
                if k <= 40:
                    emit(tag, k, repr(a), obs(s))
                if isinstance(a, EndReverse):
                    ends += 1
                    if ends >= passes:
                        emit(tag, "after", guarded(lambda: repr(next(s))), obs(s))
                        break
        except BaseException as e:      # noqa
            emit(tag, "raise", k, type(e).__name__)
        emit(tag, "digest", k, h.hexdigest()[:16])

    ST = StorageType
    for n in (1, 2, 3, 4, 5, 7, 10, 13):
        for ram, disk in ((0, 0), (1, 0), (0, 1), (1, 1), (2, 1), (1, 3), (3, 0), (0, 4), (2, 2), (20, 0), (5, 20)):
            for traj in ("maximum", "revolve"):
                stream(("MS", n, ram, disk, traj), lambda: MultistageCheckpointSchedule(n, ram, disk, trajectory=traj))
        for s_ in (0, 1, 2, 3, 5, 30):
            for st in (ST.RAM, ST.DISK):
                stream(("MX", n, s_, st.name), lambda: MixedCheckpointSchedule(n, s_, storage=st))
        for period in (1, 2, 3, 4, 7):
            for bs in (0, 1, 2, 4):
                for st in (ST.RAM, ST.DISK):
                    for traj in ("maximum", "revolve"):
                        if traj == "revolve" and (bs != 2 or st != ST.DISK):
                            continue
                        stream(("TL", n, period, bs, st.name, traj),
                               lambda: TwoLevelCheckpointSchedule(period, bs, binomial_storage=st, binomial_trajectory=traj),
                               fin=n, passes=2)
        stream(("SM", n), lambda: SingleMemoryStorageSchedule(), fin=n, passes=3)
        stream(("SDc", n), lambda: SingleDiskStorageSchedule(move_data=False), fin=n, passes=3)
        stream(("SDm", n), lambda: SingleDiskStorageSchedule(move_data=True), fin=n, passes=2)
        stream(("NO", n), lambda: NoneCheckpointSchedule(), fin=n, passes=1)
    costs = [dict(), dict(uf=1, ub=2, wd=3, rd=1), dict(uf=2, ub=1, wd=0, rd=0), dict(uf=1, ub=1, wd=5, rd=0.5), dict(uf=3, ub=1, wd=2, rd=2)]
    for n in (1, 2, 3, 4, 5, 6, 8, 11, 14):
        for ram in (0, 1, 2, 3):
            stream(("RV", n, ram), lambda: Revolve(n, ram))
            for c in costs:
                ck = tuple(sorted(c.items()))
                stream(("DR", n, ram, ck), lambda: DiskRevolve(n, ram, **c))
                stream(("PD", n, ram, ck), lambda: PeriodicDiskRevolve(n, ram, **c))
                for disk in (0, 1, 2, 5):
                    stream(("HR", n, ram, disk, ck), lambda: HRevolve(n, ram, disk, **c))
    stream(("TLbad", 0), lambda: TwoLevelCheckpointSchedule(0, 1))
    stream(("MXbad",), lambda: MixedCheckpointSchedule(4, 2, storage=ST.WORK))
    stream(("MSbad",), lambda: MultistageCheckpointSchedule(0, 1, 1))
    # finalize protocol
    for cls in (SingleMemoryStorageSchedule, NoneCheckpointSchedule, lambda: TwoLevelCheckpointSchedule(3, 1)):
        for steps, k in itertools.product((0, 1, 2, 4), (-1, 0, 1, 2, 3, 5)):
            s = cls()
            for _ in range(steps):
                next(s)
            r1 = guarded(lambda: s.finalize(k))
            r2 = guarded(lambda: s.finalize(k))
            r3 = guarded(lambda: s.finalize(k + 1))
            emit("FIN", getattr(cls, "__name__", "TL"), steps, k, r1, r2, r3, obs(s), guarded(lambda: repr(next(s))))
    for k in (0, 3, 4, 5):
        s = MultistageCheckpointSchedule(4, 1, 1)
        next(s)
        emit("FINoff", k, guarded(lambda: s.finalize(k)), obs(s))
        s = Revolve(4, 2)
        for _ in range(200):
            a = next(s)
            if isinstance(a, EndForward):
                break
        emit("FINoff2", k, guarded(lambda: s.finalize(k)), obs(s), guarded(lambda: repr(next(s))))
    # value objects
    acts = [Forward(0, 3, True, False, ST.RAM), Forward(0, 3, True, False, ST.DISK), Forward(1, 2, False, True, ST.WORK),
            Reverse(3, 0, True), Reverse(3, 0, False), Reverse(2, 1, True), Copy(1, ST.RAM, ST.WORK), Move(1, ST.RAM, ST.WORK),
            Copy(1, ST.DISK, ST.WORK), Move(2, ST.RAM, ST.WORK), EndForward(), EndReverse()]
    for a, b in itertools.product(acts, acts):
        emit("EQ", repr(a), repr(b), guarded(lambda: a == b), guarded(lambda: a != b))
    for a in acts:
        emit("VAL", repr(a), guarded(lambda: eval(repr(a), vars(cs)) == a), guarded(lambda: len(a)), guarded(lambda: list(a)),
             guarded(lambda: [k in a for k in range(-1, 5)]), guarded(lambda: a.args))
    # planners and tables
    from checkpoint_schedules import multistage as ms, mixed as mx
    for n in range(1, 16):
        for s_ in range(0, 7):
            emit("ADV", n, s_, guarded(lambda: ms.n_advance(n, s_)), guarded(lambda: ms.n_advance(n, s_, trajectory="revolve")),
                 guarded(lambda: ms.optimal_steps_binomial(n, s_)), guarded(lambda: mx.mixed_step_memoization(n, s_)),
                 guarded(lambda: mx.optimal_steps_mixed(n, s_)))
    tab = guarded(lambda: mx.mixed_steps_tabulation.__wrapped__(14, 6) if hasattr(mx.mixed_steps_tabulation, "__wrapped__")
                  else mx.mixed_steps_tabulation(14, 6).tolist())
    emit("TAB", tab)
    # the numba arm of Mixed, forced
    try:
        mx.numba = object()
        for n in (2, 3, 4, 5, 7, 10, 13):
            for s_ in (1, 2, 3, 5):
                stream(("MXnb", n, s_), lambda: MixedCheckpointSchedule(n, s_, storage=ST.DISK))
    finally:
        mx.numba = None
    for ram in (1, 2, 3, 4):
        for n in (3, 5, 9):
            s = MultistageCheckpointSchedule(n, ram, 2)
            emit("ALLOC", n, ram, guarded(lambda: s._storage))
    # independence: a second object after many others gives the same first actions
    a = [repr(x) for x in itertools.islice(MultistageCheckpointSchedule(9, 2, 1), 12)]
    _ = list(itertools.islice(MixedCheckpointSchedule(12, 3), 50)), list(itertools.islice(HRevolve(9, 2, 1), 50))
    b = [repr(x) for x in itertools.islice(MultistageCheckpointSchedule(9, 2, 1), 12)]
    emit("INDEP", a == b)
    sys.stdout = real
    out.close()


if __name__ == "__main__":
    main(sys.argv[1])
