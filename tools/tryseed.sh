#!/bin/sh
# dev tool: tools/tryseed.sh <patch file> <tier> <ID>...   - run checks against a scratch copy with the patch applied
patch=$1; tier=$2; shift 2
tmp=$(mktemp -d /tmp/ts_XXXXXX)
cp -r /repo/checkpoint_schedules $tmp/
( cd $tmp && patch -p1 -s -i "$patch" ) || { echo "patch failed"; rm -rf $tmp; exit 3; }
for p in "$@"; do
  ( VERIF_REPO=$tmp VERIF_EVIDENCE_DIR=$tmp/.ev "$(dirname "$0")/../vcheck" $p --tier $tier > $tmp/out_$p.txt 2>&1; echo "$p exit=$?"; grep -E "^  REFUTED|^  UNKNOWN|ANALYSIS-|second cover" $tmp/out_$p.txt | cut -c1-400 | head -${LINES_MAX:-6} ) &
done
wait
rm -rf $tmp
