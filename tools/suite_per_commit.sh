#!/bin/sh
# dev tool: run the repository's test suite for each given commit in its own scratch worktree (parallel)
# usage: tools/suite_per_commit.sh <commit>...   ; results in /tmp/suite_<commit>.txt ; worktrees removed afterwards
for c in "$@"; do
  (
    d=/tmp/wt_$c
    git -C /repo worktree add -q --detach "$d" "$c" 2>/dev/null || exit 1
    cd "$d" && PYTHONPATH="$d" /venv/bin/python -m pytest -q -p no:cacheprovider --timeout=1800 -x tests > /tmp/suite_$c.txt 2>&1
    echo "exit=$?" >> /tmp/suite_$c.txt
    cd / && git -C /repo worktree remove --force "$d"
  ) &
done
wait
for c in "$@"; do echo "$c: $(tail -2 /tmp/suite_$c.txt | tr '\n' ' ')"; done
