#!/usr/bin/env python3
"""dev tool: tools/tryrefactors.py <dir with refactor*.diff> [tier] - run every check against scratch copies with one
behaviour-preserving refactoring applied each; any exit 1 is a false alarm, exit 2 an inconclusive analysis"""
import glob, os, shutil, subprocess, sys, tempfile, concurrent.futures as cf
ROOT = os.path.dirname(os.path.dirname(os.path.abspath(__file__)))
PROPS = ["C01", "C02", "C03", "C04", "C07", "C08", "C09", "C10", "C11", "C12", "C13", "C14", "C15", "C16", "C17", "C18", "C19"]
tier = sys.argv[2] if len(sys.argv) > 2 else "quick"


def one(diff):
    tmp = tempfile.mkdtemp(prefix="rf_")
    try:
        shutil.copytree("/repo/checkpoint_schedules", os.path.join(tmp, "checkpoint_schedules"))
        p = subprocess.run(["patch", "-p1", "-s", "-i", diff], cwd=tmp, capture_output=True, text=True)
        if p.returncode:
            return diff, {"patch": (3, [p.stdout + p.stderr])}
        res = {}
        for pid in PROPS:
            env = dict(os.environ, VERIF_REPO=tmp, VERIF_EVIDENCE_DIR=os.path.join(tmp, ".ev"))
            q = subprocess.run([os.path.join(ROOT, "vcheck"), pid, "--tier", tier], capture_output=True, text=True, env=env)
            if q.returncode:
                res[pid] = (q.returncode, [l[:500] for l in q.stdout.splitlines() if l.startswith(("  REFUTED", "ANALYSIS-"))][:5])
        return diff, res
    finally:
        shutil.rmtree(tmp, ignore_errors=True)


diffs = sorted(glob.glob(os.path.join(sys.argv[1], "refactor*.diff")))
with cf.ThreadPoolExecutor(max_workers=3) as ex:
    for diff, res in ex.map(one, diffs):
        print(os.path.basename(diff), "CLEAN" if not res else "")
        for pid, (rc, lines) in res.items():
            print(f"   {pid} exit={rc}")
            for l in lines:
                print("      ", l)
