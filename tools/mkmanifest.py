#!/usr/bin/env python3
"""regenerate /verif/MANIFEST.json from the table below (dev tool, not a check)"""
import json, os, sys
HERE = os.path.dirname(os.path.dirname(os.path.abspath(__file__)))
sys.path.insert(0, HERE)
CLAIMS = json.load(open(os.path.join(HERE, "tools", "claims.json")))
NOTE = ("Trusted base: CPython's ast module and the analysis code under /verif/sa; Python's dynamic features are "
        "assumed unused at run time (no monkey-patching; the package contains no setattr/getattr with computed names); "
        "asserts active; integer arithmetic without overflow. The check decides the named structural clauses, each a "
        "necessary condition of the property, on the current source for all parameter values at once; it does not "
        "establish the whole behavioural statement (see DESIGN.md sections 4 and 9).")
checks = []
for pid, c in sorted(CLAIMS["claimed"].items()):
    checks.append({
        "property_id": pid,
        "quick_cmd": f"./vcheck {pid} --tier quick",
        "thorough_cmd": f"./vcheck {pid} --tier thorough",
        "evidence_file": f"/verif/evidence/{pid}.json",
        "replay_cmd_template": f"./vcheck {pid} --replay {{path}}",
        "engine": "sa",
        "level_claimed": {"category": "other", "text": c["text"], "design_ref": f"DESIGN.md section 4, {pid}"},
        "level_note": NOTE,
        "technique": c["technique"],
    })
m = {
    "version": 1,
    "setup_cmd": "cd /verif && (if [ -x /venv/bin/python ]; then /venv/bin/python -m compileall -q sa; else python3 -m compileall -q sa; fi) && chmod +x vcheck",
    "hooks": {"guard": "CHECKPOINT_SCHEDULES_VERIF", "enable": "none needed: the checks parse /repo's source and never import or run it; the guard is declared but unused",
              "baseline_off_cmd": "cd /repo && /venv/bin/python -m pytest -ra -q -p no:cacheprovider --timeout=900 --continue-on-collection-errors",
              "source_commits": [], "add_only": True},
    "engines": [{"name": "sa", "path": "/verif/sa", "serves_properties": sorted(CLAIMS["claimed"]),
                 "kind_free_text": "purpose-built static analysis on Python's ast: partitioned abstract interpretation of generator bodies (affine equalities, integer inequalities, finite value sets, typestate ghosts), finite abstract evaluation of guard code, cost-role flow, sibling-recurrence comparison, op-sequence grammar, effect/ownership census"}],
    "checks": checks,
    "not_applicable": [{"property_id": p, "reason": r} for p, r in sorted(CLAIMS["not_applicable"].items())],
    "notes": "All checks are static analyses of /repo's current working tree (VERIF_REPO overrides the path for self-tests). Exit 0 = all obligations proved (known findings printed as KNOWN-FINDING), 1 = VIOLATION, 2 = analysis inconclusive or anchor vanished (fail-closed, never labelled a violation). See DESIGN.md.",
}
json.dump(m, open(os.path.join(HERE, "MANIFEST.json"), "w"), indent=1)
print("wrote MANIFEST.json with", len(checks), "checks,", len(m["not_applicable"]), "not applicable")
