#!/usr/bin/env python3
"""dev tool (NOT a check): systematic mutation sweep used to evaluate the static checks both ways.

Small syntactic mutants of the package are generated on the syntax tree (comparison boundaries, +-1, swapped
arguments / storages / action kinds / booleans, deleted counter updates, guards and container updates, and<->or,
min<->max).  Each mutant is triaged *dynamically* (this is evaluation of the machinery, never part of a check):
  trace   tools/trace.py over a parameter box, compared with the pristine trace: same / diff
  tests   for mutants with a different trace: does the repository's test suite still pass?
and then every static check is run on it.  The interesting classes are
  * trace same  + some check exits 1        -> candidate false alarm
  * trace diff + suite passes + no exit 1   -> candidate detection gap (if the change breaks a listed property)
Results: one JSON line per mutant in the output file.

usage: mutsweep.py <out.jsonl> [--sample N] [--seed S] [--jobs J] [--files a.py,b.py] [--list]
"""
import argparse, ast, copy, json, os, random, shutil, subprocess, sys, tempfile, concurrent.futures as cf

ROOT = os.path.dirname(os.path.dirname(os.path.abspath(__file__)))
REPO = "/repo"
PKG = "checkpoint_schedules"
SKIP_FILES = {"__init__.py", "hrevolve_sequences/__init__.py", "hrevolve_sequences/revolve_1d.py"}
PROPS = ["C01", "C02", "C03", "C04", "C07", "C08", "C09", "C10", "C11", "C12", "C13", "C14", "C15", "C16", "C17", "C18", "C19"]
CMP = {ast.Lt: [ast.LtE], ast.LtE: [ast.Lt], ast.Gt: [ast.GtE], ast.GtE: [ast.Gt], ast.Eq: [ast.NotEq], ast.NotEq: [ast.Eq],
       ast.Is: [ast.IsNot], ast.IsNot: [ast.Is]}


def sites(tree):
    """-> list of (description, mutator(tree_copy_node_lookup)) ; nodes addressed by preorder index"""
    nodes = list(ast.walk(tree))
    out = []
    for i, n in enumerate(nodes):
        ln = getattr(n, "lineno", 0)
        if isinstance(n, ast.Compare) and len(n.ops) == 1 and type(n.ops[0]) in CMP:
            for new in CMP[type(n.ops[0])]:
                out.append((i, ln, f"cmp {type(n.ops[0]).__name__}->{new.__name__}", ("cmp", new)))
        if isinstance(n, ast.BinOp) and isinstance(n.op, (ast.Add, ast.Sub)) and isinstance(n.right, ast.Constant) \
                and n.right.value == 1 and not isinstance(n.right.value, bool):
            out.append((i, ln, "drop +-1", ("drop1",)))
            out.append((i, ln, "flip +-1", ("flip1",)))
        if isinstance(n, ast.BinOp) and isinstance(n.op, (ast.Add, ast.Sub)) and not isinstance(n.right, ast.Constant) \
                and not isinstance(n.left, ast.Constant) and isinstance(n.left, (ast.Name, ast.Attribute, ast.BinOp)):
            out.append((i, ln, "add +1", ("add1",)))
        if isinstance(n, ast.Call):
            for k, a in enumerate(n.args):
                if isinstance(a, ast.Constant) and isinstance(a.value, bool):
                    out.append((i, ln, f"bool arg {k}", ("boolarg", k)))
            for k in range(len(n.args) - 1):
                a, b = n.args[k], n.args[k + 1]
                if isinstance(a, (ast.Name, ast.Attribute)) and isinstance(b, (ast.Name, ast.Attribute)) and ast.dump(a) != ast.dump(b):
                    out.append((i, ln, f"swap args {k},{k + 1}", ("swapargs", k)))
            if isinstance(n.func, ast.Name) and n.func.id in ("Copy", "Move"):
                out.append((i, ln, "Copy<->Move", ("copymove",)))
            if isinstance(n.func, ast.Name) and n.func.id in ("min", "max") and len(n.args) == 2:
                out.append((i, ln, "min<->max", ("minmax",)))
        if isinstance(n, ast.Attribute) and isinstance(n.value, ast.Name) and n.value.id == "StorageType" and n.attr in ("RAM", "DISK"):
            out.append((i, ln, "RAM<->DISK", ("ramdisk",)))
        if isinstance(n, ast.Attribute) and isinstance(n.value, ast.Name) and n.value.id == "StorageType" and n.attr in ("WORK", "NONE"):
            out.append((i, ln, "WORK<->NONE", ("worknone",)))
        if isinstance(n, ast.BoolOp):
            out.append((i, ln, "and<->or", ("boolop",)))
        if isinstance(n, ast.Constant) and isinstance(n.value, int) and not isinstance(n.value, bool) and n.value in (0, 1, 2):
            out.append((i, ln, f"const {n.value}->{n.value + 1}", ("const", n.value + 1)))
            if n.value > 0:
                out.append((i, ln, f"const {n.value}->{n.value - 1}", ("const", n.value - 1)))
        if isinstance(n, ast.Constant) and isinstance(n.value, str) and n.value in (
                "Write_memory", "Read_memory", "Discard_memory", "Write_disk", "Read_disk", "Discard_disk", "Write", "Read", "Discard"):
            pass
        if isinstance(n, (ast.Assign, ast.AugAssign)):
            t = n.targets[0] if isinstance(n, ast.Assign) else n.target
            if isinstance(t, ast.Attribute) and isinstance(t.value, ast.Name) and t.value.id == "self":
                out.append((i, ln, f"delete {ast.unparse(n)[:40]}", ("delete",)))
        if isinstance(n, ast.If) and len(n.body) == 1 and isinstance(n.body[0], ast.Raise) and not n.orelse:
            out.append((i, ln, f"delete guard {ast.unparse(n.test)[:40]}", ("delete",)))
        if isinstance(n, ast.Expr) and isinstance(n.value, ast.Call) and isinstance(n.value.func, ast.Attribute) \
                and n.value.func.attr in ("pop", "append", "add", "remove", "insert"):
            out.append((i, ln, f"delete {ast.unparse(n)[:40]}", ("delete",)))
        if isinstance(n, ast.UnaryOp) and isinstance(n.op, ast.Not):
            out.append((i, ln, "drop not", ("dropnot",)))
    return out


def apply(tree, idx, op):
    nodes = list(ast.walk(tree))
    n = nodes[idx]
    kind = op[0]
    if kind == "cmp":
        n.ops = [op[1]()]
    elif kind == "drop1":
        repl = n.left
        return replace(tree, n, repl)
    elif kind == "flip1":
        n.op = ast.Sub() if isinstance(n.op, ast.Add) else ast.Add()
    elif kind == "add1":
        return replace(tree, n, ast.BinOp(copy.deepcopy(n), ast.Add(), ast.Constant(1)))
    elif kind == "boolarg":
        n.args[op[1]] = ast.Constant(not n.args[op[1]].value)
    elif kind == "swapargs":
        k = op[1]
        n.args[k], n.args[k + 1] = n.args[k + 1], n.args[k]
    elif kind == "copymove":
        n.func.id = "Move" if n.func.id == "Copy" else "Copy"
    elif kind == "minmax":
        n.func.id = "max" if n.func.id == "min" else "min"
    elif kind == "ramdisk":
        n.attr = "DISK" if n.attr == "RAM" else "RAM"
    elif kind == "worknone":
        n.attr = "NONE" if n.attr == "WORK" else "WORK"
    elif kind == "boolop":
        n.op = ast.Or() if isinstance(n.op, ast.And) else ast.And()
    elif kind == "const":
        n.value = op[1]
    elif kind == "delete":
        return replace(tree, n, ast.Pass())
    elif kind == "dropnot":
        return replace(tree, n, n.operand)
    return tree


def replace(tree, old, new):
    class R(ast.NodeTransformer):
        def visit(self, node):
            if node is old:
                return ast.copy_location(new, old)
            return self.generic_visit(node)
    t = R().visit(tree)
    ast.fix_missing_locations(t)
    return t


def all_mutants(files=None):
    out = []
    for d, _, fs in sorted(os.walk(os.path.join(REPO, PKG))):
        for f in sorted(fs):
            if not f.endswith(".py"):
                continue
            rel = os.path.relpath(os.path.join(d, f), os.path.join(REPO, PKG))
            if rel in SKIP_FILES or (files and rel not in files):
                continue
            src = open(os.path.join(d, f)).read()
            tree = ast.parse(src)
            # docstrings / __repr__ / printing code are not interesting
            for i, ln, desc, op in sites(tree):
                out.append(dict(file=rel, idx=i, line=ln, desc=desc, op=[op[0]] + [getattr(x, "__name__", x) for x in op[1:]]))
    return out


def mutated_source(rel, idx, op):
    src = open(os.path.join(REPO, PKG, rel)).read()
    tree = ast.parse(src)
    o = list(op)
    if o[0] == "cmp":
        o[1] = getattr(ast, o[1])
    tree = apply(tree, idx, tuple(o))
    return ast.unparse(tree) + "\n"


def sh(cmd, env=None, cwd=None, timeout=1800):
    try:
        p = subprocess.run(cmd, shell=True, env=env, cwd=cwd, capture_output=True, text=True, timeout=timeout)
        return p.returncode, p.stdout + p.stderr
    except subprocess.TimeoutExpired:
        return 124, "timeout"


NO_TESTS = [False]


def run_one(m, clean_trace, do_checks=True):
    tmp = tempfile.mkdtemp(prefix="ms_")
    res = dict(m)
    try:
        shutil.copytree(os.path.join(REPO, PKG), os.path.join(tmp, PKG))
        shutil.copytree(os.path.join(REPO, "tests"), os.path.join(tmp, "tests"))
        try:
            src = mutated_source(m["file"], m["idx"], m["op"])
            compile(src, m["file"], "exec")
        except Exception as e:
            res["status"] = f"invalid: {type(e).__name__}"
            return res
        open(os.path.join(tmp, PKG, m["file"]), "w").write(src)
        env = dict(os.environ, PYTHONPATH=tmp, TRACE_ROOT=tmp, PYTHONDONTWRITEBYTECODE="1")
        rc, out = sh(f"/venv/bin/python {ROOT}/tools/trace.py {tmp}/trace.txt", env=env, cwd=tmp, timeout=300)
        if rc != 0:
            res["trace"] = "crash"
        else:
            same = open(os.path.join(tmp, "trace.txt")).read() == clean_trace
            res["trace"] = "same" if same else "diff"
        if res["trace"] != "same" and NO_TESTS[0]:
            res["tests"] = "skipped"
        elif res["trace"] != "same":
            rc, out = sh("/venv/bin/python -m pytest -x -q -p no:cacheprovider -n 2 tests", env=env, cwd=tmp, timeout=1500)
            last = out.strip().splitlines()[-1] if out.strip() else ""
            res["tests"] = "pass" if (rc == 0 and "passed" in last) else "fail"
        else:
            res["tests"] = "not run (trace same)"
        if res["tests"] == "fail" or not do_checks:
            return res
        checks = {}
        lines = {}
        for pid in PROPS:
            e = dict(os.environ, VERIF_REPO=tmp, VERIF_EVIDENCE_DIR=os.path.join(tmp, ".ev"))
            rc, out = sh(f"{ROOT}/vcheck {pid}", env=e, timeout=900)
            if rc != 0:
                checks[pid] = rc
                lines[pid] = [l[:260] for l in out.splitlines() if l.startswith(("  REFUTED", "ANALYSIS-"))][:2]
        res["checks"] = checks
        res["lines"] = lines
        return res
    finally:
        shutil.rmtree(tmp, ignore_errors=True)


def main():
    ap = argparse.ArgumentParser()
    ap.add_argument("out")
    ap.add_argument("--sample", type=int, default=0)
    ap.add_argument("--seed", type=int, default=1)
    ap.add_argument("--jobs", type=int, default=4)
    ap.add_argument("--files", default="")
    ap.add_argument("--list", action="store_true")
    ap.add_argument("--kinds", default="", help="comma-separated prefixes of the mutant description to keep (e.g. 'delete guard')")
    ap.add_argument("--no-tests", action="store_true", help="do not run the test suite (every behaviour-changing mutant is kept)")
    a = ap.parse_args()
    NO_TESTS[0] = a.no_tests
    muts = all_mutants(set(a.files.split(",")) if a.files else None)
    if a.kinds:
        ks = tuple(a.kinds.split(","))
        muts = [m for m in muts if m["desc"].startswith(ks)]
    if a.list:
        by = {}
        for m in muts:
            by[m["file"]] = by.get(m["file"], 0) + 1
        print(len(muts), by)
        return
    rnd = random.Random(a.seed)
    if a.sample and a.sample < len(muts):
        muts = rnd.sample(muts, a.sample)
    done = set()
    if os.path.exists(a.out):
        for l in open(a.out):
            d = json.loads(l)
            done.add((d["file"], d["idx"], json.dumps(d["op"])))
    muts = [m for m in muts if (m["file"], m["idx"], json.dumps(m["op"])) not in done]
    env = dict(os.environ, PYTHONPATH=REPO, TRACE_ROOT=REPO)
    tmpc = tempfile.mkdtemp(prefix="msc_")
    rc, out = sh(f"/venv/bin/python {ROOT}/tools/trace.py {tmpc}/trace.txt", env=env, cwd=tmpc)
    assert rc == 0, out
    clean = open(os.path.join(tmpc, "trace.txt")).read()
    shutil.rmtree(tmpc)
    with cf.ThreadPoolExecutor(max_workers=a.jobs) as ex, open(a.out, "a") as f:
        for res in ex.map(lambda m: run_one(m, clean), muts):
            f.write(json.dumps(res) + "\n")
            f.flush()
            c = res.get("checks", {})
            print(f"{res['file']}:{res['line']} {res['desc'][:40]:<40} trace={res.get('trace')} tests={res.get('tests')} "
                  f"exit1={sorted(p for p, r in c.items() if r == 1)} exit2={sorted(p for p, r in c.items() if r == 2)}", flush=True)


if __name__ == "__main__":
    main()
