#!/usr/bin/env python3
"""dev tool: regenerate the seeded-changes table in DESIGN.md from seeded/*/meta.json"""
import json, os, re
ROOT = os.path.dirname(os.path.dirname(os.path.abspath(__file__)))
rows = ["| seed | property | change (needs) | VIOLATION from | exit 2 from |", "|------|----------|----------------|----------------|-------------|"]
for sid in sorted(os.listdir(os.path.join(ROOT, "seeded"))):
    mp = os.path.join(ROOT, "seeded", sid, "meta.json")
    if not os.path.exists(mp):
        continue
    m = json.load(open(mp))
    note = m.get("summary") or " ".join(m.get("what_it_needs_to_manifest", "").split())[:170]
    rows.append(f"| {sid} | {m['breaks_property']} | {note} | {', '.join(m['checks_reporting_VIOLATION']) or '–'} | {', '.join(m['checks_inconclusive_exit2']) or '–'} |")
s = open(os.path.join(ROOT, "DESIGN.md")).read()
s = re.sub(r"<!-- SEEDTABLE -->.*?<!-- /SEEDTABLE -->", "<!-- SEEDTABLE -->\n" + "\n".join(rows) + "\n<!-- /SEEDTABLE -->", s, flags=re.S)
open(os.path.join(ROOT, "DESIGN.md"), "w").write(s)
print(len(rows) - 2, "seeds")
