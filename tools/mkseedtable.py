#!/usr/bin/env python3
"""dev tool: regenerate the seeded-changes table in DESIGN.md from seeded/*/meta.json"""
import json, os, re
ROOT = os.path.dirname(os.path.dirname(os.path.abspath(__file__)))
rows = ["| seed | property | change (needs) | VIOLATION from | exit 2 from |", "|------|----------|----------------|----------------|-------------|"]
for sid in sorted(os.listdir(os.path.join(ROOT, "seeded"))):
    mp = os.path.join(ROOT, "seeded", sid, "meta.json")
    if not os.path.exists(mp):
        continue
    m = json.load(open(mp))
    note = m.get("summary") or " ".join(m.get("what_it_needs_to_manifest", "").split())[:170]
    rows.append(f"| {sid} | {m['breaks_property']} | {note} | {', '.join(m['checks_reporting_VIOLATION']) or '–'} | {', '.join(m['checks_inconclusive_exit2']) or '–'} |")
s = open(os.path.join(ROOT, "DESIGN.md")).read()
s = re.sub(r"<!-- SEEDTABLE -->.*?<!-- /SEEDTABLE -->", "<!-- SEEDTABLE -->\n" + "\n".join(rows) + "\n<!-- /SEEDTABLE -->", s, flags=re.S)
metas = [json.load(open(os.path.join(ROOT, "seeded", d, "meta.json"))) for d in sorted(os.listdir(os.path.join(ROOT, "seeded")))
         if os.path.exists(os.path.join(ROOT, "seeded", d, "meta.json"))]
own = [m for m in metas if m["breaks_property"] in m["checks_reporting_VIOLATION"]]
own2 = [m for m in metas if m not in own and m["breaks_property"] in m["checks_inconclusive_exit2"]]
other = [m for m in metas if m not in own and m["checks_reporting_VIOLATION"]]
silent = [m for m in metas if m not in own and not m["checks_reporting_VIOLATION"] and not m["checks_inconclusive_exit2"]]
only2 = [m for m in metas if m not in own and not m["checks_reporting_VIOLATION"] and m["checks_inconclusive_exit2"]]
ids = lambda ms: ", ".join(f"{m['id']} ({m['breaks_property']})" for m in ms) or "none"
stats = (f"Of the {len(metas)} stored changes, {len(own)} are reported as VIOLATION by the check of the property they were aimed at. "
         f"Of the other {len(metas) - len(own)}, {len(other)} are reported as VIOLATION by the check of another property only "
         f"({ids(other)}; of these the own check ends inconclusive, exit 2, for {ids([m for m in other if m in own2])}), "
         f"{len(only2)} end inconclusive (exit 2) without any VIOLATION ({ids(only2)}) and {len(silent)} pass every check "
         f"silently ({ids(silent)}) - the last group is what the machinery misses today.")
import textwrap
s = re.sub(r"<!-- SEEDSTATS -->.*?<!-- /SEEDSTATS -->", "<!-- SEEDSTATS -->\n" + textwrap.fill(stats, 79) + "\n<!-- /SEEDSTATS -->", s, flags=re.S)
open(os.path.join(ROOT, "DESIGN.md"), "w").write(s)
print(stats)
print(len(rows) - 2, "seeds")
