#!/bin/sh
# usage: tryb.sh <diff> <tier> IDs...   -> apply diff to scratch copy, run checks, print full output
d=$1; tier=$2; shift 2
tmp=$(mktemp -d /tmp/tb_XXXX)
cp -r /repo/checkpoint_schedules $tmp/
( cd $tmp && patch -p1 -s -i $d ) || { echo patch failed; exit 3; }
for p in "$@"; do
  VERIF_REPO=$tmp VERIF_EVIDENCE_DIR=$tmp/.ev /verif/vcheck $p --tier $tier; echo "== $p exit=$?"
done
rm -rf $tmp
