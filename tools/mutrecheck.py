#!/usr/bin/env python3
"""dev tool: re-run the static checks (current /verif) on the interesting mutants of a mutsweep result file - the survivors
of the suite with a different trace, and the trace-equivalent ones - and print the before/after summary.
usage: mutrecheck.py <sweep.jsonl> <out.jsonl> [--jobs J]"""
import json, os, shutil, subprocess, sys, tempfile, concurrent.futures as cf
sys.path.insert(0, os.path.dirname(os.path.abspath(__file__)))
import mutsweep
ROOT = mutsweep.ROOT


def one(m):
    tmp = tempfile.mkdtemp(prefix="mr_")
    try:
        shutil.copytree(os.path.join(mutsweep.REPO, mutsweep.PKG), os.path.join(tmp, mutsweep.PKG))
        open(os.path.join(tmp, mutsweep.PKG, m["file"]), "w").write(mutsweep.mutated_source(m["file"], m["idx"], m["op"]))
        checks = {}
        for pid in mutsweep.PROPS:
            e = dict(os.environ, VERIF_REPO=tmp, VERIF_EVIDENCE_DIR=os.path.join(tmp, ".ev"))
            p = subprocess.run([os.path.join(ROOT, "vcheck"), pid], env=e, capture_output=True, text=True, timeout=900)
            if p.returncode:
                checks[pid] = p.returncode
        return dict(m, checks_before=m.get("checks", {}), checks=checks)
    finally:
        shutil.rmtree(tmp, ignore_errors=True)


def main():
    rows = [json.loads(l) for l in open(sys.argv[1])]
    jobs = int(sys.argv[sys.argv.index("--jobs") + 1]) if "--jobs" in sys.argv else 4
    sel = [r for r in rows if (r.get("trace") in ("diff", "crash") and r.get("tests") in ("pass", "skipped")) or r.get("trace") == "same"]
    with cf.ThreadPoolExecutor(max_workers=jobs) as ex, open(sys.argv[2], "w") as f:
        for r in ex.map(one, sel):
            f.write(json.dumps(r) + "\n")
            f.flush()
    print("rechecked", len(sel))


if __name__ == "__main__":
    main()
