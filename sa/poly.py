"""polynomial normal forms over opaque atoms (commutativity, association and
renaming never matter when expressions are compared)"""
import ast
from fractions import Fraction as Fr


def padd(a, b, s=1):
    r = dict(a)
    for k, v in b.items():
        w = r.get(k, 0) + s * v
        if w == 0:
            r.pop(k, None)
        else:
            r[k] = w
    return r


def pmul(a, b):
    r = {}
    for k1, v1 in a.items():
        for k2, v2 in b.items():
            k = tuple(sorted(k1 + k2))
            w = r.get(k, 0) + v1 * v2
            if w == 0:
                r.pop(k, None)
            else:
                r[k] = w
    return r


def pconst(c):
    return {(): Fr(c)} if c != 0 else {}


def patom(a):
    """atoms are strings; structured atoms are rendered canonically"""
    if not isinstance(a, str):
        a = _render(a)
    return {(a,): Fr(1)}


def _render(a):
    if isinstance(a, tuple) and a and isinstance(a[0], str) and all(isinstance(x, tuple) for x in a[1:]):
        return a[0] + "(" + "; ".join(pstr(dict(x)) if _is_pkey(x) else _render(x) for x in a[1:]) + ")"
    return repr(a)


def _is_pkey(x):
    return isinstance(x, tuple) and all(isinstance(y, tuple) and len(y) == 2 and isinstance(y[0], tuple) for y in x)


def pkey(p):
    return tuple(sorted((k, v) for k, v in p.items()))


def pstr(p):
    if not p:
        return "0"
    out = []
    for k, v in sorted(p.items()):
        m = "*".join(str(x) for x in k)
        if not k:
            out.append(str(v))
        elif v == 1:
            out.append(m)
        else:
            out.append(f"{v}*{m}")
    return " + ".join(out)


class PolyBuilder:
    """ast expression -> polynomial; `atom(node)` decides how leaves are named"""

    def __init__(self, atom=None, rename=None):
        self.atom_fn = atom
        self.rename = rename or {}

    def leaf(self, node):
        if self.atom_fn is not None:
            r = self.atom_fn(node, self)
            if r is not None:
                return r
        if isinstance(node, ast.Name):
            v = self.rename.get(node.id, node.id)
            if isinstance(v, int) and not isinstance(v, bool):
                return pconst(Fr(v))       # a name known to hold this constant on the path considered
            return patom(v)
        return patom(" ".join(ast.unparse(node).split()))

    def poly(self, node):
        if isinstance(node, ast.Constant) and isinstance(node.value, (int, float)) and not isinstance(node.value, bool):
            return pconst(Fr(node.value))
        if isinstance(node, ast.BinOp):
            if isinstance(node.op, (ast.Add, ast.Sub, ast.Mult)):
                a, b = self.poly(node.left), self.poly(node.right)
                if isinstance(node.op, ast.Add):
                    return padd(a, b)
                if isinstance(node.op, ast.Sub):
                    return padd(a, b, -1)
                return pmul(a, b)
            if isinstance(node.op, ast.Div):
                b = self.poly(node.right)
                if set(b) <= {()} and b:
                    return pmul(self.poly(node.left), pconst(1 / b[()]))
                return pmul(self.poly(node.left), patom(("inv", pkey(b))))
            if isinstance(node.op, ast.FloorDiv):
                a, b = self.poly(node.left), self.poly(node.right)
                return patom(("floordiv", pkey(a), pkey(b)))
        if isinstance(node, ast.UnaryOp) and isinstance(node.op, ast.USub):
            return pmul(self.poly(node.operand), pconst(-1))
        if isinstance(node, ast.UnaryOp) and isinstance(node.op, ast.UAdd):
            return self.poly(node.operand)
        return self.leaf(node)
