"""AFF/TS engine: structural abstract interpreter over function bodies.

Abstract element = a small list of partitions, each a karr.State (affine
equalities, integer inequalities, enum facts, may-sets).  Partitions are kept
apart on a few declared enum locations (ghosts such as "EndForward already
emitted", the state of working storage, and per-generator partition
variables); everything else is joined.  Loops are solved by fixpoint with
widening.  Nothing of the analysed library is imported or executed.

Ghost locations
  n@prev, r@prev   value of self._n / self._r at the previous yield
  $last            id of the previous yield ("entry" before the first)
  $ef, $er         "0"/"1": EndForward / EndReverse emitted so far
  $work            typestate of working storage: E, I, A, A*
  $pass2           "1" once a Reverse was emitted after an EndReverse
"""
import ast
import copy

from .karr import Lin, State, join, same, widen

ENUM_CLASSES = ("StorageType", "StepType")
ONE = Lin.const(1)


class Tok:
    """A known non-numeric constant (True/False/None/str/enum member)."""
    __slots__ = ("v",)

    def __init__(self, v):
        self.v = v

    def __eq__(self, o):
        return isinstance(o, Tok) and o.v == self.v

    def __hash__(self):
        return hash(("Tok", self.v))

    def __repr__(self):
        return f"Tok({self.v})"


class Val:
    """Any other non-numeric value."""

    def __init__(self, kind, data=None):
        self.kind, self.data = kind, data

    def __repr__(self):
        return f"<{self.kind}:{self.data}>"


class YieldRec:
    def __init__(self, node, kind, ordinal, args, kwargs, state):
        self.node, self.kind, self.ordinal = node, kind, ordinal
        self.args, self.kwargs, self.state = args, kwargs, state

    @property
    def yid(self):
        return f"{self.kind}[{self.ordinal}]"

    def arg(self, i, name=None):
        if i < len(self.args):
            return self.args[i]
        if name is not None and name in self.kwargs:
            return self.kwargs[name]
        return None


class CallRec:
    def __init__(self, node, name, ordinal, args, kwargs, state):
        self.node, self.name, self.ordinal = node, name, ordinal
        self.args, self.kwargs, self.state = args, kwargs, state


class Outcome:
    def __init__(self, kind, what, state, node):
        self.kind, self.what, self.state, self.node = kind, what, state, node


class Unsupported(Exception):
    pass


def pure_sym(v):
    """the symbol name if v is exactly one symbol with coefficient 1"""
    if isinstance(v, Lin) and len(v.t) == 1 and v.c == 0:
        (k, c), = v.t.items()
        if c == 1:
            return k
    return None


def tok_of_const(value):
    return Tok(repr(value))


TRUE, FALSE, NONE = Tok("True"), Tok("False"), Tok("None")


def truth(st, v):
    """True / False / None(unknown) of a boolean-valued abstract value"""
    if isinstance(v, Tok):
        return {"True": True, "False": False}.get(v.v)
    s = pure_sym(v)
    if s is not None:
        e = st.enum_single(s)
        return {"True": True, "False": False}.get(e)
    return None


def yield_index(fn, out=None, counts=None):
    """(line, column) of a yield -> (kind, ordinal among that kind in source order); with out/counts: the
    yields of a further function (a delegated generator method) are numbered after those already known"""
    out = {} if out is None else out
    counts = {} if counts is None else counts
    ys = [n for n in ast.walk(fn) if isinstance(n, ast.Yield)]
    ys.sort(key=lambda n: (n.lineno, n.col_offset))
    for y in ys:
        kind = "?"
        if isinstance(y.value, ast.Call) and isinstance(y.value.func, ast.Name):
            kind = y.value.func.id
        # copies of one source statement made by the load-time normalisation share a position: they are one site;
        # two different actions at one position (a conditional expression that was split) are two sites
        if (y.lineno, y.col_offset % 10000, kind) in out:
            continue
        k = counts.get(kind, 0)
        counts[kind] = k + 1
        out[(y.lineno, y.col_offset % 10000, kind)] = (kind, k)
    return out


def call_index(fn, names):
    out, counts = {}, {}
    cs = [n for n in ast.walk(fn) if isinstance(n, ast.Call)
          and isinstance(n.func, ast.Name) and n.func.id in names]
    cs.sort(key=lambda n: (n.lineno, n.col_offset))
    for c in cs:
        k = counts.get(c.func.id, 0)
        counts[c.func.id] = k + 1
        out[(c.lineno, c.col_offset)] = k
    return out


REPO = None      # set by the driver: the parsed package (class hierarchy, module-level functions)

HARMLESS_CALLS = {"set", "list", "dict", "tuple", "frozenset", "sorted", "reversed", "isinstance", "hasattr", "print", "range",
                  "abs", "iter", "enumerate", "zip", "str", "repr", "float", "len", "int", "bool", "min", "max", "sum",
                  "any", "all", "divmod", "round", "type", "id", "partial", "super", "object", "warn", "format"}


def is_exception_name(name):
    return name.endswith(("Error", "Exception", "Warning")) or name.startswith("Invalid") or name in ("StopIteration", "KeyboardInterrupt")


def class_context(klass):
    methods, props = {}, {}
    if klass is None or REPO is None:
        return methods, props
    for _, c in REPO.mro(klass):
        for f in c.body:
            if not isinstance(f, ast.FunctionDef):
                continue
            decos = {ast.unparse(d) for d in f.decorator_list}
            if "property" in decos or "cached_property" in decos or "functools.cached_property" in decos:
                props.setdefault(f.name, f)
            elif not any(d.endswith((".setter", ".deleter")) for d in decos):
                methods.setdefault(f.name, f)
    return methods, props


_CONSTS = None


def is_const_expr(e):
    if isinstance(e, ast.Constant):
        return True
    if isinstance(e, ast.Attribute) and isinstance(e.value, ast.Name) and e.value.id in ENUM_CLASSES:
        return True
    if isinstance(e, ast.UnaryOp) and isinstance(e.op, ast.USub) and isinstance(e.operand, ast.Constant):
        return True
    if isinstance(e, (ast.Tuple, ast.List, ast.Set)):
        return all(is_const_expr(x) for x in e.elts)
    if isinstance(e, ast.Dict):
        return all(k is not None and isinstance(k, ast.Constant) for k in e.keys) and all(is_const_expr(x) for x in e.values)
    return False


def module_constant(name):
    """the literal collection of constants bound to a module-level name of the package (`_READ_OPS = ("Read", ...)`),
    as an ast node, if the name has exactly one such definition in the package and is never re-bound"""
    global _CONSTS
    if REPO is None:
        return None
    if _CONSTS is None or _CONSTS[0] is not REPO:
        defs, bad = {}, set()
        for rel, m in REPO.modules.items():
            for n in m.tree.body:
                tg = []
                if isinstance(n, ast.Assign):
                    tg = [t.id for t in n.targets if isinstance(t, ast.Name)]
                    v = n.value
                elif isinstance(n, (ast.AugAssign, ast.AnnAssign)) and isinstance(n.target, ast.Name):
                    tg, v = [n.target.id], None
                for t in tg:
                    if isinstance(v, ast.Call) and isinstance(v.func, ast.Name) and v.func.id in ("frozenset", "set", "tuple") \
                            and len(v.args) == 1:
                        v = v.args[0]
                    ok = isinstance(v, (ast.Tuple, ast.List, ast.Set, ast.Dict)) and is_const_expr(v)
                    if t in defs or not ok:
                        bad.add(t)
                    defs[t] = v
            for n in ast.walk(m.tree):
                if isinstance(n, ast.Global):
                    bad.update(n.names)
        _CONSTS = (REPO, {k: v for k, v in defs.items() if k not in bad})
    return _CONSTS[1].get(name)


def package_signature(name):
    """positional parameter names of the package's module-level function `name` (unique definition), or None"""
    if REPO is None:
        return None
    found = [n for rel, m in REPO.modules.items() for n in m.tree.body if isinstance(n, ast.FunctionDef) and n.name == name]
    if len(found) != 1:
        return None
    return [a.arg for a in found[0].args.args]


_PKG = None


def module_number(name):
    """a module-level name bound once to a number: -> int | 'inf' | None"""
    if REPO is None:
        return None
    found = []
    for rel, m in REPO.modules.items():
        for n in m.tree.body:
            if isinstance(n, ast.Assign) and any(isinstance(t, ast.Name) and t.id == name for t in n.targets):
                found.append(n.value)
    if len(found) != 1:
        return None
    v = found[0]
    if isinstance(v, ast.Constant) and isinstance(v.value, int) and not isinstance(v.value, bool):
        return v.value
    if isinstance(v, ast.Call) and isinstance(v.func, ast.Name) and v.func.id == "float" and len(v.args) == 1 \
            and isinstance(v.args[0], ast.Constant) and str(v.args[0].value).lower() in ("inf", "+inf", "infinity"):
        return "inf"
    if isinstance(v, ast.Attribute) and isinstance(v.value, ast.Name) and v.value.id in ("math", "np", "numpy") and v.attr == "inf":
        return "inf"
    return None


def package_functions():
    """names of the package's module-level functions and classes: calling one is a modelled construct (its
    result is an unconstrained value of the analysis, as for the pinned planners)"""
    global _PKG
    if REPO is None:
        return frozenset()
    if _PKG is None or _PKG[0] is not REPO:
        names = set()
        for rel, m in REPO.modules.items():
            for n in m.tree.body:
                if isinstance(n, (ast.FunctionDef, ast.ClassDef)):
                    names.add(n.name)
                elif isinstance(n, ast.Assign):
                    for t in n.targets:
                        if isinstance(t, ast.Name):
                            names.add(t.id)
        _PKG = (REPO, frozenset(names))
    return _PKG[1]


def is_generator_def(fdef):
    for n in ast.walk(fdef):
        if isinstance(n, (ast.Yield, ast.YieldFrom)):
            return True
    return False


class Interp:
    DEFAULT_PART = ("$ef", "$work", "$last")

    def __init__(self, fn, entry=None, partvars=(), closures=None,
                 finalize_havoc=True, resolver=None, hooks=None,
                 record_calls=("n_advance", "mixed_step_memoization",
                               "mixed_steps_tabulation"), klass=None):
        self.fn = fn
        # class context: methods and properties of the analysed class (resolved along its bases), so that
        # self.m(...) / self.p / `yield from self.g(...)` are analysed instead of guessed
        self.methods, self.props = class_context(klass)
        self.pkg_functions = package_functions()
        # constructs outside the modelled fragment (calls of callables that cannot be resolved, containers
        # that escape into them): verdicts from a run that met one are never definite refutations
        self.fuzzy = []
        self.param_src = {}
        self.unrolling = 0
        self.exact_done = set()
        self.unroll_depth = 2
        self.const_locals = {}    # loop variables currently bound to a literal collection (unrolled loops)
        self.part_cap = 96
        self.fnlocals = {n.id for n in ast.walk(fn) if isinstance(n, ast.Name) and isinstance(n.ctx, ast.Store)} | \
            {n.name for n in ast.walk(fn) if isinstance(n, ast.FunctionDef) and n is not fn} | \
            {a.arg for a in fn.args.args + fn.args.kwonlyargs}
        self.fndefs = {}
        for n in ast.walk(fn):
            if isinstance(n, ast.FunctionDef) and n is not fn:
                self.fndefs[n.name] = self.fndefs.get(n.name, 0) + 1
            elif isinstance(n, ast.Assign) and isinstance(n.value, ast.Name):
                for t in n.targets:
                    if isinstance(t, ast.Name):
                        self.fndefs[t.id] = self.fndefs.get(t.id, 0) + 1
        self.closures = dict(closures or {})
        self.partvars = tuple(self.DEFAULT_PART) + tuple(partvars)
        self.finalize_havoc = finalize_havoc
        self.resolver = resolver          # callable(name) -> FunctionDef for inlining
        self.hooks = hooks or {}
        self.record = False
        self.yields, self.calls, self.labels = [], [], []
        self.outcomes, self.cops, self.subs = [], [], []
        self.substores = []
        self.subloads = []
        self.astores = []         # (target node, symbol, state before the store, stored value) of attribute stores
        self.label_atoms = {}
        self.tuple_arity = {}
        self.summaries = {}
        self.exact_minmax = False
        self.record_early = True
        self.minmax = {}
        self._exact_atoms = set()
        self.untracked = set()
        self.opaque_branches = 0
        self.early = False
        self.early_yields, self.early_calls, self.early_cops, self.early_subs = [], [], [], []
        self._forks = []
        self.coarsened = []
        self.containers = set()
        self.container_arity = {}
        self.attr_writes = set()
        self.entry = entry
        self.ycounts = {}
        self.yidx = yield_index(fn, None, self.ycounts)
        self.cidx = call_index(fn, record_calls)
        self.record_calls = record_calls
        self.max_parts = 0
        self.loop_iters = 0
        self.loop_memo = {}
        self.none_part = ()
        self.inline_depth = 0

    # ------------------------------------------------------------ symbols
    def sym_of(self, node):
        if isinstance(node, ast.Name):
            return node.id
        if isinstance(node, ast.Attribute) and isinstance(node.value, ast.Name):
            if node.value.id in ENUM_CLASSES:
                return None
            return node.value.id + "." + node.attr
        return None

    def site(self, node, tag=""):
        return f"@{tag}{node.lineno}:{node.col_offset}"

    # ------------------------------------------------------------ partitions
    def pkey(self, st):
        key = []
        for v in self.partvars:
            key.append(st.enum_single(v))
        key.append(st.enum_is("self._max_n", "None"))
        for v in self.none_part:
            key.append(st.enum_is(v, "None"))
        return tuple(key)

    def normalize(self, states):
        if self.exact_minmax:
            outs = [s for s in states if s is not None and not s.bottom]
            if len(outs) > 256:
                raise Unsupported("too many exact partitions")
            self.max_parts = max(self.max_parts, len(outs))
            return outs
        groups = {}
        order = []
        for s in states:
            if s is None or s.bottom:
                continue
            k = self.pkey(s)
            if k in groups:
                groups[k] = join(groups[k], s)
            else:
                groups[k] = s
                order.append(k)
        self.max_parts = max(self.max_parts, len(order))
        if len(order) > self.part_cap:
            # too many partitions: give up the least important partition variable and merge
            for drop in ("$last", "$work"):
                if drop in self.partvars:
                    self.partvars = tuple(v for v in self.partvars if v != drop)
                    self.coarsened.append(drop)
                    return self.normalize([groups[k] for k in order])
            raise Unsupported("partition explosion")
        return [groups[k] for k in order]

    def same_parts(self, a, b):
        if len(a) != len(b):
            return False
        ka = {self.pkey(s): s for s in a}
        kb = {self.pkey(s): s for s in b}
        if set(ka) != set(kb):
            return False
        return all(same(ka[k], kb[k]) for k in ka)

    # ------------------------------------------------------------ expressions
    def ev(self, node, st):
        """-> Lin | Tok | Val | tuple"""
        if isinstance(node, ast.Constant):
            v = node.value
            if isinstance(v, bool) or v is None or isinstance(v, str):
                return tok_of_const(v)
            if isinstance(v, int):
                return Lin.const(v)
            return Val("const", v)
        if isinstance(node, ast.Attribute) and isinstance(node.value, ast.Name) \
                and node.value.id in ENUM_CLASSES:
            return Tok(node.value.id + "." + node.attr)
        s = self.sym_of(node)
        if s is not None and s.startswith("self.") and s[5:] in self.props and isinstance(node.ctx, ast.Load):
            call = ast.copy_location(ast.Call(func=node, args=[], keywords=[]), node)
            return self.inline(self.props[s[5:]], call, st, skip_self=True)
        if s is not None and isinstance(node, ast.Name) and s not in self.fnlocals and \
                (s in self.summaries or s in self.hooks):
            return Tok("fn:" + s)
        if s is not None:
            if s in self.containers:
                return Val("container", s)
            ar = self.tuple_arity.get(s) if isinstance(node, ast.Name) else None
            if ar and st.enum_is(s, "None") == "no":
                return tuple(Lin.sym(f"{s}.{k}") for k in range(ar))
            single = st.enum_single(s)
            if single is not None and single not in ("True", "False"):
                # a location known to hold one non-numeric constant
                return Tok(single)
            return Lin.sym(s)
        if isinstance(node, ast.UnaryOp):
            if isinstance(node.op, ast.USub):
                v = self.ev(node.operand, st)
                if isinstance(v, Lin):
                    return -v
            return self.opaque(node, st)
        if isinstance(node, ast.BinOp):
            a, b = self.ev(node.left, st), self.ev(node.right, st)
            if isinstance(a, Lin) and isinstance(b, Lin):
                if isinstance(node.op, ast.Add):
                    return a + b
                if isinstance(node.op, ast.Sub):
                    return a - b
                if isinstance(node.op, ast.Mult):
                    ra, rb = st.reduce(a), st.reduce(b)
                    if ra.is_const():
                        return b.scale(ra.c)
                    if rb.is_const():
                        return a.scale(rb.c)
            return self.opaque(node, st)
        if isinstance(node, ast.Tuple):
            return tuple(self.ev(e, st) for e in node.elts)
        if isinstance(node, ast.Call):
            return self.ev_call(node, st)
        if isinstance(node, ast.Subscript):
            return self.ev_subscript(node, st)
        if isinstance(node, (ast.Compare, ast.BoolOp)):
            # boolean-valued expression used as a value: decide it if possible
            t = self.assume(node, st, True)
            f = self.assume(node, st, False)
            if not t and f:
                return FALSE
            if t and not f:
                return TRUE
            if not t and not f:
                st.bottom = True
                return Val("raised")
            return self.opaque(node, st)
        if isinstance(node, (ast.List, ast.Set, ast.Dict)):
            return Val("lit", node)
        if isinstance(node, (ast.Yield, ast.YieldFrom, ast.Await)):
            raise Unsupported(f"{type(node).__name__} inside an expression at line {node.lineno}")
        return self.opaque(node, st)

    def opaque(self, node, st, tag=""):
        a = self.site(node, tag)
        st.forget_all(a)
        if st.cond:
            st.cond = [c for c in st.cond if a != c[0] and all(a not in e.t for e in c[2] + c[3])
                       and all(a != e[0] for e in c[4])]
        return Lin.sym(a)

    def fire_conds(self, st):
        if not st.cond:
            return
        # canonical form of every location with a decisive enum fact, computed once
        canon = {}

        def can(sym):
            k = canon.get(sym)
            if k is None:
                k = canon[sym] = st.reduce(Lin.sym(sym)).key()
            return k
        cands = [s for s, e in st.enums.items() if not s.startswith("$")]
        keep = []
        for c in st.cond:
            key, tok, eqs, ineqs, enums = c
            fired = dead = False
            kk = can(key)
            for s in cands:
                if s != key and can(s) != kk:
                    continue
                e = st.enums.get(s)
                if e is None:
                    continue
                if e[0] == "in" and len(e[1]) == 1 and tok in e[1]:
                    fired = True
                    break
                if (e[0] == "in" and tok not in e[1]) or (e[0] == "notin" and tok in e[1]):
                    dead = True
                    break
            if fired:
                for q in eqs:
                    st.add_eq(q)
                for q in ineqs:
                    st.add_ineq(q)
                canon.clear()
                for a, vals in enums:
                    st.enum_meet(a, "in", vals)
                    ka = can(a)
                    # aliases of the atom (locals it was unpacked into) learn the same
                    for s2 in list(st.rows) + [x for r in st.rows.values() for x in r.t]:
                        if not s2.startswith("@") and s2 != a and can(s2) == ka:
                            st.enum_meet(s2, "in", vals)
            elif not dead:
                keep.append(c)
        st.cond = keep

    def summarised_call(self, name, node, args, st):
        """instantiate the return-case summary of a pure function.
        summary = (shape, cases); shape is a nested tuple of slot names, a case is
        (token of slot 'k', eqs, ineqs, enums) over slot names and 'a0' (first argument)"""
        shape, cases = self.summaries[name]
        # atoms are named after the argument text, so that the two arms of a
        # selection site (memoised / tabulated planner, same arguments) produce
        # the same facts and survive the join
        if isinstance(node, ast.Call):
            text = ",".join(ast.unparse(a) for a in node.args)
        elif isinstance(node.slice, ast.Tuple):
            text = ",".join(ast.unparse(a) for a in node.slice.elts)
        else:
            text = ast.unparse(node.slice)
        text = "".join(text.split())
        fam = name.rstrip("[]").split("_")[0] if name.startswith("mixed") or name.endswith("[]") else name

        def atom(tag):
            a = f"@{'plan' if fam in ('mixed', 'schedule') else fam}[{text}].{tag}"
            st.forget_all(a)
            if st.cond:
                st.cond = [c for c in st.cond if a != c[0] and all(a not in e.t for e in c[2] + c[3])
                           and all(a != e[0] for e in c[4])]
            return a
        ren = {"a0": atom("a0")}
        if args and isinstance(args[0], Lin):
            st.add_eq(Lin.sym(ren["a0"]) - args[0])

        def build(sh):
            if isinstance(sh, tuple):
                return tuple(build(x) for x in sh)
            ren[sh] = atom(sh)
            return Lin.sym(ren[sh])
        ret = build(shape)

        def rn(l):
            return Lin({ren[k]: v for k, v in l.t.items()}, l.c)
        toks = []
        for tok, eqs, ineqs, enums in cases:
            toks.append(tok)
            st.cond.append((ren["k"], tok, tuple(rn(q) for q in eqs), tuple(rn(q) for q in ineqs),
                            tuple((ren[a], frozenset(v)) for a, v in enums)))
        st.enum_meet(ren["k"], "in", toks)
        return ret

    def ev_subscript(self, node, st):
        base = node.value
        if getattr(self, "record_subloads", False) and self.record:
            self.subloads.append((node, st.copy()))
        if isinstance(base, ast.Name) and base.id not in self.fnlocals and isinstance(module_constant(base.id), ast.Dict):
            node = ast.copy_location(ast.Subscript(module_constant(base.id), node.slice, node.ctx), node)
            base = node.value
        if isinstance(base, ast.Dict) and all(isinstance(k, ast.Constant) for k in base.keys):
            idx = self.ev(node.slice, st)
            vals = [self.ev(v, st) for v in base.values]
            keys = [k.value for k in base.keys]
            if isinstance(idx, Lin) and st.reduce(idx).is_const():
                c = st.reduce(idx).c
                if c in keys:
                    return vals[keys.index(c)]
                if self.record:
                    self.outcomes.append(Outcome("raise", "KeyError", st.copy(), node))
                st.bottom = True
                return Val("raised")
            r = self.opaque(node, st)
            if vals and all(isinstance(v, Tok) for v in vals):
                st.enum_meet(pure_sym(r), "in", [v.v for v in vals])
            return r
        bs = self.sym_of(base)
        if isinstance(base, ast.Name) and self.tuple_arity.get(bs) and isinstance(node.slice, ast.Constant) \
                and isinstance(node.slice.value, int) and 0 <= node.slice.value < self.tuple_arity[bs]:
            return Lin.sym(f"{bs}.{node.slice.value}")
        if bs in self.containers:
            sl = node.slice
            if isinstance(sl, ast.UnaryOp) and isinstance(sl.op, ast.USub) and \
                    isinstance(sl.operand, ast.Constant) and sl.operand.value == 1:
                ar = self.container_arity.get(bs)
                if ar:
                    return tuple(Lin.sym(f"top({bs}).{k}") for k in range(ar))
                return Lin.sym(f"top({bs})")
            return self.opaque(node, st)
        # container[-1][k]
        if isinstance(base, ast.Subscript):
            inner = self.ev_subscript(base, st)
            if isinstance(inner, tuple) and isinstance(node.slice, ast.Constant) \
                    and isinstance(node.slice.value, int) and node.slice.value < len(inner):
                return inner[node.slice.value]
            return self.opaque(node, st)
        idx = self.ev(node.slice, st)
        if bs is not None:
            if self.record:
                (self.early_subs if self.early else self.subs).append((node, bs, idx, st.copy()))
            if bs + "[]" in self.summaries and isinstance(idx, tuple):
                return self.summarised_call(bs + "[]", node, list(idx), st)
            if isinstance(idx, Lin) and bs.startswith("self."):
                # a label looked up in a per-instance table: an atom that remembers
                # table and index (the index is checked where it is evaluated)
                a = self.opaque(node, st)
                self.label_atoms[pure_sym(a)] = (bs, node)
                st.assign(f"idx({pure_sym(a)})", idx)
                return a
        return self.opaque(node, st)

    def ev_call(self, node, st):
        f = node.func
        if isinstance(f, ast.Name):
            if f.id == "len" and len(node.args) == 1:
                s = self.sym_of(node.args[0])
                if s in self.containers:
                    return Lin.sym(f"len({s})")
                return self.opaque(node, st)
            if f.id in ("int", "bool") and len(node.args) == 1:
                v = self.ev(node.args[0], st)
                if pure_sym(v) or isinstance(v, Tok):
                    return v
                return self.opaque(node, st)
            if f.id in ("min", "max") and len(node.args) == 2 and not node.keywords:
                a, b = self.ev(node.args[0], st), self.ev(node.args[1], st)
                r = self.opaque(node, st)
                if isinstance(a, Lin) and isinstance(b, Lin) and not self.exact_minmax:
                    # remember the definition for case analysis at query time (operands bound to atoms)
                    aa, bb = self.opaque(node, st, "a."), self.opaque(node, st, "b.")
                    st.add_eq(aa - a)
                    st.add_eq(bb - b)
                    self.minmax[pure_sym(r)] = (f.id, pure_sym(aa), pure_sym(bb))
                    a, b = aa, bb
                if isinstance(a, Lin) and isinstance(b, Lin) and self.exact_minmax:
                    # exact: r is one of the operands (case split applied after the statement, so the
                    # operands are first bound to atoms that keep their value if a variable is re-assigned)
                    aa, bb = self.opaque(node, st, "a."), self.opaque(node, st, "b.")
                    st.add_eq(aa - a)
                    st.add_eq(bb - b)
                    self._exact_atoms.add(pure_sym(r))
                    a, b = aa, bb
                    if f.id == "min":
                        self._forks.append([([r - a], [b - a]), ([r - b], [a - b])])
                    else:
                        self._forks.append([([r - a], [a - b]), ([r - b], [b - a])])
                if isinstance(a, Lin) and isinstance(b, Lin):
                    for x in (a, b):
                        st.add_ineq((x - r) if f.id == "min" else (r - x))
                    # min(a,b) equals one of them: if a<=b entailed, r = a
                    if st.entails_ineq(b - a):
                        st.add_eq(r - (a if f.id == "min" else b))
                    elif st.entails_ineq(a - b):
                        st.add_eq(r - (b if f.id == "min" else a))
                return r
            tgt = f.id
            if f.id in self.fnlocals:
                # a local that holds a function: dispatch on the function it certainly holds
                tok = st.enum_single(f.id)
                if tok is not None and tok.startswith("fn:"):
                    tgt = tok[3:]
                else:
                    self.note_fuzzy(node, f"call of the local `{f.id}`, which does not certainly hold one known function")
                    return self.unknown_call(node, st)
            if tgt in self.closures:
                return self.inline(self.closures[tgt], node, st)
            if tgt in self.hooks:
                return self.hooks[tgt](self, node, st)
            if tgt in self.summaries:
                args = [self.ev(a, st) for a in node.args]
                if self.record and tgt in self.record_calls:
                    (self.early_calls if self.early else self.calls).append(CallRec(node, tgt, self.cidx.get((node.lineno, node.col_offset), -1),
                                              args, {}, st.copy()))
                return self.summarised_call(tgt, node, args, st)
            args = [self.ev(a, st) for a in node.args]
            kwargs = {k.arg: self.ev(k.value, st) for k in node.keywords if k.arg}
            if kwargs and tgt in self.record_calls:
                # keyword arguments are put into the positions the callee's signature gives them
                pos = package_signature(tgt)
                if pos:
                    full = list(args)
                    for p_ in pos[len(args):]:
                        if p_ in kwargs:
                            full.append(kwargs[p_])
                        else:
                            break
                    args = full
            if self.record and tgt in self.record_calls:
                (self.early_calls if self.early else self.calls).append(CallRec(node, tgt, self.cidx.get((node.lineno, node.col_offset), -1),
                                          args, kwargs, st.copy()))
            if not (tgt in HARMLESS_CALLS or is_exception_name(tgt) or tgt in self.pkg_functions or tgt in ENUM_CLASSES):
                self.note_fuzzy(node, f"call of `{tgt}`, which is not a function of the package")
            self.escape(args + list(kwargs.values()), node)
            return self.opaque(node, st)
        if isinstance(f, ast.Attribute):
            s = self.sym_of(f.value)
            if s in self.containers:
                return self.container_op(s, f.attr, node, st)
            if s and s.startswith("self.") and f.attr in ("append", "add", "pop", "remove", "discard", "clear", "extend", "insert"):
                self.untracked.add(s)
            # a method of the analysed class: analysed in place
            if isinstance(f.value, ast.Name) and f.value.id == "self" and f.attr in self.methods:
                m = self.methods[f.attr]
                has_loop = any(isinstance(n, (ast.For, ast.While, ast.ListComp, ast.GeneratorExp)) for n in ast.walk(m))
                if not is_generator_def(m) and not has_loop and self.inline_depth <= 2:
                    return self.inline(m, node, st, skip_self=True)
                if not is_generator_def(m) and self.effect_free(m):
                    # a query: its result is a value of its own, nothing else changes
                    args = [self.ev(a, st) for a in node.args] + [self.ev(k.value, st) for k in node.keywords]
                    if not any(isinstance(v, Val) and v.kind == "container" for v in args):
                        return self.opaque(node, st)
                self.note_fuzzy(node, f"call of self.{f.attr}(), a method with effects that is not analysed in place")
                return self.unknown_call(node, st)
            if f.attr == "get" and isinstance(f.value, ast.Dict) and 1 <= len(node.args) <= 2 and not node.keywords:
                # lookup in a dictionary display whose keys are constants or enum members: the entry, or the default
                key = self.ev(node.args[0], st)
                if isinstance(key, Lin) and pure_sym(key) and st.enum_single(pure_sym(key)) is not None:
                    key = Tok(st.enum_single(pure_sym(key)))
                keys = [self.ev(k_, st) if k_ is not None else None for k_ in f.value.keys]
                if isinstance(key, Tok) and all(isinstance(k_, Tok) for k_ in keys):
                    for k_, v_ in zip(keys, f.value.values):
                        if k_.v == key.v:
                            return self.ev(v_, st)
                    return self.ev(node.args[1], st) if len(node.args) == 2 else NONE
                self.note_fuzzy(node, "lookup in a dictionary display with a key the analysis cannot determine")
                return self.opaque(node, st)
            harmless = (isinstance(f.value, ast.Name) and f.value.id in ("warnings", "np", "numpy", "math", "functools", "sys")) \
                or f.attr in ("format", "join", "copy", "items", "keys", "values", "get", "index", "count") \
                or (isinstance(f.value, ast.Call) and isinstance(f.value.func, ast.Name) and f.value.func.id == "super")
            if not harmless:
                self.note_fuzzy(node, f"call of `{ast.unparse(f)}`, which the analysis cannot resolve")
                return self.unknown_call(node, st)
            # super().__init__(...)
            if f.attr == "__init__" and isinstance(f.value, ast.Call) and \
                    isinstance(f.value.func, ast.Name) and f.value.func.id == "super" \
                    and "super_init" in self.hooks:
                return self.hooks["super_init"](self, node, st)
        for a in node.args:
            self.ev(a, st)
        for k in node.keywords:
            self.ev(k.value, st)
        return self.opaque(node, st)

    MUTATORS = ("append", "add", "pop", "remove", "discard", "clear", "extend", "insert", "update", "setdefault",
                "popitem", "sort", "reverse", "appendleft", "popleft")

    def effect_free(self, fdef, depth=0):
        """no store to an attribute or subscript, no mutating call, no yield, no global/nonlocal, and only calls of
        effect-free methods of the class"""
        for n in ast.walk(fdef):
            if isinstance(n, (ast.Attribute, ast.Subscript)) and isinstance(n.ctx, (ast.Store, ast.Del)):
                return False
            if isinstance(n, (ast.Yield, ast.YieldFrom, ast.Global, ast.Nonlocal)):
                return False
            if isinstance(n, ast.Call) and isinstance(n.func, ast.Attribute):
                if n.func.attr in self.MUTATORS:
                    return False
                if isinstance(n.func.value, ast.Name) and n.func.value.id == "self":
                    m = self.methods.get(n.func.attr)
                    if m is None or depth > 2 or not self.effect_free(m, depth + 1):
                        return False
            if isinstance(n, ast.Call) and isinstance(n.func, ast.Name) and n.func.id in ("setattr", "delattr", "exec", "eval"):
                return False
        return True

    def note_fuzzy(self, node, text):
        item = (getattr(node, "lineno", 0) % 10000, text)
        if item not in self.fuzzy:
            self.fuzzy.append(item)

    def escape(self, vals, node):
        """a tracked container handed to code that is not analysed is no longer tracked"""
        for v in vals:
            if isinstance(v, Val) and v.kind == "container":
                self.untracked.add(v.data)
                self.note_fuzzy(node, f"the container `{v.data}` escapes into a call that is not analysed")

    def unknown_call(self, node, st):
        args = [self.ev(a, st) for a in node.args]
        kwargs = [self.ev(k.value, st) for k in node.keywords]
        self.escape(args + kwargs, node)
        return self.opaque(node, st)

    def container_op(self, c, op, node, st):
        L = f"len({c})"
        ar = self.container_arity.get(c)
        tops = [f"top({c}).{k}" for k in range(ar)] if ar else [f"top({c})"]
        if op in ("append", "add"):
            v = self.ev(node.args[0], st)
            if isinstance(v, tuple):
                if ar is None or ar != len(v):
                    for t in tops:
                        st.forget_all(t)
                    self.container_arity[c] = ar = len(v)
                    tops = [f"top({c}).{k}" for k in range(ar)]
                comps = list(v)
            else:
                comps = [v]
            st.assign(L, Lin.sym(L) + ONE)
            for t, comp in zip(tops, comps):
                self.set_loc(t, comp, st)
            trk = st.enum_single(f"$trk({c})")
            if self.record:
                (self.early_cops if self.early else self.cops).append((node, c, "push", comps, st.copy()))
            st.enum_set(f"$trk({c})", {"0": "P", "W": "0"}.get(trk, "ERR"))
            return NONE
        if op in ("pop", "remove", "discard"):
            arg = [self.ev(a, st) for a in node.args]
            if op == "pop":
                popped = Lin.sym(tops[1] if ar and ar > 1 else tops[0])
            else:
                popped = arg[0] if arg and isinstance(arg[0], Lin) else None
                if arg and isinstance(arg[0], tuple) and len(arg[0]) > 1:
                    # element given as a tuple: component 1 is the step, component 0 its tag/storage
                    popped = arg[0][1] if isinstance(arg[0][1], Lin) else None
                    self.set_loc(f"popped({c}).0", arg[0][0], st)
            if op == "pop" and ar and ar > 1:
                self.set_loc(f"popped({c}).0", Lin.sym(tops[0]), st)
                for k_ in range(2, ar):
                    self.set_loc(f"popped({c}).{k_}", Lin.sym(tops[k_]), st)
            if popped is not None:
                st.assign(f"popped({c})", popped)
            else:
                st.forget_all(f"popped({c})")
            if op in ("pop", "remove"):
                # removing from an empty container raises: the fall-through had an element
                st.add_ineq(Lin.sym(L) - ONE)
                if st.bottom or st.infeasible():
                    st.bottom = True
                    return NONE
            st.assign(L, Lin.sym(L) - ONE)
            for t in tops:
                st.forget_all(t)
            trk = st.enum_single(f"$trk({c})")
            if self.record:
                (self.early_cops if self.early else self.cops).append((node, c, "pop", arg, st.copy()))
            st.enum_set(f"$trk({c})", {"0": "X"}.get(trk, "ERR"))
            if op == "pop" and popped is not None and not (ar and ar > 1):
                return Lin.sym(f"popped({c})")      # the value of `c.pop()`: the element just removed
            return NONE
        for a in node.args:
            self.ev(a, st)
        return self.opaque(node, st)

    def bind_params(self, fdef, call, states, skip_self=False):
        """bind the parameters of fdef to the arguments of `call` in every state; -> the body of fdef with
        parameters renamed apart (a container argument keeps the caller's name: same object)"""
        pre = f"{fdef.name}{self.inline_depth or ''}."
        ren = {}
        params = list(fdef.args.args)
        if skip_self and params:
            ren[params[0].arg] = params[0].arg
            params = params[1:]
        defaults = dict(zip([p.arg for p in fdef.args.args][len(fdef.args.args) - len(fdef.args.defaults):],
                            fdef.args.defaults))
        for p, d in zip(fdef.args.kwonlyargs, fdef.args.kw_defaults):
            params.append(p)
            if d is not None:
                defaults[p.arg] = d
        kw = {k.arg: k.value for k in call.keywords if k.arg}
        npos = len(fdef.args.args) - (1 if skip_self else 0)
        for i, p in enumerate(params):
            src = call.args[i] if (i < len(call.args) and i < npos) else kw.get(p.arg, defaults.get(p.arg))
            ren[p.arg] = pre + p.arg
            if src is not None:
                self.param_src[pre + p.arg] = src      # what an inlined parameter stands for (for reports and rules)
            for st in states:
                v = self.ev(src, st) if src is not None else None
                if isinstance(v, Val) and v.kind == "container":
                    ren[p.arg] = v.data
                    continue
                self.set_loc(pre + p.arg, v, st)
        # locals of the callee are renamed apart as well (a nested function shares the enclosing names it
        # does not assign, or declares nonlocal)
        nonlocal_ = {x for n in ast.walk(fdef) if isinstance(n, (ast.Nonlocal, ast.Global)) for x in n.names}
        for n in ast.walk(fdef):
            if isinstance(n, ast.Name) and isinstance(n.ctx, ast.Store) and n.id not in ren and n.id not in nonlocal_:
                ren[n.id] = pre + n.id
                if n.id in self.partvars and pre + n.id not in self.partvars:
                    self.partvars = self.partvars + (pre + n.id,)
        sub = Renamer(ren)
        body = [sub.visit(copy.deepcopy(s)) for s in fdef.body]
        for s in body:
            for n in ast.walk(s):
                if hasattr(n, "lineno"):
                    n.col_offset = n.col_offset + 10000 * (self.inline_depth + 1)
        return body

    def yield_from(self, node, st):
        """`yield from g(...)` with g a nested generator function or a generator method of the class: the
        delegated generator's body is analysed in place (its actions are actions of this schedule)"""
        call = node.value
        fdef, skip_self = None, False
        if isinstance(call, ast.Call):
            f = call.func
            if isinstance(f, ast.Name) and f.id in self.fnlocals:
                tok = st.enum_single(f.id)
                if tok and tok.startswith("fn:") and tok[3:] in self.closures:
                    fdef = self.closures[tok[3:]]
            elif isinstance(f, ast.Attribute) and isinstance(f.value, ast.Name) and f.value.id == "self" \
                    and f.attr in self.methods:
                fdef, skip_self = self.methods[f.attr], True
                yield_index(fdef, self.yidx, self.ycounts)
            elif isinstance(f, ast.Name) and f.id not in self.fnlocals and REPO is not None \
                    and not any(isinstance(a, ast.Starred) for a in call.args) and not any(k.arg is None for k in call.keywords):
                # a module-level generator function of the package that receives the schedule itself: analysed in place
                # with that parameter standing for `self`
                cands = [n for m in REPO.modules.values() for n in m.tree.body if isinstance(n, ast.FunctionDef) and n.name == f.id]
                if len(cands) == 1 and is_generator_def(cands[0]) and not cands[0].decorator_list:
                    g0 = cands[0]
                    params = [a.arg for a in g0.args.args]
                    self_pos = [i for i, a in enumerate(call.args) if isinstance(a, ast.Name) and a.id == "self"]
                    self_kw = [k.arg for k in call.keywords if isinstance(k.value, ast.Name) and k.value.id == "self"]
                    pname = params[self_pos[0]] if len(self_pos) == 1 and self_pos[0] < len(params) else (self_kw[0] if len(self_kw) == 1 else None)
                    stored = {x.id for x in ast.walk(g0) if isinstance(x, ast.Name) and isinstance(x.ctx, ast.Store)}
                    if pname is not None and pname not in stored and len(self_pos) + len(self_kw) == 1:
                        g1 = copy.deepcopy(g0)
                        g1.args.args = [a for a in g1.args.args if a.arg != pname]
                        for x in ast.walk(g1):
                            if isinstance(x, ast.Name) and x.id == pname:
                                x.id = "self"
                        call = copy.deepcopy(call)
                        call.args = [a for a in call.args if not (isinstance(a, ast.Name) and a.id == "self")]
                        call.keywords = [k for k in call.keywords if k.arg != pname]
                        fdef = g1
                        yield_index(fdef, self.yidx, self.ycounts)
        if fdef is None or not is_generator_def(fdef) or self.inline_depth > 2:
            raise Unsupported(f"yield from at line {node.lineno}: the delegated generator cannot be resolved")
        body = self.bind_params(fdef, call, [st], skip_self)
        self.inline_depth += 1
        saved = self.outcomes
        self.outcomes = []
        try:
            out, brk, cont = self.block(body, [st])
            outs = list(self.outcomes)
        finally:
            self.inline_depth -= 1
            self.outcomes = saved
        for o in outs:
            if o.kind == "raise":
                self.outcomes.append(o)
            elif o.kind == "return":
                out.append(o.state)
        return out

    def resolve_inline(self, node, st):
        """(fdef, skip_self) if `node` is a call of a nested function the name certainly holds, or of a loop-free
        non-generator method of the class: callees that are analysed in place"""
        if not isinstance(node, ast.Call) or self.inline_depth > 2:
            return None
        f = node.func
        if isinstance(f, ast.Name) and f.id in self.fnlocals:
            tok = st.enum_single(f.id)
            if tok is not None and tok.startswith("fn:") and tok[3:] in self.closures \
                    and not is_generator_def(self.closures[tok[3:]]):
                return self.closures[tok[3:]], False
        if isinstance(f, ast.Attribute) and isinstance(f.value, ast.Name) and f.value.id == "self" and f.attr in self.methods:
            m = self.methods[f.attr]
            has_loop = any(isinstance(n, (ast.For, ast.While, ast.ListComp, ast.GeneratorExp)) for n in ast.walk(m))
            if not is_generator_def(m) and not has_loop:
                return m, True
        return None

    def inline_states(self, fdef, call, st, skip_self=False):
        """the callee analysed in place, one (state, returned value) per way it returns - no join, so that a
        helper that pops on one path and not on the other keeps the two apart"""
        body = self.bind_params(fdef, call, [st], skip_self)
        self.inline_depth += 1
        saved = self.outcomes
        self.outcomes = []
        rec = self.record
        try:
            self.record = True
            out, brk, cont = self.block(body, [st])
            outs = list(self.outcomes)
        finally:
            self.inline_depth -= 1
            self.outcomes = saved
            self.record = rec
        res = []
        for o in outs:
            if o.kind == "raise":
                if self.record:
                    self.outcomes.append(o)
            elif o.kind == "return":
                res.append((o.state, o.what))
        for x in out:
            res.append((x, NONE))
        return res

    def inline(self, fdef, call, st, skip_self=False):
        if self.inline_depth > 3:
            return self.opaque(call, st)
        body = self.bind_params(fdef, call, [st], skip_self)
        self.inline_depth += 1
        saved = self.outcomes
        self.outcomes = []
        rec = self.record
        try:
            self.record = True
            out, brk, cont = self.block(body, [st.copy()])
            outs = list(self.outcomes)
        finally:
            self.inline_depth -= 1
            self.outcomes = saved
            self.record = rec
        # raises of the callee are outcomes of the caller; returns/ends continue
        conts = []
        vals = []
        for o in outs:
            if o.kind == "raise":
                if self.record:
                    self.outcomes.append(o)
            elif o.kind == "return":
                conts.append(o.state)
                vals.append(o.what)
        if out:
            vals.append(NONE)      # falling off the end returns None
        conts += out
        val = vals[0] if vals else None
        if any(repr(v) != repr(val) for v in vals[1:]):
            val = "differs"
        merged = None
        for c in conts:
            merged = join(merged, c)
        if merged is None:
            st.bottom = True
            return NONE
        st.rows, st.ineq, st.bottom, st.enums, st.may = \
            merged.rows, merged.ineq, merged.bottom, merged.enums, merged.may
        st.neq, st.cond = merged.neq, merged.cond
        if isinstance(val, str):
            # several returns with different values: the result is a value of its own (the paths were joined)
            return self.opaque(call, st, "ret.")
        return val if val is not None else NONE

    # ------------------------------------------------------------ conditions
    def assume(self, test, st, truth):
        """-> list of states (a disjunction); empty list = infeasible"""
        outs = self._assume(test, st.copy(), truth)
        for s in outs:
            if s.cond and not s.bottom:
                self.fire_conds(s)
        return [s for s in outs if not s.bottom and not s.infeasible()]

    def _assume(self, t, st, truth):
        if isinstance(t, ast.UnaryOp) and isinstance(t.op, ast.Not):
            return self._assume(t.operand, st, not truth)
        if isinstance(t, ast.BoolOp):
            conj = isinstance(t.op, ast.And)
            if conj == truth:
                # all parts hold (and-true) / all parts fail (or-false)
                cur = [st]
                for v in t.values:
                    nxt = []
                    for s in cur:
                        nxt += [x for x in self._assume(v, s, truth) if not x.bottom]
                    cur = nxt
                return cur
            # disjunction: first part, or (not first) and rest
            outs = []
            rest = [st]
            for v in t.values:
                nxt = []
                for s in rest:
                    outs += [x for x in self._assume(v, s.copy(), truth) if not x.bottom]
                    nxt += [x for x in self._assume(v, s.copy(), not truth) if not x.bottom]
                rest = nxt
            return outs
        if isinstance(t, ast.Compare) and len(t.ops) == 1:
            op = type(t.ops[0])
            if (op is ast.In and truth) or (op is ast.NotIn and not truth):
                # x in (c1, .., ck) for a small literal collection is the chain x == c1 or .. or x == ck: one state
                # per member, so that facts that hang on the exact member (call summaries) become available
                coll = t.comparators[0]
                if isinstance(coll, ast.Name) and coll.id not in self.fnlocals and module_constant(coll.id) is not None:
                    coll = module_constant(coll.id)
                elif isinstance(coll, ast.Name) and coll.id in self.const_locals:
                    coll = self.const_locals[coll.id]
                if isinstance(coll, (ast.Set, ast.List, ast.Tuple)) and 2 <= len(coll.elts) <= 6 and st.cond \
                        and all(isinstance(e, ast.Constant) or (isinstance(e, ast.Attribute) and isinstance(e.value, ast.Name)
                                                                and e.value.id in ENUM_CLASSES) for e in coll.elts):
                    outs = []
                    for e in coll.elts:
                        eq = ast.copy_location(ast.Compare(t.left, [ast.Eq()], [e]), t)
                        s2 = st.copy()
                        self._compare(eq, s2, True)
                        if not s2.bottom:
                            outs.append(s2)
                    return outs
            self._compare(t, st, truth)
            return [st]
        if isinstance(t, ast.Compare) and len(t.ops) >= 2:
            # a <= x < b  ==  (a <= x) and (x < b)
            parts = []
            left = t.left
            for op, right in zip(t.ops, t.comparators):
                c = ast.Compare(left, [op], [right])
                ast.copy_location(c, t)
                parts.append(c)
                left = right
            b = ast.BoolOp(ast.And(), parts)
            ast.copy_location(b, t)
            return self._assume(b, st, truth)
        if isinstance(t, ast.Constant):
            if bool(t.value) != truth:
                st.bottom = True
            return [st]
        # truthiness of a location
        v = self.ev(t, st)
        if isinstance(v, Tok):
            val = {"True": True, "False": False, "None": False}.get(v.v)
            if val is not None and val != truth:
                st.bottom = True
            return [st]
        if isinstance(v, Val) and v.kind == "container":
            # a container is true iff it is not empty
            L = Lin.sym(f"len({v.data})")
            if truth:
                st.add_ineq(L - ONE)
            else:
                st.add_eq(L)
            return [st]
        s = pure_sym(v)
        if s is not None and st.enum_get(s) is None and (s in st.symbols() or s.startswith("len(")):
            # a location with numeric facts: true iff non-zero
            if truth:
                if st.entails_eq(v) == "yes":
                    st.bottom = True
                elif st.entails_ineq(v):
                    st.add_ineq(v - ONE)
                else:
                    st.add_neq(v)
            else:
                st.add_eq(v)
            return [st]
        if s is not None:
            st.enum_meet(s, "in", ["True"] if truth else ["False"])
        return [st]

    def _compare(self, t, st, truth):
        a, b = self.ev(t.left, st), self.ev(t.comparators[0], st)
        op = type(t.ops[0])
        neg = {ast.Eq: ast.NotEq, ast.NotEq: ast.Eq, ast.Lt: ast.GtE, ast.GtE: ast.Lt,
               ast.Gt: ast.LtE, ast.LtE: ast.Gt, ast.Is: ast.IsNot, ast.IsNot: ast.Is,
               ast.In: ast.NotIn, ast.NotIn: ast.In}
        if op not in neg:
            return
        if not truth:
            op = neg[op]
        if op is ast.Is:
            op = ast.Eq
        if op is ast.IsNot:
            op = ast.NotEq
        # membership in a literal collection of constants
        if op in (ast.In, ast.NotIn):
            coll = t.comparators[0]
            sa = pure_sym(a)
            if isinstance(coll, ast.Name) and coll.id in ENUM_CLASSES:
                if isinstance(a, Tok) and a.v.startswith(coll.id + "."):
                    if op is ast.NotIn:
                        st.bottom = True
                return
            if isinstance(coll, ast.Name) and coll.id not in self.fnlocals and module_constant(coll.id) is not None:
                coll = module_constant(coll.id)
            elif isinstance(coll, ast.Name) and coll.id in self.const_locals:
                coll = self.const_locals[coll.id]
            if isinstance(coll, (ast.Set, ast.List, ast.Tuple)) and (sa or isinstance(a, Tok)):
                toks = []
                for e in coll.elts:
                    v = self.ev(e, st)
                    if not isinstance(v, Tok):
                        return
                    toks.append(v.v)
                if isinstance(a, Tok):
                    if (a.v in toks) != (op is ast.In):
                        st.bottom = True
                    return
                st.enum_meet(sa, "in" if op is ast.In else "notin", toks)
            return
        # enum comparison
        if isinstance(a, Tok) and isinstance(b, Tok):
            if (a == b) != (op is ast.Eq) and op in (ast.Eq, ast.NotEq):
                st.bottom = True
            return
        if (isinstance(a, Tok) or isinstance(b, Tok)) and op in (ast.Lt, ast.LtE, ast.Gt, ast.GtE):
            # ordering comparison of None / an enum member with a number raises TypeError
            if self.record:
                self.outcomes.append(Outcome("raise", "TypeError", st.copy(), t))
            st.bottom = True
            return
        if isinstance(a, Tok) or isinstance(b, Tok):
            tok, other = (a, b) if isinstance(a, Tok) else (b, a)
            s = pure_sym(other)
            if s is not None and op in (ast.Eq, ast.NotEq):
                if tok.v == "None" and op is ast.Eq and (s in st.rows or any(s in i.t for i in st.ineq)):
                    st.bottom = True        # a location with a numeric constraint holds a number, not None
                    return
                st.enum_meet(s, "in" if op is ast.Eq else "notin", [tok.v])
            elif isinstance(other, Lin) and op is ast.Eq and tok.v in ("None", "True", "False") \
                    and other.is_const():
                st.bottom = True
            return
        if not (isinstance(a, Lin) and isinstance(b, Lin)):
            return
        d = a - b
        if any(k.startswith("@") and not k.startswith(("@a.", "@b.")) and k not in self.minmax and
               not any(k == x for x in self._exact_atoms) for k in st.reduce(d).t):
            self.opaque_branches += 1
        if op in (ast.Lt, ast.LtE, ast.Gt, ast.GtE):
            # an ordering comparison that did not raise: both operands are numbers
            for v in (a, b):
                sv = pure_sym(v)
                if sv is not None and not sv.startswith("@"):
                    st.enum_meet(sv, "notin", ["None"])
            if st.bottom:
                return
        if op is ast.Eq:
            st.add_eq(d)
            sa, sb = pure_sym(a), pure_sym(b)
            if sa and sb:
                ea, eb = st.enum_get(sa), st.enum_get(sb)
                if ea and not eb:
                    st.enums[sb] = ea
                elif eb and not ea:
                    st.enums[sa] = eb
                elif ea and eb:
                    st.enum_meet(sa, eb[0], eb[1])
                    if not st.bottom:
                        st.enums[sb] = st.enums[sa]
        elif op is ast.Lt:
            st.add_ineq(-d - ONE)
        elif op is ast.LtE:
            st.add_ineq(-d)
        elif op is ast.Gt:
            st.add_ineq(d - ONE)
        elif op is ast.GtE:
            st.add_ineq(d)
        elif op is ast.NotEq:
            r = st.entails_eq(d)
            if r == "yes":
                st.bottom = True
            else:
                sa, sb = pure_sym(a), pure_sym(b)
                if sa and sb:
                    ta, tb = st.enum_single(sa), st.enum_single(sb)
                    if ta is not None and tb is None:
                        st.enum_meet(sb, "notin", [ta])
                    elif tb is not None and ta is None:
                        st.enum_meet(sa, "notin", [tb])
                    elif ta is not None and ta == tb:
                        st.bottom = True
                # integer tightening: d >= 0 known  =>  d >= 1
                if not st.bottom:
                    if st.entails_ineq(d):
                        st.add_ineq(d - ONE)
                    elif st.entails_ineq(-d):
                        st.add_ineq(-d - ONE)
                    else:
                        st.add_neq(d)

    # ------------------------------------------------------------ stores
    def set_loc(self, sym, val, st):
        if isinstance(val, Lin):
            src = pure_sym(val)
            e = st.enum_get(src) if src else None
            st.assign(sym, val)
            st.enums.pop(sym, None)
            if e is not None:
                st.enums[sym] = e
            elif src is None:
                st.enums[sym] = ("notin", frozenset(["None"]))
        elif isinstance(val, Tok):
            st.forget(sym)
            st.enum_set(sym, val.v)
        else:
            st.forget_all(sym)

    def assign_target(self, tgt, val, st):
        if isinstance(tgt, (ast.Tuple, ast.List)):
            if isinstance(val, tuple) and len(val) == len(tgt.elts):
                for t, v in zip(tgt.elts, val):
                    self.assign_target(t, v, st)
            else:
                if val is not None:
                    # several values from one source the analysis has no model of: how they are related is
                    # unknown, so paths that branch on them may be infeasible combinations
                    self.note_fuzzy(tgt, "a value the analysis has no model of is unpacked into several variables")
                for t in tgt.elts:
                    self.assign_target(t, None, st)
            return
        s = self.sym_of(tgt)
        if s is None:
            if self.record and isinstance(tgt, ast.Subscript):
                self.substores.append((tgt, st.copy()))
            return
        if isinstance(tgt, ast.Name):
            old = self.tuple_arity.get(s)
            if isinstance(val, tuple) and all(isinstance(v, (Lin, Tok)) for v in val):
                self.tuple_arity[s] = max(old or 0, len(val))
                for k, v in enumerate(val):
                    self.set_loc(f"{s}.{k}", v, st)
                for k in range(len(val), self.tuple_arity[s]):
                    st.forget_all(f"{s}.{k}")
                st.forget(s)
                st.enums[s] = ("notin", frozenset(["None"]))
                return
            if old:
                for k in range(old):
                    st.forget_all(f"{s}.{k}")
        if s.startswith("self."):
            if self.record:
                self.astores.append((tgt, s, st.copy(), val))
            self.attr_writes.add(s[5:])
            st.may["$stores"] = st.may.get("$stores", frozenset()) | {s[5:]}
            st.may["$seg"] = st.may.get("$seg", frozenset()) | {s[5:]}
        self.containers.discard(s) if isinstance(val, (Lin, Tok)) else None
        self.set_loc(s, val, st)

    # ------------------------------------------------------------ statements
    def block(self, stmts, states):
        brk, cont = [], []
        for s in stmts:
            if not states:
                break
            states, b, c = self.stmt(s, states)
            brk += b
            cont += c
        return states, brk, cont

    def stmt(self, s, states):
        """-> (out_states, break_states, continue_states)"""
        if isinstance(s, (ast.If, ast.While, ast.For)):
            if isinstance(s, ast.If):
                return self.do_if(s, states)
            if isinstance(s, ast.For):
                u = self.unroll_for(s, states)
                if u is not None:
                    return u
                d = self.desugar_for(s)
                if d is not None:
                    out, brk, cont = self.block(d[:-1], states)
                    o2, b2, c2 = self.loop(d[-1], out)
                    return o2, brk + b2, cont + c2
            return self.loop(s, states)
        outs, brk, cont = [], [], []
        for st in states:
            self._forks = []
            o, b, c = self.simple(s, st)
            if self._forks:
                for alts in self._forks:
                    nxt = []
                    for x in o:
                        for eqs, ineqs in alts:
                            y = x.copy()
                            for q in eqs:
                                y.add_eq(q)
                            for q in ineqs:
                                y.add_ineq(q)
                            if not y.bottom and not y.infeasible():
                                nxt.append(y)
                    o = nxt
                self._forks = []
            outs += o
            brk += b
            cont += c
        if self.exact_minmax:
            return [x for x in outs if not x.bottom], brk, cont
        return self.normalize(outs), brk, cont

    def do_if(self, s, states):
        ts, fs = [], []
        for st in states:
            ts += self.assume(s.test, st, True)
            fs += self.assume(s.test, st, False)
        outs, brk, cont = [], [], []
        for stt, body in ((ts, s.body), (fs, s.orelse)):
            stt = self.normalize(stt)
            if not stt:
                continue
            o, b, c = self.block(body, stt)
            outs += o
            brk += b
            cont += c
        return self.normalize(outs), brk, cont

    def is_container_init(self, value):
        if isinstance(value, (ast.List, ast.Set)):
            return True
        return isinstance(value, ast.Call) and isinstance(value.func, ast.Name) \
            and value.func.id in ("set", "list") and not value.args

    def simple(self, s, st):
        if isinstance(s, ast.FunctionDef):
            # the name is bound to this function from here on (a token value, so that a name bound to
            # different functions on different paths is dispatched per path)
            key = f"{s.name}@{s.lineno}"
            self.closures[key] = s
            st.forget_all(s.name)
            st.enum_set(s.name, "fn:" + key)
            if self.fndefs.get(s.name, 0) > 1 and s.name not in self.partvars:
                self.partvars = self.partvars + (s.name,)
            return [st], [], []
        if isinstance(s, (ast.Assign, ast.Expr)) and isinstance(s.value, ast.Call):
            callee = self.resolve_inline(s.value, st)
            if callee is not None:
                outs = []
                for st2, val in self.inline_states(callee[0], s.value, st, callee[1]):
                    if isinstance(s, ast.Assign):
                        for t in s.targets:
                            self.assign_target(t, val, st2)
                    if not st2.bottom:
                        outs.append(st2)
                return outs, [], []
        if isinstance(s, ast.Assign):
            if len(s.targets) == 1 and isinstance(s.targets[0], ast.Name) \
                    and self.is_container_init(s.value):
                c = s.targets[0].id
                self.containers.add(c)
                elts = getattr(s.value, "elts", [])
                for k in list(st.symbols()) + list(st.enums):
                    if k.startswith(f"top({c})") or k == f"popped({c})":
                        st.forget_all(k)
                st.assign(f"len({c})", Lin.const(len(elts)))
                st.enum_set(f"$trk({c})", "0")
                if f"$trk({c})" not in self.partvars:
                    self.partvars = self.partvars + (f"$trk({c})",)
                if elts:
                    v = self.ev(elts[-1], st)
                    if isinstance(v, tuple):
                        self.container_arity[c] = len(v)
                        for k, comp in enumerate(v):
                            self.set_loc(f"top({c}).{k}", comp, st)
                    else:
                        self.container_arity.pop(c, None)
                        self.set_loc(f"top({c})", v, st)
                        self.set_loc(f"seed({c})", v, st)
                else:
                    st.forget_all(f"seed({c})")
                if self.record:
                    (self.early_cops if self.early else self.cops).append((s, c, "init", elts, st.copy()))
                return [st], [], []
            if len(s.targets) == 1 and isinstance(s.targets[0], ast.Name) and s.targets[0].id in self.partvars \
                    and isinstance(s.value, (ast.Compare, ast.BoolOp)) and not self.exact_minmax:
                # a boolean local the function branches on later: one state per truth value, each with the facts
                # of the condition (so that `if flag:` further down knows what made the flag true)
                outs = []
                for truth_, tok in ((True, TRUE), (False, FALSE)):
                    for st2 in self.assume(s.value, st, truth_):
                        self.set_loc(s.targets[0].id, tok, st2)
                        outs.append(st2)
                return outs, [], []
            if isinstance(s.value, ast.Name) and s.value.id not in self.fnlocals and module_number(s.value.id) is not None:
                num = module_number(s.value.id)
                if num == "inf":
                    # an unbounded count: a number larger than anything it is compared with
                    v = Lin.sym("const:" + s.value.id)
                    st.add_ineq(v - Lin.const(10 ** 9))
                else:
                    v = Lin.const(num)
            elif isinstance(s.value, ast.Name) and s.value.id not in self.fnlocals and s.value.id in self.pkg_functions:
                v = Tok("fn:" + s.value.id)      # a local bound to a function of the package
                for t in s.targets:
                    if isinstance(t, ast.Name) and self.fndefs.get(t.id, 0) > 1 and t.id not in self.partvars:
                        self.partvars = self.partvars + (t.id,)
            else:
                v = self.ev(s.value, st)
            if st.bottom:
                return [], [], []
            if isinstance(v, Val) and v.kind == "container":
                # a second name for a tracked container: the analysis tracks one name per container
                self.untracked.add(v.data)
                self.note_fuzzy(s, f"the container `{v.data}` gets a second name")
            for t in s.targets:
                self.assign_target(t, v, st)
            return [st], [], []
        if isinstance(s, ast.AugAssign):
            sym = self.sym_of(s.target)
            v = self.ev(s.value, st)
            if sym is None and self.record and isinstance(s.target, ast.Subscript):
                self.substores.append((s.target, st.copy()))
            if sym and sym.startswith("self."):
                if self.record:
                    nv = None
                    if isinstance(v, Lin) and isinstance(s.op, (ast.Add, ast.Sub)):
                        nv = Lin.sym(sym) + v if isinstance(s.op, ast.Add) else Lin.sym(sym) - v
                    self.astores.append((s.target, sym, st.copy(), nv))
                self.attr_writes.add(sym[5:])
                st.may["$stores"] = st.may.get("$stores", frozenset()) | {sym[5:]}
                st.may["$seg"] = st.may.get("$seg", frozenset()) | {sym[5:]}
            if sym and isinstance(v, Lin) and isinstance(s.op, (ast.Add, ast.Sub)):
                cur = Lin.sym(sym)
                st.assign(sym, cur + v if isinstance(s.op, ast.Add) else cur - v)
            elif sym:
                st.forget_all(sym)
            return [st], [], []
        if isinstance(s, ast.Expr) and isinstance(s.value, ast.YieldFrom):
            return self.yield_from(s.value, st), [], []
        if isinstance(s, ast.Expr):
            if isinstance(s.value, ast.Yield):
                return self.do_yield(s.value, st), [], []
            self.ev(s.value, st)
            if st.bottom:
                return [], [], []
            return [st], [], []
        if isinstance(s, ast.Raise):
            if self.record:
                name = "?"
                e = s.exc
                if isinstance(e, ast.Call):
                    e = e.func
                if isinstance(e, ast.Name):
                    name = e.id
                if not self.early:
                    self.outcomes.append(Outcome("raise", name, st, s))
            return [], [], []
        if isinstance(s, ast.Return) and self.exact_minmax and self.record and \
                isinstance(s.value, (ast.Compare, ast.BoolOp)):
            # exact evaluation of a boolean result: one outcome per truth value that is feasible
            for truth_, tok in ((True, TRUE), (False, FALSE)):
                for st2 in self.assume(s.value, st, truth_):
                    self.outcomes.append(Outcome("return", tok, st2, s))
            return [], [], []
        if isinstance(s, ast.Return):
            v = self.ev(s.value, st) if s.value is not None else NONE
            if self.record:
                self.outcomes.append(Outcome("return", v, st, s))
            return [], [], []
        if isinstance(s, ast.Assert):
            if self.record:
                for f in self.assume(s.test, st, False):
                    self.outcomes.append(Outcome("raise", "AssertionError", f, s))
            return self.assume(s.test, st, True), [], []
        if isinstance(s, ast.Break):
            return [], [st], []
        if isinstance(s, ast.Continue):
            return [], [], [st]
        if isinstance(s, ast.Delete):
            for t in s.targets:
                for e in (t.elts if isinstance(t, ast.Tuple) else [t]):
                    sym = self.sym_of(e)
                    if sym:
                        st.forget_all(sym)
            return [st], [], []
        if isinstance(s, (ast.Pass, ast.Nonlocal, ast.Global, ast.Import, ast.ImportFrom)):
            return [st], [], []
        raise Unsupported(f"statement {type(s).__name__} at line {s.lineno}")

    def unroll_for(self, s, states):
        """a loop over a literal collection of constants (written in place or bound to a module-level name) is
        unrolled: the body once per element, `continue` goes on with the next element, `break` leaves"""
        it = s.iter
        if isinstance(it, ast.Name) and it.id not in self.fnlocals:
            it = module_constant(it.id)
        if not (isinstance(it, (ast.Tuple, ast.List)) and is_const_expr(it) and 1 <= len(it.elts) <= 8) or s.orelse:
            return None
        cur, brk_all = list(states), []
        for e in it.elts:
            if not cur:
                break
            tgts = s.target.elts if isinstance(s.target, (ast.Tuple, ast.List)) else [s.target]
            vals = e.elts if isinstance(s.target, (ast.Tuple, ast.List)) and isinstance(e, (ast.Tuple, ast.List)) else [e]
            if len(tgts) != len(vals) or not all(isinstance(t, ast.Name) for t in tgts):
                return None
            pre = []
            saved = dict(self.const_locals)
            for t, v in zip(tgts, vals):
                if isinstance(v, (ast.Tuple, ast.List, ast.Set)):
                    self.const_locals[t.id] = v          # a collection-valued loop variable (used in `x in names`)
                else:
                    self.const_locals.pop(t.id, None)
                    pre.append(ast.copy_location(ast.Assign([ast.Name(t.id, ast.Store())], v), s))
            for p_ in pre:
                ast.fix_missing_locations(p_)
            o, b, c = self.block(pre + list(s.body), cur)
            self.const_locals = saved
            brk_all += b
            cur = self.normalize(o + c)
        return self.normalize(cur + brk_all), [], []

    def desugar_for(self, s):
        """`for t in range(a, b[, +-1])` as the while loop it is: the bounds are evaluated once, the hidden counter
        starts at a, the body runs while it is below (above) b, t takes its value and the counter moves on before
        the body (so that `continue` is right).  None if the loop has another form."""
        if s.orelse or not isinstance(s.target, ast.Name):
            return None
        it = s.iter
        rev = False
        if isinstance(it, ast.Call) and isinstance(it.func, ast.Name) and it.func.id == "reversed" and len(it.args) == 1 \
                and not it.keywords:
            it, rev = it.args[0], True
        if not (isinstance(it, ast.Call) and isinstance(it.func, ast.Name) and it.func.id == "range"
                and 1 <= len(it.args) <= 3 and not it.keywords):
            return None
        if rev and len(it.args) == 3:
            return None
        step = 1
        if len(it.args) == 3:
            c = it.args[2]
            if isinstance(c, ast.UnaryOp) and isinstance(c.op, ast.USub) and isinstance(c.operand, ast.Constant):
                step = -c.operand.value
            elif isinstance(c, ast.Constant):
                step = c.value
            else:
                return None
            if step not in (1, -1):
                return None
        cached = getattr(s, "_desugared", None)
        if cached is not None:
            return cached
        tag = f"for{s.lineno}_{s.col_offset % 10000}"
        lo = it.args[0] if len(it.args) > 1 else ast.Constant(0)
        hi = it.args[1] if len(it.args) > 1 else it.args[0]
        if rev:
            # reversed(range(a, b)) visits b-1, b-2, ..., a: range(b-1, a-1, -1)
            lo, hi = ast.BinOp(copy.deepcopy(hi), ast.Sub(), ast.Constant(1)), ast.BinOp(copy.deepcopy(lo), ast.Sub(), ast.Constant(1))
            step = -1

        def name(x, ctx):
            return ast.Name(f"${tag}.{x}", ctx)
        pre = [ast.Assign([name("hi", ast.Store())], copy.deepcopy(hi)),
               ast.Assign([name("it", ast.Store())], copy.deepcopy(lo))]
        test = ast.Compare(name("it", ast.Load()), [ast.Lt() if step == 1 else ast.Gt()], [name("hi", ast.Load())])
        body = [ast.Assign([ast.Name(s.target.id, ast.Store())], name("it", ast.Load())),
                ast.Assign([name("it", ast.Store())],
                           ast.BinOp(name("it", ast.Load()), ast.Add() if step == 1 else ast.Sub(), ast.Constant(1)))]
        w = ast.While(test, body + list(s.body), [])
        out = pre + [w]
        for k, n in enumerate(out):
            ast.copy_location(n, s)
            for x in ast.walk(n):
                if not hasattr(x, "lineno") or x in ast.walk(s):
                    pass
            ast.fix_missing_locations(n)
        # positions of the synthetic nodes must not coincide with real ones (atoms are named by position)
        k = 0
        real = {id(x) for b in s.body for x in ast.walk(b)} | {id(x) for x in ast.walk(lo)} | {id(x) for x in ast.walk(hi)}
        for n in out:
            for x in ast.walk(n):
                if id(x) not in real and hasattr(x, "col_offset"):
                    k += 1
                    x.col_offset = 30000 + (s.col_offset % 10000) * 50 + k
        s._desugared = out
        return out

    def loop(self, s, states):
        rec = self.record
        was_early = self.early
        entry = self.normalize([x.copy() for x in states])
        # restart from the invariant found the last time this loop was solved
        # (sound: we join with the new entry and keep iterating upwards)
        memo = self.loop_memo.get(id(s)) if not self.unrolling else None
        # exact phase: the first two iterations of an outer loop are followed one at a time, without joining them with
        # the loop entry (loops nested inside are solved from scratch for that iteration).  Their records are "early"
        # records; a state of iteration 2 (second adjoint pass, second block, ...) describes just that iteration, so a
        # definite contradiction found there is not hidden by the invariant of all iterations
        if rec and self.record_early and id(s) not in self.exact_done and self.unrolling < self.unroll_depth \
                and not self.exact_minmax:
            self.exact_done.add(id(s))
            cur = [x.copy() for x in entry]
            self.unrolling += 1
            try:
                for k in range(2):
                    self.record, self.early = True, True
                    body_in = self.loop_enter(s, cur)
                    if not body_in:
                        break
                    o, _b, cont = self.block(s.body, body_in)
                    cur = self.normalize(o + cont)
                    if not cur:
                        break
            finally:
                self.unrolling -= 1
                self.record, self.early = rec, was_early
        head = self.normalize([x.copy() for x in entry] + ([x.copy() for x in memo] if memo else []))
        try:
            for it in range(60):
                self.loop_iters += 1
                # the first ascending iterations are recorded separately ("early" records): local
                # obligations are also checked on them, for REFUTED verdicts only, so that a
                # violation cannot hide behind the invariant it pollutes
                early_here = rec and self.record_early and it < 3 and memo is None
                self.record = early_here
                self.early = was_early or early_here
                body_in = self.loop_enter(s, head)
                outs = []
                if body_in:
                    o, brk, cont = self.block(s.body, body_in)
                    outs = o + cont
                new = self.normalize([x.copy() for x in entry] + outs)
                if it >= 4:
                    old = {self.pkey(x): x for x in head}
                    new = [widen(old.get(self.pkey(x)), x) if self.pkey(x) in old else x
                           for x in new]
                if self.same_parts(new, head):
                    break
                head = new
            else:
                raise Unsupported(f"no fixpoint for loop at line {s.lineno}")
        finally:
            self.record = rec
            self.early = was_early
        if not self.unrolling:
            self.loop_memo[id(s)] = [x.copy() for x in head]
        # final pass with recording
        body_in = self.loop_enter(s, head)
        brk = []
        if body_in:
            o, brk, cont = self.block(s.body, body_in)
        exits = []
        if isinstance(s, ast.While):
            for x in head:
                exits += self.assume(s.test, x, False)
        else:
            exits = [x.copy() for x in head]
        if s.orelse:
            raise Unsupported("loop else")
        return self.normalize(exits + brk), [], []

    def loop_enter(self, s, head):
        outs = []
        for x in head:
            if isinstance(s, ast.For):
                y = x.copy()
                rng = None
                if isinstance(s.iter, ast.Call) and isinstance(s.iter.func, ast.Name) and s.iter.func.id == "range" \
                        and 1 <= len(s.iter.args) <= 2 and isinstance(s.target, ast.Name):
                    rng = [self.ev(a, y) for a in s.iter.args]
                    if len(rng) == 1:
                        rng = [Lin.const(0), rng[0]]
                else:
                    self.ev(s.iter, y)
                    # an iterable without model: whether the body runs at all, and in which order the values come, is
                    # unknown - what is derived on such paths is not definite.  Not so for a sequence held by the object
                    # and not changed here (`for op in self._schedule`, `for i, op in enumerate(self._schedule)`): any
                    # number of iterations with unconstrained elements is exactly what the index loop over it means
                    it_ = s.iter
                    if isinstance(it_, ast.Call) and isinstance(it_.func, ast.Name) and it_.func.id == "enumerate" and len(it_.args) == 1:
                        it_ = it_.args[0]
                    held = isinstance(it_, ast.Attribute) and isinstance(it_.value, ast.Name) and it_.value.id == "self" \
                        and not any(isinstance(n_, ast.Attribute) and n_.attr == it_.attr and isinstance(n_.ctx, (ast.Store, ast.Del))
                                    for n_ in ast.walk(self.fn))
                    if not held:
                        self.note_fuzzy(s, f"a loop over `{ast.unparse(s.iter)[:40]}`, an iterable the analysis has no model of")
                self.assign_target(s.target, None, y)
                if rng and all(isinstance(v, Lin) for v in rng):
                    t = Lin.sym(s.target.id)
                    y.add_ineq(t - rng[0])
                    y.add_ineq(rng[1] - t - ONE)
                    y.enum_meet(s.target.id, "notin", ["None"])
                    if y.bottom or y.infeasible():
                        continue
                outs.append(y)
            else:
                outs += self.assume(s.test, x, True)
        return self.normalize(outs)

    # ------------------------------------------------------------ yields
    def do_yield(self, y, st):
        call = y.value
        if self.record and st.dead():
            return []        # the path to this action is contradictory: no action, no record
        skind = call.func.id if isinstance(call, ast.Call) and isinstance(call.func, ast.Name) else "?"
        kind, ordinal = self.yidx.get((y.lineno, y.col_offset % 10000, skind), ("?", -1))
        if ordinal < 0:
            # inlined copy of a closure body: locate by position
            kind = skind
        ACTIONS = ("Forward", "Reverse", "Copy", "Move", "EndForward", "EndReverse")
        if kind not in ACTIONS:
            # the action class is named through a local (`load = Move if ... else Copy; yield load(...)`) or the
            # action object was built earlier: resolve what the expression certainly denotes
            dyn = None
            f = call.func if isinstance(call, ast.Call) else None
            if isinstance(f, ast.Name) and f.id in self.fnlocals:
                tok = st.enum_single(f.id)
                if tok and tok.startswith("fn:") and tok[3:] in ACTIONS:
                    dyn = tok[3:]
            if dyn is None:
                self.note_fuzzy(y, "a yield whose action class the analysis cannot determine")
            else:
                # ordinal: after the literal yields of that kind, in source order of such sites
                base = self.ycounts.get(dyn, 0)
                key = ("dyn", dyn, y.lineno, y.col_offset % 10000)
                if key not in self.yidx:
                    self.yidx[key] = (dyn, base + sum(1 for k in self.yidx if isinstance(k[0], str) and k[0] == "dyn" and k[1] == dyn))
                kind, ordinal = self.yidx[key]
        args = [self.ev(a, st) for a in call.args] if isinstance(call, ast.Call) else []
        kwargs = {k.arg: self.ev(k.value, st) for k in call.keywords} if isinstance(call, ast.Call) else {}
        rec = YieldRec(y, kind, ordinal, args, kwargs, st.copy())
        rec.early = self.early
        if self.record:
            (self.early_yields if self.early else self.yields).append(rec)
        # ---- ghosts
        st.assign("n@prev", Lin.sym("self._n"))
        st.assign("r@prev", Lin.sym("self._r"))
        st.enum_set("$last", rec.yid)
        st.may["$seg"] = frozenset()
        a0 = rec.arg(0)
        if isinstance(a0, Lin):
            st.assign("arg0@prev", a0)
        else:
            st.forget_all("arg0@prev")
        if kind == "Reverse" and isinstance(rec.arg(1), Lin):
            st.assign("lo@prev", rec.arg(1))
        writes = False
        if kind == "Forward":
            wi, wa, sto = rec.arg(2, "write_ics"), rec.arg(3, "write_adj_deps"), rec.arg(4, "storage")
            writes = truth(st, wi) is True or (truth(st, wa) is True and sto != Tok("StorageType.WORK"))
        for c in sorted(self.containers):
            g = f"$trk({c})"
            t = st.enum_single(g)
            if t is None:
                continue
            if writes:
                st.enum_set(g, {"P": "0", "0": "W"}.get(t, "ERR"))
            elif kind == "Move":
                st.enum_set(g, "0")
            else:
                st.enum_set(g, "0")
        if kind == "Forward":
            storage, wadj = rec.arg(4, "storage"), rec.arg(3, "write_adj_deps")
            wadj = {True: TRUE, False: FALSE}.get(truth(st, wadj), wadj)
            if storage == Tok("StorageType.WORK") and wadj == TRUE:
                a, b = rec.arg(0), rec.arg(1)
                unit = isinstance(a, Lin) and isinstance(b, Lin) and \
                    st.entails_eq(b - a - ONE) == "yes"
                st.enum_set("$work", "A" if unit else "A*")
            elif wadj == FALSE or (isinstance(storage, Tok) and storage != Tok("StorageType.WORK")):
                st.enum_set("$work", "E")
            elif pure_sym(storage) and (st.enum_get(pure_sym(storage)) or ("", ()))[0] == "in" and \
                    "StorageType.WORK" not in st.enum_get(pure_sym(storage))[1]:
                st.enum_set("$work", "E")
            elif pure_sym(storage) in self.label_atoms:
                st.enum_set("$work", "E")   # labels of a checkpoint table are RAM/DISK
            else:
                st.enums.pop("$work", None)
        elif kind in ("Copy", "Move"):
            to = rec.arg(2, "to_storage")
            if to == Tok("StorageType.WORK"):
                hook = self.hooks.get("load_kind")
                k = hook(self, rec, st) if hook else "I"
                if k == "?":
                    st.enums.pop("$work", None)
                else:
                    st.enum_set("$work", k)
        elif kind == "Reverse":
            clear = rec.arg(2, "clear_adj_deps")
            if clear == TRUE:
                st.enum_set("$work", "E")
            elif clear != FALSE:
                st.enums.pop("$work", None)
            if st.enum_is("$er", "1") != "no":
                st.may["$flags"] = st.may.get("$flags", frozenset()) | {"pass2"}
        elif kind == "EndForward":
            st.enum_set("$ef", "1")
        elif kind == "EndReverse":
            st.enum_set("$er", "1")
        # ---- finalize() may run between two actions of an online schedule
        outs = [st]
        if self.finalize_havoc and st.enum_is("self._max_n", "None") != "no":
            a = st.copy()
            a.enum_meet("self._max_n", "in", ["None"])
            b = st.copy()
            b.enums.pop("self._max_n", None)
            b.enum_meet("self._max_n", "notin", ["None"])
            if st.enum_is("self._max_n", "None") == "yes":
                b.forget("self._max_n")
                b.enums["self._max_n"] = ("notin", frozenset(["None"]))
                M = Lin.sym("self._max_n")
                b.add_ineq(M - ONE)
                b.add_ineq(Lin.sym("self._n") - M)
                b.assign("self._n", M)
                b.may["$stores"] = b.may.get("$stores", frozenset())
            outs = [x for x in (a, b) if not x.bottom]
        return outs

    # ------------------------------------------------------------ driver
    def run(self):
        if self.entry is None:
            sts = [State()]
        elif isinstance(self.entry, (list, tuple)):
            sts = [x.copy() for x in self.entry]
        else:
            sts = [self.entry.copy()]
        for st in sts:
            st.assign("n@prev", Lin.sym("self._n"))
            st.assign("r@prev", Lin.sym("self._r"))
            st.enum_set("$last", "entry")
            for g, v in (("$ef", "0"), ("$er", "0"), ("$work", "E")):
                if st.enum_get(g) is None:
                    st.enum_set(g, v)
        self.record = True
        outs, brk, cont = self.block(self.fn.body, self.normalize(sts))
        for o in outs:
            self.outcomes.append(Outcome("end", None, o, self.fn))
        return self


class Renamer(ast.NodeTransformer):
    def __init__(self, m):
        self.m = m

    def visit_Name(self, n):
        if n.id in self.m:
            return ast.copy_location(ast.Name(self.m[n.id], n.ctx), n)
        return n
