"""summary of hrevolve._convert_action: operation type -> (index shape, storage set)"""
import ast

from .interp import Interp, Tok, pure_sym
from .karr import State


def convert_summary(repo):
    """{op type string: frozenset of storage tokens ('StorageType.RAM', ... or 'None')}"""
    fn = repo.func("hrevolve.py", "_convert_action")
    it = Interp(fn, finalize_havoc=False, partvars=("cp_action", "storage"))
    it.DEFAULT_PART = ()
    it.run()
    out = {}
    for o in it.outcomes:
        if o.kind != "return":
            continue
        st = o.state
        e = st.enum_get("cp_action")
        if not e or e[0] != "in":
            continue
        sto = None
        if isinstance(o.what, tuple) and len(o.what) == 2 and isinstance(o.what[1], tuple) and len(o.what[1]) == 3:
            sv = o.what[1][2]
            if isinstance(sv, Tok):
                sto = frozenset([sv.v])
            else:
                s = pure_sym(sv)
                ee = st.enum_get(s) if s else None
                if ee and ee[0] == "in":
                    sto = frozenset(ee[1])
        for k in e[1]:
            name = k.strip("'\"")
            out[name] = (out.get(name) or frozenset()) | sto if sto is not None else None
    return out
