"""Fragment check for the cost-table builders (`get_*_table` in hrevolve_sequences).

The table rules (C07.TABLE/BASE, C17.BORDER) read a table builder as a set of
stores `table[i][j].. = expr` / `table[..].append(expr)` written directly on the
table variables.  A builder that reaches its tables through *aliases* (a row
bound to a local, a cached column, a loop over the rows), through nested
functions or lambdas, lies outside that fragment: the rules would compare
against an incomplete or misattributed set of entries.  Such builders are
tainted: a REFUTED verdict that involves them becomes UNKNOWN (exit 2), never a
VIOLATION.
"""
import ast


def _roots(fn):
    """names written through: `name[...] = ..`, `name[...].append(..)`, `name.append(..)`"""
    out = set()
    for n in ast.walk(fn):
        tgt = None
        if isinstance(n, ast.Subscript) and isinstance(n.ctx, (ast.Store, ast.Del)):
            tgt = n
        elif isinstance(n, ast.Call) and isinstance(n.func, ast.Attribute) and n.func.attr in ("append", "extend", "insert"):
            tgt = n.func.value
        if tgt is None:
            continue
        cur = tgt
        while isinstance(cur, ast.Subscript):
            cur = cur.value
        if isinstance(cur, ast.Name):
            out.add(cur.id)
    return out


def fragment_problems(fn, funcs=(), dead=frozenset()):
    probs = []
    for n in ast.walk(fn):
        if n is not fn and isinstance(n, (ast.FunctionDef, ast.Lambda)):
            probs.append((n.lineno, "a nested function/lambda computes part of the table"))
    roots = _roots(fn)
    params = {a.arg for a in fn.args.args + fn.args.kwonlyargs}
    subscripted = {n.value.id for n in ast.walk(fn) if isinstance(n, ast.Subscript) and isinstance(n.value, ast.Name)}
    tables = roots | {p for p in params if p in subscripted and p.startswith(("opt", "hopt"))}
    for n in ast.walk(fn):
        if isinstance(n, ast.Return) and n.value is not None:
            tables |= {x.id for x in ast.walk(n.value) if isinstance(x, ast.Name)}
    # what a written-through name was taken from is a table as well (`row = opt[k][1]; row[m] = ...`)
    changed = True
    while changed:
        changed = False
        for n in ast.walk(fn):
            if isinstance(n, ast.Assign):
                tg = {x.id for t in n.targets for x in ast.walk(t) if isinstance(x, ast.Name) and isinstance(x.ctx, ast.Store)}
                vals = list(n.value.elts) if isinstance(n.value, ast.Tuple) else [n.value]
                if tg & tables and all(isinstance(v, (ast.Name, ast.Subscript)) for v in vals):
                    def base(v):
                        while isinstance(v, ast.Subscript):
                            v = v.value
                        return v.id if isinstance(v, ast.Name) else None
                    src = {base(v) for v in vals} - {None}
                    if not src <= tables:
                        tables |= src
                        changed = True

    def mentions_table(e):
        return any(isinstance(x, ast.Name) and x.id in tables for x in ast.walk(e))

    def is_fresh(e):
        """a freshly allocated table (comprehension / list arithmetic / Table()) that mentions no other table"""
        return not mentions_table(e)
    for n in ast.walk(fn):
        bound = []
        if id(n) in dead:
            continue
        if isinstance(n, ast.Assign):
            if is_fresh(n.value):
                continue
            if isinstance(n.value, ast.Call) and isinstance(n.value.func, ast.Name) and n.value.func.id in funcs:
                continue        # another table, built by its own builder
            for t in n.targets:
                bound += [x.id for x in ast.walk(t) if isinstance(x, ast.Name) and isinstance(x.ctx, ast.Store)]
            src = n.value
        elif isinstance(n, ast.For):
            if not mentions_table(n.iter):
                continue
            bound = [x.id for x in ast.walk(n.target) if isinstance(x, ast.Name)]
            src = n.iter
        else:
            continue
        for b in bound:
            if b in subscripted or b in roots:
                probs.append((n.lineno, f"`{b}` is an alias of (part of) a table: `{' '.join(ast.unparse(src).split())[:60]}`"))
    return probs


def table_taint(repo, liveness):
    out = {}
    for fname, (rel, fn) in liveness.funcs.items():
        if not (fname.startswith("get_") and fname.endswith("_table")) or fname not in liveness.live_funcs:
            continue
        pr = fragment_problems(fn, liveness.funcs, liveness.dead_nodes)
        if pr:
            # the alias problem concerns the extraction of table entries (C07); rules that follow the builder with the
            # interpreter (C17.BORDER) are not affected
            out[f"{rel[:-3].replace('/', '.')}.{fname}"] = [(l, t, ("C07.",)) for l, t in pr[:4]]
    return out
