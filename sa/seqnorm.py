"""NORM for the operation-sequence builders: partial evaluation into the canonical form the grammar reads.

A builder (`revolve`, `disk_revolve`, ... - any function of hrevolve_sequences that creates a `Sequence`) may emit
its operations through helpers: `_emit(sequence, operation, *pairs)`, lists of operations handed to a
`Sequence.insert_all`, base cases moved into functions that receive `sequence`/`operation`, loops over literal
lists of (name, index) pairs.  This pass evaluates exactly those *static* parts - which function is called, which
list is iterated, which element is an operation - and leaves every run-time quantity (indices, loop bounds, tests)
symbolic.  The result is a residual body made only of

    sequence.insert(operation(<type>, <index>))      sequence.insert_sequence(<builder call>[.shift()...])
    if / for / while / return / raise / assert       plain assignments of run-time values

which means the same as the original body.  It is all-or-nothing per builder: when a construct is met that the
evaluation cannot follow exactly, the builder keeps its original body (and the grammar's own fragment check
taints it if the sequence object escapes).  Nothing is executed; the evaluation works on syntax trees.
"""
import ast
import copy


class Abandon(Exception):
    pass


class VSeq:
    pass


class VOpF:
    pass


class VOp:
    def __init__(self, typ, idx):
        self.typ, self.idx = typ, idx


class VList:
    def __init__(self, items, kind="list"):
        self.items, self.kind = items, kind


class VFn:
    def __init__(self, fdef, rel, closure=None):
        self.fdef, self.rel, self.closure = fdef, rel, closure


class VRaw:
    def __init__(self, expr):
        self.expr = expr


class VDefer(VRaw):
    """a call of a sequence builder (with .shift()/.remove_useless_wm()) bound to a local: substituted where the
    local is read, so that `insert_sequence(<call>)` stays recognisable; builders are free of side effects"""


class VCond:
    """a static value that depends on a run-time test: `A if c else B` with c side-effect-free"""
    def __init__(self, test, a, b):
        self.test, self.a, self.b = test, a, b


STATIC = (VSeq, VOpF, VOp, VList, VFn, VCond)
SEQ_PREFIX = "hrevolve_sequences/"


def _pure(e):
    return not any(isinstance(x, (ast.Call, ast.Yield, ast.YieldFrom, ast.Await, ast.NamedExpr, ast.Lambda, ast.ListComp,
                                  ast.SetComp, ast.DictComp, ast.GeneratorExp)) for x in ast.walk(e))


def _docless(body):
    return [b for b in body if not (isinstance(b, ast.Expr) and isinstance(b.value, ast.Constant))]


class PE:
    def __init__(self, repo, rel, fn, helpers, seq_methods, counter):
        self.repo, self.rel, self.fn = repo, rel, fn
        self.helpers = helpers            # name -> (rel, fdef): module-level functions that may be evaluated in place
        self.seq_methods = seq_methods    # name -> fdef: methods of class Sequence other than insert/insert_sequence
        self.counter = counter
        self.seqname = self.opname = None
        self.builder_names = set()
        self.inlined = []
        self.stack = []

    # ------------------------------------------------------------------ helpers
    def fresh(self, new, site):
        for x in ast.walk(new):
            if isinstance(x, (ast.expr, ast.stmt)):
                self.counter[0] += 1
                x.lineno = getattr(site, "lineno", 1)
                x.end_lineno = getattr(site, "end_lineno", x.lineno)
                x.col_offset = 50000 + self.counter[0]
                x.end_col_offset = 50000 + self.counter[0]
        return new

    def resid(self, v):
        if isinstance(v, VRaw):
            return v.expr
        if isinstance(v, VSeq):
            return ast.Name(self.seqname, ast.Load())
        if isinstance(v, VOpF):
            return ast.Name(self.opname, ast.Load())
        if isinstance(v, VOp):
            return ast.Call(ast.Name(self.opname, ast.Load()), [v.typ, v.idx], [])
        if isinstance(v, VList):
            elts = [self.resid(i) for i in v.items]
            return ast.Tuple(elts, ast.Load()) if v.kind == "tuple" else ast.List(elts, ast.Load())
        if isinstance(v, VCond):
            return ast.IfExp(copy.deepcopy(v.test), self.resid(v.a), self.resid(v.b))
        raise Abandon("a function value is used as data")

    def has_static(self, v):
        if isinstance(v, (VSeq, VOpF, VOp, VFn, VCond)):
            return True
        if isinstance(v, VList):
            return any(self.has_static(i) for i in v.items)
        return False

    # ------------------------------------------------------------------ expressions
    def subst(self, e, env):
        """residual expression: names bound to run-time expressions are replaced; a name bound to a static value
        inside a run-time expression cannot be expressed -> Abandon, except list/tuple data without operations"""
        pe = self

        class S(ast.NodeTransformer):
            def visit_Name(self, node):
                if isinstance(node.ctx, ast.Load) and node.id in env:
                    v = env[node.id]
                    if isinstance(v, _Lost):
                        raise Abandon(f"`{node.id}` has different values on joining paths")
                    if isinstance(v, VRaw):
                        return copy.deepcopy(v.expr)
                    if isinstance(v, (VSeq, VOpF)):
                        return pe.resid(v)
                    if isinstance(v, VList) and not pe.has_static(v):
                        return copy.deepcopy(pe.resid(v))
                    raise Abandon(f"static value `{node.id}` used inside a run-time expression")
                return node

            def visit_BinOp(self, node):
                self.generic_visit(node)
                if isinstance(node.op, ast.Add) and isinstance(node.left, ast.Constant) and isinstance(node.right, ast.Constant) \
                        and isinstance(node.left.value, str) and isinstance(node.right.value, str):
                    return ast.Constant(node.left.value + node.right.value)
                return node

            def visit_Lambda(self, node):
                raise Abandon("lambda")
        return S().visit(copy.deepcopy(e))

    def concat(self, a, b):
        """list concatenation of static values (distributed over conditional values), or None"""
        if isinstance(a, VList) and isinstance(b, VList):
            return VList(a.items + b.items, a.kind)
        if isinstance(a, VCond) and isinstance(b, (VList, VCond)):
            x, y = self.concat(a.a, b), self.concat(a.b, b)
            return None if x is None or y is None else VCond(a.test, x, y)
        if isinstance(b, VCond) and isinstance(a, VList):
            x, y = self.concat(a, b.a), self.concat(a, b.b)
            return None if x is None or y is None else VCond(b.test, x, y)
        return None

    def lookup_fn(self, name, env):
        if name in env:
            v = env[name]
            return v if isinstance(v, VFn) else None
        if name in self.helpers:
            rel, f = self.helpers[name]
            return VFn(f, rel)
        return None

    def ev(self, e, env, want_static=False):
        if isinstance(e, ast.Name):
            if e.id in env:
                if isinstance(env[e.id], _Lost):
                    raise Abandon(f"`{e.id}` has different values on joining paths")
                return env[e.id]
            f = self.lookup_fn(e.id, env)
            if f is not None and want_static:
                return f
            return VRaw(copy.deepcopy(e))
        if isinstance(e, (ast.Tuple, ast.List)) and isinstance(e.ctx, ast.Load):
            items = []
            for x in e.elts:
                if isinstance(x, ast.Starred):
                    v = self.ev(x.value, env, True)
                    if not isinstance(v, VList):
                        raise Abandon("starred element that is not a known list")
                    items += v.items
                else:
                    items.append(self.ev(x, env, want_static))
            return VList(items, "tuple" if isinstance(e, ast.Tuple) else "list")
        if isinstance(e, ast.IfExp):
            t = self.subst(e.test, env)
            if isinstance(t, ast.Constant):
                return self.ev(e.body if t.value else e.orelse, env, want_static)
            if isinstance(t, ast.UnaryOp) and isinstance(t.op, ast.Not) and isinstance(t.operand, ast.Constant):
                return self.ev(e.orelse if t.operand.value else e.body, env, want_static)
            a, b = self.ev(e.body, env, want_static), self.ev(e.orelse, env, want_static)
            if (isinstance(a, STATIC) or isinstance(b, STATIC)) and _pure(t):
                return VCond(t, a, b)
            return VRaw(ast.IfExp(t, self.resid(a), self.resid(b)))
        if isinstance(e, ast.BinOp) and isinstance(e.op, ast.Add):
            a, b = self.ev(e.left, env, want_static), self.ev(e.right, env, want_static)
            r = self.concat(a, b)
            if r is not None:
                return r
            if isinstance(a, VList) or isinstance(b, VList):
                if self.has_static(a) or self.has_static(b):
                    raise Abandon("list of operations concatenated with a run-time value")
            return VRaw(self.subst(e, env))
        if isinstance(e, ast.Call):
            f = e.func
            if isinstance(f, ast.Name):
                fv = env.get(f.id)
                if isinstance(fv, VOpF):
                    if len(e.args) == 2 and not e.keywords:
                        return VOp(self.subst(e.args[0], env), self.subst(e.args[1], env))
                    raise Abandon("operation built with unusual arguments")
                if f.id in ("list", "tuple") and len(e.args) == 1 and not e.keywords:
                    v = self.ev(e.args[0], env, True)
                    if isinstance(v, VList):
                        return VList(list(v.items), f.id)
                fn = self.lookup_fn(f.id, env)
                if fn is not None:
                    args = [self.ev(a, env, True) if not isinstance(a, ast.Starred) else a for a in e.args]
                    staticish = want_static or any(self.has_static(a) for a in args if not isinstance(a, ast.Starred)) \
                        or any(isinstance(a, ast.Starred) for a in e.args)
                    if staticish:
                        return self.call_value(fn, e, env)
            # an ordinary run-time call; static values must not flow into it
            for a in list(e.args) + [k.value for k in e.keywords]:
                a_ = a.value if isinstance(a, ast.Starred) else a
                for x in ast.walk(a_):
                    if isinstance(x, ast.Name) and x.id in env and isinstance(env[x.id], (VOp, VFn)):
                        raise Abandon(f"`{x.id}` flows into a call that is not followed")
                    if isinstance(x, ast.Name) and x.id in env and isinstance(env[x.id], VList) and self.has_static(env[x.id]):
                        raise Abandon(f"`{x.id}` flows into a call that is not followed")
            return VRaw(self.subst(e, env))
        return VRaw(self.subst(e, env))

    def bind_params(self, fn, call, env):
        """callee environment for a call (positional, keyword, defaults, *args)"""
        f = fn.fdef
        a = f.args
        if a.kwarg or a.posonlyargs:
            raise Abandon("callee with **kwargs / positional-only parameters")
        params = [p.arg for p in a.args]
        pos = []
        for x in call.args:
            if isinstance(x, ast.Starred):
                v = self.ev(x.value, env, True)
                if not isinstance(v, VList):
                    raise Abandon("starred argument that is not a known list")
                pos += v.items
            else:
                v = self.ev(x, env, True)
                if isinstance(v, VRaw) and not _pure(v.expr):
                    # an argument with a call inside would be evaluated once by Python: bind it only if the callee reads
                    # the parameter at most once and in straight-line position -> keep it simple: refuse
                    raise Abandon("argument with a call inside")
                pos.append(v)
        new = dict(fn.closure) if fn.closure is not None else {}
        if len(pos) > len(params) and not a.vararg:
            raise Abandon("too many arguments")
        for p, v in zip(params, pos):
            new[p] = v
        if a.vararg:
            new[a.vararg.arg] = VList(pos[len(params):], "tuple")
        for k in call.keywords:
            if k.arg is None:
                raise Abandon("**dict argument to an evaluated helper")
            if k.arg not in params and k.arg not in [x.arg for x in a.kwonlyargs]:
                raise Abandon("unknown keyword")
            v = self.ev(k.value, env, True)
            if isinstance(v, VRaw) and not _pure(v.expr):
                raise Abandon("argument with a call inside")
            new[k.arg] = v
        defaults = dict(zip(params[len(params) - len(a.defaults):], a.defaults))
        for p in params:
            if p not in new:
                if p in defaults:
                    new[p] = self.ev(defaults[p], {}, True)
                else:
                    raise Abandon("missing argument")
        for p, d in zip(a.kwonlyargs, a.kw_defaults):
            if p.arg not in new:
                if d is None:
                    raise Abandon("missing keyword-only argument")
                new[p.arg] = self.ev(d, {}, True)
        return new

    def call_value(self, fn, call, env):
        """value of a call of a helper whose body is `return <expr>` (after an optional run of static assignments)"""
        f = fn.fdef
        if f.name in self.stack or len(self.stack) > 8:
            raise Abandon("recursive helper")
        body = _docless(f.body)
        new = self.bind_params(fn, call, env)
        self.stack.append(f.name)
        try:
            for s in body[:-1]:
                if isinstance(s, ast.Assign) and len(s.targets) == 1 and isinstance(s.targets[0], ast.Name):
                    v = self.ev(s.value, new, True)
                    if isinstance(v, VRaw) and not _pure(v.expr):
                        raise Abandon("helper with a run-time local")
                    new[s.targets[0].id] = v
                elif isinstance(s, ast.AugAssign) and isinstance(s.op, ast.Add) and isinstance(s.target, ast.Name) \
                        and isinstance(new.get(s.target.id), (VList, VCond)):
                    r = self.concat(new[s.target.id], self.ev(s.value, new, True))
                    if r is None:
                        raise Abandon("list extended by a run-time value")
                    new[s.target.id] = r
                elif isinstance(s, ast.Expr) and isinstance(s.value, ast.Call) and isinstance(s.value.func, ast.Attribute) \
                        and isinstance(s.value.func.value, ast.Name) and isinstance(new.get(s.value.func.value.id), (VList, VCond)) \
                        and s.value.func.attr in ("append", "extend") and len(s.value.args) == 1 and not s.value.keywords:
                    nm = s.value.func.value.id
                    arg = self.ev(s.value.args[0], new, True)
                    add = VList([arg]) if s.value.func.attr == "append" else arg
                    r = self.concat(new[nm], add)
                    if r is None:
                        raise Abandon("list extended by a run-time value")
                    new[nm] = r
                else:
                    raise Abandon("helper value needs statements")
            if not body or not isinstance(body[-1], ast.Return) or body[-1].value is None:
                raise Abandon("helper does not end in `return <expr>`")
            v = self.ev(body[-1].value, new, True)
            self.inlined.append(f.name)
            return v
        finally:
            self.stack.pop()

    # ------------------------------------------------------------------ statements
    def insert_stmt(self, v, site):
        if isinstance(v, VCond):
            return self.fresh_if(copy.deepcopy(v.test), [self.insert_stmt(v.a, site)], [self.insert_stmt(v.b, site)], site)
        if not isinstance(v, VOp):
            raise Abandon("insert of something that is not an operation")
        call = ast.Call(ast.Attribute(ast.Name(self.seqname, ast.Load()), "insert", ast.Load()), [self.resid(v)], [])
        return self.fresh(ast.Expr(call), site)

    def has_return(self, stmts):
        return any(isinstance(x, ast.Return) for s in stmts for x in ast.walk(s)
                   if not isinstance(s, (ast.FunctionDef, ast.Lambda)))

    def run(self, stmts, env, frame):
        """-> (residual statements, terminated).  frame: dict(mode='top'|'stmt'|'tail'|'value', ren=prefix, result=[])"""
        out = []
        stmts = list(stmts)
        i = 0
        while i < len(stmts):
            s = stmts[i]
            rest = stmts[i + 1:]
            i += 1
            if isinstance(s, ast.Expr) and isinstance(s.value, ast.Constant):
                continue
            if isinstance(s, ast.Pass):
                continue
            if isinstance(s, ast.FunctionDef):
                if s.decorator_list:
                    raise Abandon("decorated nested function")
                env[s.name] = VFn(s, self.rel, env)
                continue
            if isinstance(s, ast.Return):
                if frame["mode"] in ("top", "tail") and isinstance(s.value, ast.Call) and isinstance(s.value.func, ast.Name):
                    # `return helper(sequence, ...)`: the helper's returns are this function's
                    fn = self.lookup_fn(s.value.func.id, env)
                    if fn is not None:
                        body = _docless(fn.fdef.body)
                        simple = len(body) >= 1 and isinstance(body[-1], ast.Return) and all(isinstance(b, ast.Assign) for b in body[:-1])
                        if not simple:
                            res, t = self.inline(fn, s.value, env, frame, "tail", s, want_term=True)
                            out += res
                            if not t:
                                out.append(self.fresh(ast.Return(ast.Constant(None)), s))
                            return out, True
                if frame["mode"] == "top" or frame["mode"] == "tail":
                    v = self.ev(s.value, env, True) if s.value is not None else VRaw(ast.Constant(None))
                    out.append(self.fresh(ast.Return(self.resid(v)), s))
                elif frame["mode"] == "value":
                    frame["result"].append(self.ev(s.value, env, True) if s.value is not None else VRaw(ast.Constant(None)))
                return out, True
            if isinstance(s, (ast.Raise, ast.Assert)):
                new = copy.deepcopy(s)
                for fld in ("exc", "cause", "test", "msg"):
                    if getattr(new, fld, None) is not None:
                        setattr(new, fld, self.subst(getattr(new, fld), env))
                out.append(self.fresh(new, s))
                if isinstance(s, ast.Raise):
                    return out, True
                continue
            if isinstance(s, ast.Expr) and isinstance(s.value, ast.Call):
                out += self.call_stmt(s, s.value, env, frame)
                continue
            if isinstance(s, ast.Assign) and len(s.targets) == 1:
                out += self.assign(s, env, frame)
                continue
            if isinstance(s, ast.AugAssign) and isinstance(s.target, ast.Name):
                tgt = s.target.id
                if tgt in env and not isinstance(env[tgt], VRaw):
                    raise Abandon("augmented assignment to a static value")
                name = self.local(tgt, env, frame)
                new = ast.AugAssign(ast.Name(name, ast.Store()), s.op, self.subst(s.value, env))
                out.append(self.fresh(new, s))
                continue
            if isinstance(s, ast.If):
                test = self.subst(s.test, env)
                if frame["mode"] != "top" and (self.has_return(s.body) or self.has_return(s.orelse)):
                    # early return inside a helper: the rest of the helper belongs to each branch that falls through
                    e1, e2 = dict(env), dict(env)
                    r1, t1 = self.run(list(s.body) + rest, e1, frame)
                    r2, t2 = self.run(list(s.orelse) + rest, e2, frame)
                    out.append(self.fresh_if(test, r1, r2, s))
                    self.merge(env, e1, e2)
                    return out, t1 and t2
                e1, e2 = dict(env), dict(env)
                r1, t1 = self.run(s.body, e1, frame)
                r2, t2 = self.run(s.orelse, e2, frame)
                if not t1 and not t2 and rest:
                    probe = {}
                    self.merge(probe, e1, e2)
                    lost = {k for k, v in probe.items() if isinstance(v, _Lost)}
                    if lost and any(isinstance(x, ast.Name) and x.id in lost and isinstance(x.ctx, ast.Load)
                                    for r_ in rest for x in ast.walk(r_)):
                        # the branches bind different static values that are read later: the rest runs once per branch
                        e1, e2 = dict(env), dict(env)
                        r1, t1 = self.run(list(s.body) + rest, e1, frame)
                        r2, t2 = self.run(list(s.orelse) + rest, e2, frame)
                        out.append(self.fresh_if(test, r1, r2, s))
                        self.merge(env, e1, e2)
                        return out, t1 and t2
                out.append(self.fresh_if(test, r1, r2, s))
                if t1 and t2:
                    return out, True
                if t1:
                    env.clear()
                    env.update(e2)
                elif t2:
                    env.clear()
                    env.update(e1)
                else:
                    self.merge(env, e1, e2)
                continue
            if isinstance(s, ast.For):
                it = self.ev(s.iter, env, True)
                if isinstance(s.iter, ast.Call) and isinstance(s.iter.func, ast.Name) and s.iter.func.id == "reversed" \
                        and len(s.iter.args) == 1:
                    inner = self.ev(s.iter.args[0], env, True)
                    if isinstance(inner, VList):
                        it = VList(list(reversed(inner.items)), inner.kind)
                if isinstance(it, VCond):
                    # the list iterated depends on a run-time test: one unrolled loop per branch
                    if s.orelse or any(isinstance(x, (ast.Break, ast.Continue)) for b in s.body for x in ast.walk(b)) \
                            or self.has_return(s.body):
                        raise Abandon("break/continue/else/return in an unrolled loop")

                    def unroll(v, env_):
                        if isinstance(v, VCond):
                            e1, e2 = dict(env_), dict(env_)
                            return [self.fresh_if(copy.deepcopy(v.test), unroll(v.a, e1), unroll(v.b, e2), s)]
                        if not isinstance(v, VList):
                            raise Abandon("conditional iterable that is not a list")
                        res_ = []
                        for item in v.items:
                            self.bind_target(s.target, item, env_, frame, res_, s)
                            r_, t_ = self.run(s.body, env_, frame)
                            res_ += r_
                        return res_
                    out += unroll(it, dict(env))
                    for x in ast.walk(s.target):
                        if isinstance(x, ast.Name):
                            env.pop(x.id, None)
                    continue
                if isinstance(it, VList) and (self.has_static(it) or len(it.items) <= 12):
                    if s.orelse or any(isinstance(x, (ast.Break, ast.Continue)) for b in s.body for x in ast.walk(b)):
                        raise Abandon("break/continue/else in an unrolled loop")
                    if frame["mode"] != "top" and self.has_return(s.body):
                        raise Abandon("return inside a loop of a helper")
                    for item in it.items:
                        self.bind_target(s.target, item, env, frame, out, s)
                        r, t = self.run(s.body, env, frame)
                        out += r
                        if t:
                            return out, True
                    continue
                if frame["mode"] != "top" and self.has_return(s.body):
                    raise Abandon("return inside a loop of a helper")
                self.forget_assigned(s.body, env)
                tnames = [x.id for x in ast.walk(s.target) if isinstance(x, ast.Name)]
                for t_ in tnames:
                    if t_ in env and not isinstance(env[t_], VRaw):
                        raise Abandon("loop variable shadows a static value")
                ren = {t_: self.local(t_, env, frame) for t_ in tnames}
                target = copy.deepcopy(s.target)
                for x in ast.walk(target):
                    if isinstance(x, ast.Name):
                        x.id = ren[x.id]
                e1 = dict(env)
                body, _ = self.run(s.body, e1, frame)
                self.check_loop_env(env, e1)
                orelse, _ = self.run(s.orelse, dict(env), frame) if s.orelse else ([], False)
                new = ast.For(target, self.resid(it) if isinstance(it, VRaw) else self.subst(s.iter, env), body or [ast.Pass()], orelse)
                out.append(self.fresh_shell(new, s))
                continue
            if isinstance(s, ast.While):
                if frame["mode"] != "top" and self.has_return(s.body):
                    raise Abandon("return inside a loop of a helper")
                self.forget_assigned(s.body, env)
                test = self.subst(s.test, env)
                e1 = dict(env)
                body, _ = self.run(s.body, e1, frame)
                self.check_loop_env(env, e1)
                new = ast.While(test, body or [ast.Pass()], [])
                out.append(self.fresh_shell(new, s))
                continue
            if isinstance(s, (ast.Break, ast.Continue)):
                out.append(self.fresh(copy.deepcopy(s), s))
                continue
            if isinstance(s, ast.Delete) and all(isinstance(t, ast.Name) for t in s.targets):
                continue
            raise Abandon(f"statement {type(s).__name__}")
        return out, False

    def fresh_if(self, test, r1, r2, site):
        node = ast.If(test, r1 or [ast.Pass()], r2)
        return self.fresh_shell(node, site)

    def fresh_shell(self, node, site):
        """position the compound statement itself and its header expressions; the bodies are positioned already"""
        self.counter[0] += 1
        node.lineno = getattr(site, "lineno", 1)
        node.end_lineno = getattr(site, "end_lineno", node.lineno)
        node.col_offset = node.end_col_offset = 50000 + self.counter[0]
        for fld in ("test", "iter", "target"):
            h = getattr(node, fld, None)
            if h is not None:
                self.fresh(h, site)
        for fld in ("body", "orelse"):
            for b in getattr(node, fld, []):
                if isinstance(b, ast.Pass) and not hasattr(b, "lineno"):
                    self.fresh(b, site)
        return node

    def merge(self, env, e1, e2):
        keys = set(e1) | set(e2)
        env.clear()
        for k in keys:
            a, b = e1.get(k), e2.get(k)
            if a is b:
                env[k] = a
            elif (a is None or b is None) and isinstance(a or b, VRaw) and isinstance((a or b).expr, ast.Name):
                # assigned on one path only: a run-time local read by its residual name
                env[k] = a or b
            elif isinstance(a, VRaw) and isinstance(b, VRaw) and ast.dump(a.expr) == ast.dump(b.expr):
                env[k] = a
            elif isinstance(a, VDefer) or isinstance(b, VDefer):
                env[k] = _Lost(k)
            elif isinstance(a, STATIC) or isinstance(b, STATIC):
                same = self.same_static(a, b)
                if same:
                    env[k] = a
                else:
                    env[k] = _Lost(k)
            # a name bound to different run-time expressions on the two paths: both paths assigned the same residual
            # name (self.local), so reading the name itself is right
            elif isinstance(a, VRaw) and isinstance(b, VRaw):
                na = a.expr.id if isinstance(a.expr, ast.Name) else None
                nb = b.expr.id if isinstance(b.expr, ast.Name) else None
                if na is not None and na == nb:
                    env[k] = a
                else:
                    env[k] = _Lost(k)
            else:
                env[k] = _Lost(k)

    def same_static(self, a, b):
        if type(a) is not type(b):
            return False
        if isinstance(a, (VSeq, VOpF)):
            return True
        if isinstance(a, VFn):
            return a.fdef is b.fdef
        if isinstance(a, VOp):
            return ast.dump(a.typ) == ast.dump(b.typ) and ast.dump(a.idx) == ast.dump(b.idx)
        if isinstance(a, VCond):
            return ast.dump(a.test) == ast.dump(b.test) and self.same_static(a.a, b.a) and self.same_static(a.b, b.b) \
                if isinstance(a.a, STATIC) and isinstance(a.b, STATIC) else False
        if isinstance(a, VList):
            return len(a.items) == len(b.items) and all(
                (isinstance(x, VRaw) and isinstance(y, VRaw) and ast.dump(x.expr) == ast.dump(y.expr)) or
                (isinstance(x, STATIC) and self.same_static(x, y)) for x, y in zip(a.items, b.items))
        return False

    def forget_assigned(self, body, env):
        """names assigned inside a loop body are run-time values at the loop head"""
        for b in body:
            for x in ast.walk(b):
                if isinstance(x, ast.Name) and isinstance(x.ctx, ast.Store) and x.id in env:
                    if isinstance(env[x.id], VList) and not self.has_static(env[x.id]) and x.id in self.data_names:
                        env[x.id] = VRaw(ast.Name(self.data_names[x.id], ast.Load()))
                        continue
                    if not isinstance(env[x.id], VRaw):
                        raise Abandon(f"static value `{x.id}` is re-assigned inside a loop")
                    v = env[x.id]
                    if not (isinstance(v.expr, ast.Name)):
                        # a parameter bound to an argument expression and re-assigned in a loop: give it a residual name
                        raise Abandon(f"parameter `{x.id}` of a helper is re-assigned inside a loop")

    def check_loop_env(self, env, after):
        for k, v in after.items():
            if isinstance(v, STATIC) and not (k in env and self.same_static(env[k], v)):
                raise Abandon(f"static value `{k}` is bound inside a loop body")

    def local(self, name, env, frame):
        """residual name of a run-time local: the name itself in the builder, prefixed inside an evaluated helper"""
        new = frame["ren"] + name if frame["ren"] else name
        env[name] = VRaw(ast.Name(new, ast.Load()))
        return new

    def bind_target(self, target, item, env, frame, out, site):
        if isinstance(target, ast.Name):
            if isinstance(item, VRaw) and not _pure(item.expr):
                nm = self.local(target.id, env, frame)
                out.append(self.fresh(ast.Assign([ast.Name(nm, ast.Store())], item.expr), site))
            else:
                env[target.id] = item
            return
        if isinstance(target, (ast.Tuple, ast.List)) and isinstance(item, VList) and len(item.items) == len(target.elts):
            for t, v in zip(target.elts, item.items):
                self.bind_target(t, v, env, frame, out, site)
            return
        raise Abandon("loop target does not match the element")

    def assign(self, s, env, frame):
        tgt = s.targets[0]
        out = []
        if isinstance(tgt, ast.Name):
            # the defining assignments of the builder itself
            if frame["mode"] == "top" and isinstance(s.value, ast.Call) and isinstance(s.value.func, ast.Name):
                if s.value.func.id == "Sequence":
                    if self.seqname not in (None, tgt.id):
                        raise Abandon("two sequence objects")
                    self.seqname = tgt.id
                    env[tgt.id] = VSeq()
                    new = copy.deepcopy(s)
                    new.value = self.subst(s.value, {k: v for k, v in env.items() if k != tgt.id})
                    return [new]
                if s.value.func.id == "partial" and s.value.args and isinstance(s.value.args[0], ast.Name) \
                        and s.value.args[0].id in ("Op", "Operation"):
                    if self.opname not in (None, tgt.id):
                        raise Abandon("two operation factories")
                    self.opname = tgt.id
                    env[tgt.id] = VOpF()
                    return [copy.deepcopy(s)]
            if isinstance(s.value, ast.Name) and isinstance(env.get(s.value.id), VSeq):
                # `a = sequence`: a second name for the object; kept as a run-time assignment (the grammar's own
                # fragment check decides whether the alias only inspects the sequence)
                nm = self.local(tgt.id, env, frame)
                return [self.fresh(ast.Assign([ast.Name(nm, ast.Store())], self.resid(env[s.value.id])), s)]
            root = s.value
            while isinstance(root, ast.Call) and isinstance(root.func, ast.Attribute) and root.func.attr in ("shift", "remove_useless_wm"):
                root = root.func.value
            if isinstance(root, ast.Call) and isinstance(root.func, ast.Name) and root.func.id in self.builder_names:
                env[tgt.id] = VDefer(self.subst(s.value, env))
                return []
            try:
                v = self.ev(s.value, env, True)
            except Abandon:
                # the right-hand side need not be a static value at all: an ordinary run-time call
                v = self.ev(s.value, env, False)
            if isinstance(v, STATIC) and (self.has_static(v) or isinstance(v, VList)):
                if isinstance(v, VFn) and not isinstance(s.value, ast.Name):
                    raise Abandon("function-valued expression")
                if isinstance(v, VFn):
                    # `f = helper`: only when evaluated as a callee
                    env[tgt.id] = v
                    return []
                if isinstance(v, VList) and not self.has_static(v):
                    # plain data: keep the run-time assignment as well, the name may be read by run-time code
                    nm = self.local(tgt.id, env, frame)
                    out.append(self.fresh(ast.Assign([ast.Name(nm, ast.Store())], self.resid(v)), s))
                    env[tgt.id] = v
                    self.data_names[tgt.id] = nm
                    return out
                env[tgt.id] = v
                return []
            nm = self.local(tgt.id, env, frame)
            out.append(self.fresh(ast.Assign([ast.Name(nm, ast.Store())], self.resid(v)), s))
            return out
        if isinstance(tgt, (ast.Tuple, ast.List)):
            v = self.ev(s.value, env, True)
            if isinstance(v, VList) and len(v.items) == len(tgt.elts) and all(isinstance(t, ast.Name) for t in tgt.elts):
                for t, item in zip(tgt.elts, v.items):
                    if isinstance(item, VRaw):
                        nm = self.local(t.id, env, frame)
                        out.append(self.fresh(ast.Assign([ast.Name(nm, ast.Store())], item.expr), s))
                    else:
                        env[t.id] = item
                return out
            if isinstance(v, VRaw) and all(isinstance(t, ast.Name) for t in tgt.elts):
                names = [self.local(t.id, env, frame) for t in tgt.elts]
                new = ast.Assign([ast.Tuple([ast.Name(n, ast.Store()) for n in names], ast.Store())], v.expr)
                return [self.fresh(new, s)]
            raise Abandon("tuple assignment that cannot be followed")
        # stores through subscripts / attributes of run-time objects
        if isinstance(tgt, (ast.Subscript, ast.Attribute)):
            new = ast.Assign([self.subst_store(tgt, env)], self.subst(s.value, env))
            return [self.fresh(new, s)]
        raise Abandon("assignment target")

    def subst_store(self, tgt, env):
        t = copy.deepcopy(tgt)
        if isinstance(t, ast.Subscript):
            t.value = self.subst(t.value, env)
            t.slice = self.subst(t.slice, env)
        else:
            t.value = self.subst(t.value, env)
        return t

    def call_stmt(self, s, call, env, frame):
        f = call.func
        if isinstance(f, ast.Attribute):
            recv = self.ev(f.value, env, True)
            if isinstance(recv, VSeq):
                if f.attr == "insert" and len(call.args) == 1 and not call.keywords:
                    return [self.insert_stmt(self.ev(call.args[0], env, True), s)]
                if f.attr == "insert_sequence" and len(call.args) == 1 and not call.keywords:
                    new = ast.Expr(ast.Call(ast.Attribute(ast.Name(self.seqname, ast.Load()), "insert_sequence", ast.Load()),
                                            [self.subst(call.args[0], env)], []))
                    return [self.fresh(new, s)]
                if f.attr in self.seq_methods:
                    m = self.seq_methods[f.attr]
                    fake = ast.Call(ast.Name(m.name, ast.Load()), [f.value] + list(call.args), list(call.keywords))
                    return self.inline(VFn(m, SEQ_PREFIX + "basic_functions.py"), fake, env, frame, "stmt", s)
                raise Abandon(f"method `{f.attr}` of the sequence object")
            if isinstance(recv, STATIC):
                raise Abandon("method call on a static value")
            return [self.fresh(ast.Expr(self.subst(call, env)), s)]
        if isinstance(f, ast.Name):
            fn = self.lookup_fn(f.id, env)
            if fn is not None:
                args = []
                for a in call.args:
                    if isinstance(a, ast.Starred):
                        args.append(None)
                    else:
                        args.append(self.ev(a, env, True))
                if any(a is None or self.has_static(a) for a in args) or fn.closure is not None:
                    return self.inline(fn, call, env, frame, "stmt", s)
            v = self.ev(call, env)
            return [self.fresh(ast.Expr(self.resid(v)), s)]
        raise Abandon("call statement")

    def inline(self, fn, call, env, frame, mode, site, want_term=False):
        f = fn.fdef
        if f.name in self.stack or len(self.stack) > 8:
            raise Abandon("recursive helper")
        if any(isinstance(x, (ast.Yield, ast.YieldFrom, ast.Global, ast.Nonlocal, ast.Try, ast.With)) for x in ast.walk(f)):
            raise Abandon("helper with yield/global/try/with")
        new = self.bind_params(fn, call, env)
        self.stack.append(f.name)
        try:
            fr = {"mode": mode, "ren": (frame["ren"] + f.name + "__") if fn.closure is None else frame["ren"], "result": []}
            if fn.closure is not None:
                # a nested function reads and shares the enclosing locals; its own assignments stay local to the call
                pass
            res, term = self.run(f.body, new, fr)
            self.inlined.append(f.name)
            # positions: everything at the call site
            for r in res:
                for x in ast.walk(r):
                    if hasattr(x, "lineno"):
                        x.lineno = getattr(site, "lineno", x.lineno)
                        x.end_lineno = getattr(site, "end_lineno", x.lineno)
            return (res, term) if want_term else res
        finally:
            self.stack.pop()

    # ------------------------------------------------------------------ driver
    def go(self):
        self.data_names = {}
        env = {}
        frame = {"mode": "top", "ren": "", "result": []}
        res, _ = self.run(self.fn.body, env, frame)
        if self.seqname is None:
            raise Abandon("no sequence object")
        return res


class _Lost:
    def __init__(self, name):
        self.name = name


def normalise_builders(repo):
    """rewrite every sequence builder whose body evaluates completely; -> list of (rel, builder, helpers evaluated)"""
    done = []
    counter = [0]
    helpers = {}
    count = {}
    builders = []
    for rel, m in repo.modules.items():
        if not rel.startswith(SEQ_PREFIX):
            continue
        for n in m.tree.body:
            if isinstance(n, ast.FunctionDef):
                count[n.name] = count.get(n.name, 0) + 1
    seq_methods = {}
    for rel, m in repo.modules.items():
        if not rel.startswith(SEQ_PREFIX):
            continue
        for n in m.tree.body:
            if isinstance(n, ast.ClassDef) and n.name == "Sequence":
                for f in n.body:
                    if isinstance(f, ast.FunctionDef) and f.name not in ("insert", "insert_sequence") and not f.name.startswith("__"):
                        # only methods that do nothing but insert (possibly in loops): anything touching self.<attr>
                        # other than through insert/insert_sequence is a real method of the container
                        attrs = {x.attr for x in ast.walk(f) if isinstance(x, ast.Attribute) and isinstance(x.value, ast.Name)
                                 and x.value.id == "self"}
                        if attrs and attrs <= {"insert", "insert_sequence"}:
                            seq_methods[f.name] = f
            if isinstance(n, ast.FunctionDef) and count[n.name] == 1 and not n.decorator_list:
                makes_seq = any(isinstance(x, ast.Call) and isinstance(x.func, ast.Name) and x.func.id == "Sequence" for x in ast.walk(n))
                if makes_seq:
                    builders.append((rel, n))
                elif not (n.name.startswith("get_") and n.name.endswith("_table")) and n.name not in ("argmin", "beta", "revolver_parameters"):
                    helpers[n.name] = (rel, n)
    for rel, fn in builders:
        pe = PE(repo, rel, fn, helpers, seq_methods, counter)
        pe.builder_names = {f.name for _, f in builders}
        # `return helper(...)`: evaluate the helper in tail position
        try:
            res = pe.go()
        except Abandon as e:
            repo.seqnorm_abandoned.append((rel, fn.name, str(e)))
            continue
        except RecursionError:
            repo.seqnorm_abandoned.append((rel, fn.name, "recursion limit"))
            continue
        if pe.inlined:
            fn.body = res
            ast.fix_missing_locations(fn)
            done.append((rel, fn.name, sorted(set(pe.inlined))))
    return done
