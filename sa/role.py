"""ROLE: interprocedural cost-role flow and role-substitution invariance of sinks.

The *actual* role (UF, UB, WD, RD; vectors WV, RV) of every cost-carrying value is
propagated from the public constructor parameters of the Revolve-family classes
(named and documented uf, ub, wd, rd) through list literals, positional/keyword/
**dict binding, the literal dict of revolver_parameters, params["..."] subscripts
and dict(params).  The *expected* role of a variable is the one its name states
(the code base's own convention, frozen in NAME_ROLE).  At every live arithmetic /
comparison expression that mentions a cost variable (a sink) the expression is
normalised to a polynomial twice - expected roles and actual roles - and the two
must coincide.  Mix-ups that are behaviourally invisible cancel by construction.
"""
import ast

from .constprop import Liveness, SEQ
from .poly import padd, patom, pconst, pkey, pmul, pstr
from fractions import Fraction as Fr

NAME_ROLE = {"uf": "UF", "fwd_cost": "UF", "ub": "UB", "bwd_cost": "UB", "wd": "WD", "rd": "RD",
             "wvect": "WV", "wc": "WV", "rvect": "RV", "rc": "RV"}
KEY_ROLE = {"uf": "UF", "ub": "UB", "wd": "WD", "rd": "RD"}
SCALAR = ("UF", "UB", "WD", "RD")
FAMILY = ("HRevolve", "DiskRevolve", "PeriodicDiskRevolve", "Revolve")


class Sink:
    def __init__(self, fname, rel, node, ordinal):
        self.fname, self.rel, self.node, self.ordinal = fname, rel, node, ordinal
        self.evals = []     # (ok, exp, act, context)

    @property
    def construct(self):
        return f"{self.rel[:-3].replace('/', '.')}.{self.fname}#sink[{self.ordinal}]"

    def verdict(self):
        if any(e[0] is False and not (len(e) > 4 and e[4]) for e in self.evals):
            return False
        if any(e[0] is False for e in self.evals):
            return None     # refuted only in a calling context that comes from possibly-dead code
        if self.evals and all(e[0] is True for e in self.evals):
            return True
        return None


def vec_identity(v):
    if v and v[0] == "vec":
        roles = {e[1] for e in v[1] if e and e[0] == "role"}
        others = [e for e in v[1] if e is None]
        if others:
            return None
        if roles == {"WD"}:
            return "WV"
        if roles == {"RD"}:
            return "RV"
        return None
    if v and v[0] == "role":
        return v[1]
    return None


def freeze(v):
    if v is None:
        return None
    if v[0] == "dict":
        return ("dict", tuple(sorted((k, freeze(x)) for k, x in v[1].items())))
    if v[0] == "vec":
        return ("vec", tuple(freeze(x) for x in v[1]))
    return v


class RoleFlow:
    def __init__(self, repo):
        self.repo = repo
        self.live = Liveness(repo)
        self.funcs = {}
        for rel, q, f in repo.all_functions():
            if "." not in q:
                self.funcs[q] = (rel, f)
        self.sinks = {}
        self.seen = set()
        self.ret = {}
        self.analysed = set()
        self.unresolved_calls = []

    # ---------------------------------------------------------------- polynomials
    def poly(self, node, env, mode):
        """-> (poly, mentions_role, unknown)"""
        if isinstance(node, ast.Constant) and isinstance(node.value, (int, float)) and not isinstance(node.value, bool):
            return pconst(Fr(node.value)), False, False
        if isinstance(node, ast.BinOp) and isinstance(node.op, (ast.Add, ast.Sub, ast.Mult, ast.Div)):
            a, ra, ua = self.poly(node.left, env, mode)
            b, rb, ub = self.poly(node.right, env, mode)
            if isinstance(node.op, ast.Add):
                return padd(a, b), ra or rb, ua or ub
            if isinstance(node.op, ast.Sub):
                return padd(a, b, -1), ra or rb, ua or ub
            if isinstance(node.op, ast.Mult):
                return pmul(a, b), ra or rb, ua or ub
            if set(b) <= {()} and b:
                return pmul(a, pconst(1 / b[()])), ra or rb, ua or ub
            return pmul(a, patom("1/(" + pstr(b) + ")")), ra or rb, ua or ub
        if isinstance(node, ast.UnaryOp) and isinstance(node.op, ast.USub):
            a, ra, ua = self.poly(node.operand, env, mode)
            return pmul(a, pconst(-1)), ra, ua
        if isinstance(node, ast.Name):
            exp = NAME_ROLE.get(node.id)
            act = env.get(node.id)
            if exp in SCALAR or (act and act[0] == "role"):
                if mode == "exp":
                    if exp in SCALAR:
                        return patom(exp), True, False
                    return patom("?" + node.id), True, True
                if act and act[0] == "role":
                    return patom(act[1]), True, False
                return patom("?" + node.id), True, True
            return patom(node.id), False, False
        if isinstance(node, ast.Subscript):
            base = node.value
            if isinstance(base, ast.Name) and isinstance(node.slice, ast.Constant) and isinstance(node.slice.value, str):
                d = env.get(base.id)
                key = node.slice.value
                if key in KEY_ROLE:
                    if mode == "exp":
                        return patom(KEY_ROLE[key]), True, False
                    if d and d[0] == "dict" and d[1].get(key) and d[1][key][0] == "role":
                        return patom(d[1][key][1]), True, False
                    return patom(f"?{base.id}[{key}]"), True, True
            if isinstance(base, ast.Name) and (NAME_ROLE.get(base.id) in ("WV", "RV")
                                               or (env.get(base.id) and env[base.id][0] == "vec"
                                                   and any(e and e[0] == "role" for e in env[base.id][1]))):
                idx = " ".join(ast.unparse(node.slice).split())
                if mode == "exp":
                    r = NAME_ROLE.get(base.id)
                    return patom(f"{r or '?' + base.id}[{idx}]"), True, r is None
                ident = vec_identity(env.get(base.id))
                return patom(f"{ident or '?' + base.id}[{idx}]"), True, ident is None
        return patom(" ".join(ast.unparse(node).split())), False, False

    # ---------------------------------------------------------------- abstract values
    def absval(self, node, env):
        if isinstance(node, ast.Name):
            return env.get(node.id)
        if isinstance(node, ast.Constant):
            return ("const", node.value)
        if isinstance(node, (ast.List, ast.Tuple)):
            return ("vec", [self.absval(e, env) for e in node.elts])
        if isinstance(node, ast.Dict):
            return ("dict", {k.value: self.absval(v, env) for k, v in zip(node.keys, node.values)
                             if isinstance(k, ast.Constant)})
        if isinstance(node, ast.Subscript) and isinstance(node.value, ast.Name):
            d = env.get(node.value.id)
            if d and d[0] == "dict" and isinstance(node.slice, ast.Constant):
                return d[1].get(node.slice.value)
            if d and d[0] == "vec" and isinstance(node.slice, ast.Constant) and isinstance(node.slice.value, int) \
                    and 0 <= node.slice.value < len(d[1]):
                return d[1][node.slice.value]
        if isinstance(node, ast.Call):
            return self.call(node, env)
        return None

    def call(self, node, env):
        f = node.func
        name = f.id if isinstance(f, ast.Name) else None
        if name in ("dict", "list", "tuple") and len(node.args) == 1:
            return self.absval(node.args[0], env)
        if name not in self.funcs:
            for a in node.args:
                if isinstance(a, ast.Call):
                    self.absval(a, env)
            return None
        rel, fdef = self.funcs[name]
        params = [a.arg for a in fdef.args.args]
        kwonly = [a.arg for a in fdef.args.kwonlyargs]
        bind, extra = {}, {}
        for p, a in zip(params, node.args):
            bind[p] = self.absval(a, env)
        for k in node.keywords:
            if k.arg is None:
                d = self.absval(k.value, env)
                if d and d[0] == "dict":
                    for kk, vv in d[1].items():
                        if kk in params or kk in kwonly:
                            bind.setdefault(kk, vv)
                        else:
                            extra[kk] = vv
            elif k.arg in params or k.arg in kwonly:
                bind[k.arg] = self.absval(k.value, env)
            else:
                extra[k.arg] = self.absval(k.value, env)
        if fdef.args.kwarg:
            bind[fdef.args.kwarg.arg] = ("dict", extra)
        maybe = id(node) in self.live.maybe_nodes
        if maybe:
            self._maybe = getattr(self, "_maybe", 0) + 1
        try:
            return self.analyse(name, bind)
        finally:
            if maybe:
                self._maybe -= 1

    # ---------------------------------------------------------------- functions
    def sink_of(self, fname, rel, node):
        key = (fname, node.lineno, node.col_offset)
        s = self.sinks.get(key)
        if s is None:
            s = self.sinks[key] = Sink(fname, rel, node, -1)
        return s

    def is_dead(self, node):
        return id(node) in self.live.dead_nodes

    def analyse(self, name, bind):
        key = (name, tuple(sorted((k, freeze(v)) for k, v in bind.items())), bool(getattr(self, "_maybe", 0)))
        if key in self.seen:
            return self.ret.get(key)
        self.seen.add(key)
        rel, fdef = self.funcs[name]
        self.analysed.add(name)
        in_seq = rel.startswith(SEQ)
        env = dict(bind)
        ret = [None]
        ctx = ", ".join(f"{k}<-{v[1]}" for k, v in sorted(bind.items()) if v and v[0] == "role")

        def visit(stmts):
            for s in stmts:
                if in_seq and self.is_dead(s):
                    continue
                for sub in sinks_in(s):
                    e, he, ue = self.poly(sub, env, "exp")
                    a, ha, ua = self.poly(sub, env, "act")
                    if he or ha:
                        ok = None if (ue or ua) else (pkey(e) == pkey(a))
                        self.sink_of(name, rel, sub).evals.append((ok, pstr(e), pstr(a), ctx, bool(getattr(self, "_maybe", 0))))
                if isinstance(s, ast.Assign):
                    v = self.absval(s.value, env)
                    for t in s.targets:
                        if isinstance(t, ast.Name):
                            env[t.id] = v
                        elif isinstance(t, (ast.Tuple, ast.List)):
                            for e in t.elts:
                                if isinstance(e, ast.Name):
                                    env[e.id] = None
                elif isinstance(s, ast.Return):
                    if s.value is not None:
                        ret[0] = self.absval(s.value, env)
                elif isinstance(s, ast.Expr):
                    if isinstance(s.value, ast.Call):
                        self.absval(s.value, env)
                if isinstance(s, (ast.Assign, ast.Return, ast.Expr)) and getattr(s, "value", None) is not None:
                    for c in ast.walk(s.value):
                        if isinstance(c, ast.Call) and c is not s.value:
                            self.absval(c, env)
                if isinstance(s, (ast.If, ast.While)):
                    for c in ast.walk(s.test):
                        if isinstance(c, ast.Call):
                            self.absval(c, env)
                    visit(s.body)
                    visit(s.orelse)
                elif isinstance(s, ast.For):
                    visit(s.body)
                    visit(s.orelse)
        visit(fdef.body)
        self.ret[key] = ret[0]
        return ret[0]

    def run(self):
        for cname in FAMILY:
            rel, c = self.repo.find_class(cname)
            init = self.repo.method(rel, cname, "__init__")
            self.funcs[cname + ".__init__"] = (rel, init)
            bind = {a.arg: ("role", NAME_ROLE[a.arg]) for a in init.args.args if a.arg in KEY_ROLE}
            self.analyse(cname + ".__init__", bind)
        # ordinals by source position per function
        per = {}
        for (fname, ln, col), s in self.sinks.items():
            per.setdefault(fname, []).append((ln, col, s))
        for fname, lst in per.items():
            for i, (_, _, s) in enumerate(sorted(lst, key=lambda x: (x[0], x[1]))):
                s.ordinal = i
        return self


def sinks_in(stmt):
    """maximal arithmetic expressions / comparison operands directly in this
    statement (not in nested statements)"""
    out = []

    def rec(n):
        if isinstance(n, ast.stmt) and n is not stmt:
            return
        if isinstance(n, ast.Compare):
            for x in [n.left] + n.comparators:
                rec2(x)
            return
        if isinstance(n, ast.BinOp):
            out.append(n)
            for c in ast.walk(n):
                if isinstance(c, (ast.ListComp, ast.Call)) and c is not n:
                    for ch in ast.iter_child_nodes(c):
                        rec(ch)
            return
        for ch in ast.iter_child_nodes(n):
            if isinstance(ch, ast.stmt):
                continue
            rec(ch)

    def rec2(x):
        if isinstance(x, ast.BinOp):
            out.append(x)
        for c in ast.walk(x):
            if isinstance(c, (ast.ListComp, ast.Call)):
                for ch in ast.iter_child_nodes(c):
                    rec(ch)
        if isinstance(x, (ast.Name, ast.Subscript)):
            out.append(x)
    if isinstance(stmt, (ast.If, ast.While)):
        rec(stmt.test)
    elif isinstance(stmt, ast.For):
        rec(stmt.iter)
    elif isinstance(stmt, ast.FunctionDef):
        pass
    else:
        for ch in ast.iter_child_nodes(stmt):
            if not isinstance(ch, ast.stmt):
                rec(ch)
        # a bare cost variable stored into a table / appended to it is a sink too
        if isinstance(stmt, ast.Assign) and isinstance(stmt.value, (ast.Name, ast.Subscript)) and \
                any(isinstance(t, ast.Subscript) for t in stmt.targets):
            out.append(stmt.value)
        if isinstance(stmt, ast.Expr) and isinstance(stmt.value, ast.Call) and isinstance(stmt.value.func, ast.Attribute) \
                and stmt.value.func.attr == "append" and len(stmt.value.args) == 1 \
                and isinstance(stmt.value.args[0], (ast.Name, ast.Subscript)):
            out.append(stmt.value.args[0])
    # de-duplicate nested findings
    seen, res = set(), []
    for n in out:
        k = (n.lineno, n.col_offset, type(n).__name__)
        if k not in seen:
            seen.add(k)
            res.append(n)
    return res
