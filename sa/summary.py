"""return-case summaries of the pure step planners, obtained by abstractly
interpreting the planner itself (nothing is run)."""
from .interp import Interp, Tok, pure_sym
from .karr import Lin, State, join


def planner_summary(repo, rel="mixed.py", name="mixed_step_memoization"):
    """-> list of (step-kind token, eqs, ineqs) over the symbols n (first
    argument) and len (second component of the result); one entry per token,
    the join over every return that may produce it.  None if not understood."""
    fn = repo.func(rel, name, required=False)
    if fn is None:
        return None
    it = Interp(fn, finalize_havoc=False, record_calls=())
    it.DEFAULT_PART = ()
    it.partvars = ("m.0",)
    try:
        it.run()
    except Exception:
        return None
    params = [a.arg for a in fn.args.args]
    if not params:
        return None
    by_tok = {}
    for o in it.outcomes:
        if o.kind == "end":
            return None
        if o.kind != "return":
            continue
        v = o.what
        if not (isinstance(v, tuple) and len(v) == 3):
            return None
        st = o.state.copy()
        k = v[0]
        if isinstance(k, Tok):
            toks = [k.v]
        else:
            e = st.enum_get(pure_sym(k)) if pure_sym(k) else None
            if not e or e[0] != "in":
                return None
            toks = sorted(e[1])
        if isinstance(v[1], Lin):
            st.forget("len")
            st.add_eq(Lin.sym("len") - v[1])
        if params[0] != "n":
            st.forget("n")
            st.add_eq(Lin.sym("n") - Lin.sym(params[0]))
        for s in list(st.symbols()):
            if s not in ("n", "len"):
                st.forget(s)
        st.enums, st.may, st.neq, st.cond = {}, {}, [], []
        for t in toks:
            by_tok[t] = join(by_tok[t], st) if t in by_tok else st
    out = []
    for t, st in sorted(by_tok.items()):
        eqs = [r for r in st.eqs() if r.syms() <= {"n", "len"}]
        ineqs = [i for i in st.ineq if i.syms() <= {"n", "len"}]
        out.append((t, eqs, ineqs))
    return out
