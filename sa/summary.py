"""return-case summaries of the pure step planners, obtained by abstractly
interpreting the planner itself (nothing is run)."""
from .interp import Interp, Tok, pure_sym
from .karr import Lin, State, join


def planner_summary(repo, rel="mixed.py", name="mixed_step_memoization"):
    """-> list of (step-kind token, eqs, ineqs) over the symbols n (first
    argument) and len (second component of the result); one entry per token,
    the join over every return that may produce it.  None if not understood."""
    fn = repo.func(rel, name, required=False)
    if fn is None:
        return None
    it = Interp(fn, finalize_havoc=False, record_calls=())
    it.DEFAULT_PART = ()
    # partition on the kind component of every tuple-valued local that holds a (kind, length, cost) candidate
    import ast as _ast
    cands = []
    for n in _ast.walk(fn):
        if isinstance(n, _ast.Assign) and isinstance(n.value, _ast.Tuple) and n.value.elts \
                and isinstance(n.value.elts[0], _ast.Attribute) and isinstance(n.value.elts[0].value, _ast.Name) \
                and n.value.elts[0].value.id == "StepType":
            for t in n.targets:
                if isinstance(t, _ast.Name) and t.id + ".0" not in cands:
                    cands.append(t.id + ".0")
    it.partvars = tuple(cands)
    try:
        it.run()
    except Exception:
        return None
    params = [a.arg for a in fn.args.args]
    if not params:
        return None
    by_tok = {}
    for o in it.outcomes:
        if o.kind == "end":
            return None
        if o.kind != "return":
            continue
        v = o.what
        if not (isinstance(v, tuple) and len(v) == 3):
            return None
        st = o.state.copy()
        k = v[0]
        if isinstance(k, Tok):
            toks = [k.v]
        else:
            e = st.enum_get(pure_sym(k)) if pure_sym(k) else None
            if not e or e[0] != "in":
                return None
            toks = sorted(e[1])
        if isinstance(v[1], Lin):
            st.forget("len")
            st.add_eq(Lin.sym("len") - v[1])
        if params[0] != "n":
            st.forget("n")
            st.add_eq(Lin.sym("n") - Lin.sym(params[0]))
        for s in list(st.symbols()):
            if s not in ("n", "len"):
                st.forget(s)
        st.enums, st.may, st.neq, st.cond = {}, {}, [], []
        for t in toks:
            by_tok[t] = join(by_tok[t], st) if t in by_tok else st
    out = []
    ren = {"n": "a0", "len": "len"}

    def rn(l):
        return Lin({ren[k]: v for k, v in l.t.items()}, l.c)
    for t, st in sorted(by_tok.items()):
        eqs = [rn(r) for r in st.eqs() if r.syms() <= {"n", "len"}]
        ineqs = [rn(i) for i in st.ineq if i.syms() <= {"n", "len"}]
        out.append((t, eqs, ineqs, ()))
    return (("k", "len", "cost"), out)


def convert_cases(repo):
    """summary of hrevolve._convert_action for the converter: per operation type the
    possible storages and the guard facts on (n_0, n_1)"""
    fn = repo.func("hrevolve.py", "_convert_action", required=False)
    if fn is None:
        return None
    it = Interp(fn, finalize_havoc=False, partvars=("cp_action", "storage"), record_calls=())
    it.DEFAULT_PART = ()
    try:
        it.run()
    except Exception:
        return None
    by = {}
    for o in it.outcomes:
        if o.kind == "end":
            return None
        if o.kind != "return":
            continue
        v = o.what
        if not (isinstance(v, tuple) and len(v) == 2 and isinstance(v[1], tuple) and len(v[1]) == 3):
            return None
        st = o.state.copy()
        e = st.enum_get("cp_action")
        if not e or e[0] != "in":
            return None
        sv = v[1][2]
        if isinstance(sv, Tok):
            sto = frozenset([sv.v])
        else:
            ee = st.enum_get(pure_sym(sv)) if pure_sym(sv) else None
            sto = frozenset(ee[1]) if ee and ee[0] == "in" else None
        for name, val in (("n0", v[1][0]), ("n1", v[1][1])):
            st.forget(name + "$")
            if isinstance(val, Lin):
                st.add_eq(Lin.sym(name + "$") - val)
        for s_ in list(st.symbols()):
            if s_ not in ("n0$", "n1$"):
                st.forget(s_)
        st.enums, st.may, st.neq, st.cond = {}, {}, [], []
        for t in e[1]:
            if t in by:
                by[t] = (join(by[t][0], st), (by[t][1] | sto) if (by[t][1] is not None and sto is not None) else None)
            else:
                by[t] = (st, sto)
    ren = {"n0$": "n0", "n1$": "n1"}

    def rn(l):
        return Lin({ren[k]: v for k, v in l.t.items()}, l.c)
    cases = []
    for t, (st, sto) in sorted(by.items()):
        eqs = [rn(r) for r in st.eqs() if r.syms() <= set(ren)]
        ineqs = [rn(i) for i in st.ineq if i.syms() <= set(ren)]
        cases.append((t, eqs, ineqs, (("sto", sto),) if sto else ()))
    return (("k", ("n0", "n1", "sto")), cases)
