"""AFF domain: Karr-style affine equalities plus a few integer inequalities,
finite "enum" facts (value sets of non-numeric locations) and may-sets over
named symbols.

Pure dataflow domain: no path enumeration, nothing is handed to a solver.
"""
from fractions import Fraction as Fr

MAX_INEQ = 24
_RANK = {}


def rank(sym):
    """elimination priority: symbols with a low rank are chosen as pivots
    (expressed through the others) first, so that facts end up stated over the
    long-lived symbols (constructor parameters, max_n) and survive joins"""
    r = _RANK.get(sym)
    if r is None:
        if sym.startswith("@"):
            r = 0
        elif sym.startswith("self."):
            r = 3 if sym in ("self._n", "self._r") else 4
        elif sym.endswith("@prev"):
            r = 2
        elif sym == "sys.maxsize":
            r = 4
        else:
            r = 1
        _RANK[sym] = r = (r, sym)
    return r



def _nz(v):
    if isinstance(v, Fr) and v.denominator == 1:
        return v.numerator
    return v


def _div(a, b):
    if isinstance(a, int) and isinstance(b, int):
        if a % b == 0:
            return a // b
        return Fr(a, b)
    return _nz(Fr(a) / Fr(b))


class Lin:
    """linear term  sum coef*sym + c  (coefficients int or Fraction)"""
    __slots__ = ("t", "c")

    def __init__(self, t=None, c=0):
        self.t = {k: _nz(v) for k, v in t.items() if v != 0} if t else {}
        self.c = _nz(c)

    @staticmethod
    def _mk(t, c):
        r = Lin.__new__(Lin)
        r.t = t
        r.c = c
        return r

    @staticmethod
    def sym(s):
        return Lin._mk({s: 1}, 0)

    @staticmethod
    def const(c):
        return Lin._mk({}, _nz(c))

    def __add__(self, o):
        t = dict(self.t)
        for k, v in o.t.items():
            w = t.get(k, 0) + v
            if w == 0:
                t.pop(k, None)
            else:
                t[k] = _nz(w)
        return Lin._mk(t, _nz(self.c + o.c))

    def __neg__(self):
        return Lin._mk({k: -v for k, v in self.t.items()}, -self.c)

    def __sub__(self, o):
        t = dict(self.t)
        for k, v in o.t.items():
            w = t.get(k, 0) - v
            if w == 0:
                t.pop(k, None)
            else:
                t[k] = _nz(w)
        return Lin._mk(t, _nz(self.c - o.c))

    def scale(self, f):
        if f == 0:
            return Lin._mk({}, 0)
        if f == 1:
            return self
        return Lin._mk({k: _nz(v * f) for k, v in self.t.items()}, _nz(self.c * f))

    def addmul(self, o, f):
        """self + f*o"""
        if f == 0:
            return self
        t = dict(self.t)
        for k, v in o.t.items():
            w = t.get(k, 0) + v * f
            if w == 0:
                t.pop(k, None)
            else:
                t[k] = _nz(w)
        return Lin._mk(t, _nz(self.c + o.c * f))

    def is_const(self):
        return not self.t

    def syms(self):
        return set(self.t)

    def key(self):
        return (tuple(sorted(self.t.items())), self.c)

    def subst(self, s, e):
        f = self.t.get(s)
        if f is None:
            return self
        t = dict(self.t)
        del t[s]
        return Lin._mk(t, self.c).addmul(e, f)

    def __repr__(self):
        parts = []
        for k, v in sorted(self.t.items()):
            if v == 1:
                parts.append(f"+{k}")
            elif v == -1:
                parts.append(f"-{k}")
            else:
                parts.append(f"{'+' if v > 0 else ''}{v}*{k}")
        if self.c != 0 or not parts:
            parts.append(f"{'+' if self.c >= 0 else ''}{self.c}")
        return "".join(parts).lstrip("+")


class State:
    """rows: pivot sym -> Lin (== 0, coefficient 1 on the pivot, pivot absent
    from all other rows); ineq: list of Lin (>= 0), reduced by the rows."""

    def __init__(self):
        self.rows = {}
        self.ineq = []
        self.bottom = False
        self.neq = []          # list of Lin (!= 0), reduced by the rows
        # conditional facts (key symbol, token, eqs, ineqs): once the key is known to
        # hold the token, the equalities / inequalities (over value atoms) hold
        self.cond = []
        # sym -> ("in"|"notin", frozenset(tokens)); absent = top
        self.enums = {}
        # name -> frozenset: may-sets (join = union)
        self.may = {}

    def copy(self):
        s = State.__new__(State)
        s.rows = dict(self.rows)
        s.ineq = list(self.ineq)
        s.bottom = self.bottom
        s.neq = list(self.neq)
        s.cond = list(self.cond)
        s.enums = dict(self.enums)
        s.may = dict(self.may)
        return s

    # ------------------------------------------------------------ enum facts
    def enum_meet(self, sym, kind, toks):
        toks = frozenset(toks)
        cur = self.enums.get(sym)
        if cur is None:
            new = (kind, toks)
        else:
            ck, cs = cur
            if ck == "in" and kind == "in":
                new = ("in", cs & toks)
            elif ck == "in" and kind == "notin":
                new = ("in", cs - toks)
            elif ck == "notin" and kind == "in":
                new = ("in", toks - cs)
            else:
                new = ("notin", cs | toks)
        if new[0] == "in" and not new[1]:
            self.bottom = True
        if new[0] == "notin" and not new[1]:
            self.enums.pop(sym, None)
            return
        self.enums[sym] = new

    def enum_set(self, sym, tok):
        self.enums[sym] = ("in", frozenset([tok]))

    def enum_get(self, sym):
        return self.enums.get(sym)

    def enum_is(self, sym, tok):
        """'yes' / 'no' / 'unknown': does sym hold exactly tok?"""
        cur = self.enums.get(sym)
        if cur is None:
            return "unknown"
        k, s = cur
        if k == "in":
            if tok not in s:
                return "no"
            return "yes" if len(s) == 1 else "unknown"
        return "no" if tok in s else "unknown"

    def enum_single(self, sym):
        cur = self.enums.get(sym)
        if cur and cur[0] == "in" and len(cur[1]) == 1:
            return next(iter(cur[1]))
        return None

    # ------------------------------------------------------------ equalities
    def reduce(self, e):
        rows = self.rows
        hit = [p for p in e.t if p in rows]
        if not hit:
            return e
        for p in hit:
            f = e.t.get(p)
            if f:
                e = e.addmul(rows[p], -f)
        return e

    def add_eq(self, e):
        e = self.reduce(e)
        if not e.t:
            if e.c != 0:
                self.bottom = True
            return
        p = min(e.t, key=rank)
        f = e.t[p]
        if f != 1:
            e = e.scale(_div(1, f))
        for q, r in self.rows.items():
            g = r.t.get(p)
            if g:
                self.rows[q] = r.addmul(e, -g)
        self.rows[p] = e
        if self.ineq:
            self._renorm_ineq(p)
        if self.neq:
            self._renorm_neq()

    # ------------------------------------------------------------ disequalities
    def _renorm_neq(self):
        old, self.neq = self.neq, []
        for d in old:
            self.add_neq(d)

    def add_neq(self, e):
        r = self.reduce(e)
        if not r.t:
            if r.c == 0:
                self.bottom = True
            return
        k = r.key()
        nk = (-r).key()
        for d in self.neq:
            if d.key() in (k, nk):
                return
        # facts of the same linear shape that differ only in the constant are the trail a counter leaves behind when
        # it is incremented under a disequality (x != c, x+1 != c, ...): the two most recent are kept
        shape = tuple(sorted(r.t.items()))
        nshape = tuple(sorted((-r).t.items()))
        same = [d for d in self.neq if tuple(sorted(d.t.items())) in (shape, nshape)]
        if len(same) >= 2:
            self.neq.remove(same[0])
        if len(self.neq) >= 12:
            # bounded list: the oldest fact gives way (recent branch conditions matter most)
            self.neq.pop(0)
        self.neq.append(r)

    def entails_neq(self, e):
        r = self.reduce(e)
        if not r.t:
            return r.c != 0
        k, nk = r.key(), (-r).key()
        for d in self.neq:
            if d.key() in (k, nk):
                return True
        return self.entails_ineq(r - Lin.const(1)) or self.entails_ineq(-r - Lin.const(1))

    def _renorm_ineq(self, only=None):
        keep, redo = [], []
        for i in self.ineq:
            if only is not None and only not in i.t:
                keep.append(i)
            else:
                redo.append(i)
        self.ineq = keep
        for i in redo:
            r = self.reduce(i)
            if not r.t:
                if r.c < 0:
                    self.bottom = True
                continue
            self._add_ineq_reduced(r)

    def entails_eq(self, e):
        """'yes', ('no', c) if e == c != 0 is entailed, or 'unknown'"""
        r = self.reduce(e)
        if not r.t:
            return "yes" if r.c == 0 else ("no", r.c)
        return "unknown"

    # ------------------------------------------------------------ inequalities
    def add_ineq(self, e):
        r = self.reduce(e)
        if not r.t:
            if r.c < 0:
                self.bottom = True
            return
        self._add_ineq_reduced(r)

    def _add_ineq_reduced(self, r):
        # normalise to a primitive integer direction, tighten the constant
        rk = r.t
        for n, i in enumerate(self.ineq):
            it = i.t
            if len(it) != len(rk):
                continue
            # same direction: keep the stronger;  opposite: contradiction / equality
            samedir = all(it.get(k) == v for k, v in rk.items())
            if samedir:
                if r.c < i.c:
                    self.ineq[n] = r
                return
            opp = all(it.get(k) == -v for k, v in rk.items())
            if opp:
                s = i.c + r.c
                if s < 0:
                    self.bottom = True
                    return
                if s == 0:
                    del self.ineq[n]
                    self.add_eq(r)
                    return
        if len(self.ineq) < MAX_INEQ:
            self.ineq.append(r)

    def entails_ineq(self, e):
        r = self.reduce(e)
        if not r.t:
            return r.c >= 0
        rk = r.t
        cands = []
        for i in self.ineq:
            it = i.t
            if len(it) == len(rk) and all(it.get(k) == v for k, v in rk.items()):
                if r.c >= i.c:
                    return True
            if all(k in rk for k in it):
                cands.append(i)
        n = len(cands)
        for x in range(n):
            for y in range(x, n):
                d = r - cands[x] - cands[y]
                if not d.t and d.c >= 0:
                    return True
        return False

    def infeasible(self, cap=80):
        """bounded Fourier-Motzkin: True if the inequalities (over the rationals)
        are certainly contradictory; False = not shown"""
        if self.bottom:
            return True
        cur = list(self.ineq)
        if len(cur) < 3:
            return False
        syms = set()
        for i in cur:
            syms |= set(i.t)
        for s in sorted(syms, key=lambda x: sum(1 for i in cur if x in i.t)):
            pos = [i for i in cur if i.t.get(s, 0) > 0]
            neg = [i for i in cur if i.t.get(s, 0) < 0]
            rest = [i for i in cur if s not in i.t]
            if len(pos) * len(neg) + len(rest) > cap:
                return False
            seen = {i.key() for i in rest}
            for p in pos:
                for n in neg:
                    # p: a*s + P >= 0 (a>0), n: -b*s + Q >= 0 (b>0)  =>  b*P + a*Q >= 0
                    a, b = p.t[s], -n.t[s]
                    c = p.scale(b) + n.scale(a)
                    if not c.t:
                        if c.c < 0:
                            return True
                        continue
                    k = c.key()
                    if k not in seen:
                        seen.add(k)
                        rest.append(c)
            cur = rest
        return False

    def entails_ineq_fm(self, e):
        """e >= 0 by refutation: the state together with e <= -1 is contradictory (integers)"""
        if self.entails_ineq(e):
            return True
        s2 = self.copy()
        s2.add_ineq(-e - Lin.const(1))
        return s2.bottom or s2.infeasible(cap=300)

    def dead(self):
        """a stronger emptiness test, used before a state is recorded: Fourier-Motzkin with a larger budget; a
        disequality whose difference is forced to zero by two opposite inequalities; implied equalities that
        contradict an excluded value"""
        if self.bottom or self.infeasible(cap=300):
            return True
        for d in self.neq:
            r = self.reduce(d)
            if not r.t:
                if r.c == 0:
                    return True
                continue
            if self.entails_ineq_fm(r) and self.entails_ineq_fm(-r):
                return True
        return self.enum_conflict()

    def enum_conflict(self):
        """two locations that the equalities identify (x - y = 0) cannot hold different members of a finite value set:
        the intersection of the value sets of every such class must be inhabited"""
        parent = {}

        def find(x):
            while parent.get(x, x) != x:
                parent[x] = parent.get(parent[x], parent[x])
                x = parent[x]
            return x
        linked = False
        for row in self.rows.values():
            if row.c == 0 and len(row.t) == 2:
                (a, ca), (b, cb) = row.t.items()
                if ca + cb == 0 and abs(ca) == 1:
                    parent[find(a)] = find(b)
                    linked = True
        if not linked:
            return False
        classes = {}
        for x in list(parent) + [v for v in parent.values()]:
            classes.setdefault(find(x), set()).add(x)
        for members in classes.values():
            allowed, excluded = None, set()
            for m in members:
                e = self.enums.get(m)
                if not e:
                    continue
                if e[0] == "in":
                    allowed = set(e[1]) if allowed is None else (allowed & set(e[1]))
                else:
                    excluded |= set(e[1])
            if allowed is not None and not (allowed - excluded):
                return True
        return False

    def lower_bound(self, e):
        """largest constant c found with e >= c entailed, or None"""
        r = self.reduce(e)
        if not r.t:
            return r.c
        best = None
        rk = r.t
        for i in self.ineq:
            it = i.t
            if len(it) == len(rk) and all(it.get(k) == v for k, v in rk.items()):
                d = r.c - i.c
                best = d if best is None else max(best, d)
        return best

    # ------------------------------------------------------------ projection / assignment
    def forget(self, s):
        """project symbol s out (equalities exactly, inequalities by dropping)"""
        rows = self.rows
        if s in rows:
            row = rows.pop(s)
            if any(s in i.t for i in self.ineq):
                expr = -(row - Lin.sym(s))
                self.ineq = [i.subst(s, expr) for i in self.ineq]
                self._renorm_ineq()
            return
        if self.neq:
            self._forget_neq(s)
        holder = None
        for p, r in rows.items():
            if s in r.t:
                holder = p
                break
        if holder is None:
            if self.ineq:
                self.ineq = [i for i in self.ineq if s not in i.t]
            return
        r = rows.pop(holder)
        a = r.t[s]
        expr = (r - Lin._mk({s: a}, 0)).scale(_div(-1, a))
        for q in list(rows):
            if s in rows[q].t:
                rows[q] = rows[q].subst(s, expr)
        # rows stay in echelon form: holder was a pivot (absent elsewhere), and
        # the substituted expression only mentions holder and non-pivots
        # except that `holder` now appears in other rows as a plain symbol: fine.
        if self.ineq:
            self.ineq = [i.subst(s, expr) for i in self.ineq]
            self._renorm_ineq()

    def _forget_neq(self, s):
        """called before s is eliminated: rewrite disequalities through a row
        that defines s, otherwise drop those mentioning s"""
        holder = None
        for p, r in self.rows.items():
            if s in r.t:
                holder = r
                break
        out = []
        for d in self.neq:
            if s not in d.t:
                out.append(d)
            elif holder is not None:
                a = holder.t[s]
                expr = (holder - Lin._mk({s: a}, 0)).scale(_div(-1, a))
                out.append(d.subst(s, expr))
        self.neq = out

    def forget_all(self, s):
        self.forget(s)
        self.enums.pop(s, None)

    def assign(self, x, e):
        """x := e  (e may mention x)"""
        f = e.t.get(x)
        if not f:
            self.forget(x)
            self.add_eq(Lin.sym(x) - e)
            return
        # invertible: x_old = (x_new - rest)/f
        rest = Lin._mk({k: v for k, v in e.t.items() if k != x}, e.c)
        inv = (Lin.sym(x) - rest).scale(_div(1, f))
        old_rows = list(self.rows.values())
        old_ineq = self.ineq
        old_neq = self.neq
        self.rows = {}
        self.ineq = []
        self.neq = []
        for r in old_rows:
            self.add_eq(r.subst(x, inv))
        for i in old_ineq:
            self.add_ineq(i.subst(x, inv))
        for d in old_neq:
            self.add_neq(d.subst(x, inv))

    def eqs(self):
        return list(self.rows.values())

    def symbols(self):
        s = set()
        for r in self.rows.values():
            s |= r.syms()
        for i in self.ineq:
            s |= i.syms()
        for d in self.neq:
            s |= d.syms()
        return s


def join(a, b):
    if a is None or a.bottom:
        return None if b is None else b.copy()
    if b is None or b.bottom:
        return a.copy()
    out = State()
    # ---- equalities entailed by both: intersection of the two row spaces.
    # Rows that are identical on both sides are kept as they are (their pivots
    # occur in no other row, so the intersection splits); the general Karr join
    # runs on the remaining rows only.
    common = {}
    ra, rb = [], []
    for p, r in a.rows.items():
        q = b.rows.get(p)
        if q is not None and q.t == r.t and q.c == r.c:
            common[p] = r
        else:
            ra.append(r)
    for p, r in b.rows.items():
        if p not in common:
            rb.append(r)
    out.rows = common
    if ra and rb:
        syms = sorted(set().union(*(r.t.keys() for r in ra), *(r.t.keys() for r in rb)))
        idx = {s: i for i, s in enumerate(syms)}
        n = len(syms) + 1

        def vec(l):
            v = [0] * n
            for k, c in l.t.items():
                v[idx[k]] = c
            v[-1] = l.c
            return v
        RA = [vec(r) for r in ra]
        RB = [vec(r) for r in rb]
        M = RA + [[-c for c in r] for r in RB]
        m = len(M)
        rows = [[Fr(M[j][i]) for j in range(m)] for i in range(n)]
        piv = []
        rr = 0
        for c in range(m):
            p = None
            for i in range(rr, n):
                if rows[i][c] != 0:
                    p = i
                    break
            if p is None:
                continue
            rows[rr], rows[p] = rows[p], rows[rr]
            f = rows[rr][c]
            if f != 1:
                rows[rr] = [v / f for v in rows[rr]]
            prow = rows[rr]
            for i in range(n):
                if i != rr:
                    g = rows[i][c]
                    if g != 0:
                        rows[i] = [x - g * y if y else x for x, y in zip(rows[i], prow)]
            piv.append(c)
            rr += 1
        pivset = set(piv)
        for fcol in range(m):
            if fcol in pivset:
                continue
            z = [0] * m
            z[fcol] = 1
            for i, pc in enumerate(piv):
                z[pc] = -rows[i][fcol]
            v = [0] * n
            for j in range(len(RA)):
                if z[j] != 0:
                    zj = z[j]
                    v = [x + zj * y if y else x for x, y in zip(v, RA[j])]
            l = Lin({syms[i]: v[i] for i in range(n - 1) if v[i] != 0}, v[-1])
            if l.t:
                out.add_eq(l)
    # ---- inequalities
    for x, y in ((a, b), (b, a)):
        for i in x.ineq:
            if y.entails_ineq(i):
                out.add_ineq(i)
            else:
                # interval-style weakening: y |= i >= c with c < 0  =>  both |= i - c >= 0
                c = y.lower_bound(i)
                if c is not None and c < 0:
                    out.add_ineq(i - Lin.const(c))
        # an equality of x that y only satisfies as an inequality
        if y.ineq:
            for row in x.eqs():
                if out.entails_eq(row) == "yes":
                    continue
                for e in (row, -row):
                    c = y.lower_bound(e)
                    if c is not None and c >= 0:
                        out.add_ineq(e)
    # ---- conditional facts: those present on both sides
    kb = {repr(c) for c in b.cond}
    out.cond = [c for c in a.cond if repr(c) in kb]
    # ---- disequalities
    for x, y in ((a, b), (b, a)):
        for d in x.neq:
            if y.entails_neq(d):
                out.add_neq(d)
    # ---- enums
    for s in set(a.enums) & set(b.enums):
        (ka, sa), (kb, sb) = a.enums[s], b.enums[s]
        if ka == "in" and kb == "in":
            out.enums[s] = ("in", sa | sb)
        elif ka == "notin" and kb == "notin":
            if sa & sb:
                out.enums[s] = ("notin", sa & sb)
        else:
            ins, nots = (sa, sb) if ka == "in" else (sb, sa)
            if nots - ins:
                out.enums[s] = ("notin", nots - ins)
    for k in set(a.may) | set(b.may):
        out.may[k] = a.may.get(k, frozenset()) | b.may.get(k, frozenset())
    return out


def same(a, b):
    if a is None or b is None:
        return a is b
    if set(a.rows) != set(b.rows):
        return False
    for p in a.rows:
        if a.rows[p].key() != b.rows[p].key():
            return False
    if a.enums != b.enums or a.may != b.may:
        return False
    if sorted(map(repr, a.cond)) != sorted(map(repr, b.cond)):
        return False
    if sorted(d.key() for d in a.neq) != sorted(d.key() for d in b.neq):
        # the same disequality may be stored with either sign
        ka = {min(d.key(), (-d).key()) for d in a.neq}
        kb = {min(d.key(), (-d).key()) for d in b.neq}
        if ka != kb:
            return False
    return sorted(i.key() for i in a.ineq) == sorted(i.key() for i in b.ineq)


def widen(old, new):
    """new, keeping only those inequalities of old that new still entails
    (applied after a few loop iterations so that chains terminate)."""
    if old is None or new is None:
        return new
    out = new.copy()
    out.ineq = []
    for i in old.ineq:
        if new.entails_ineq(i):
            out.add_ineq(i)
    out.neq = []
    for d in old.neq:
        if new.entails_neq(d):
            out.add_neq(d)
    ko = {repr(c) for c in old.cond}
    out.cond = [c for c in new.cond if repr(c) in ko]
    return out
