"""GRAM: operation-sequence grammar of hrevolve_sequences.

Every builder (`revolve`, `disk_revolve`, `periodic_disk_revolve`,
`hrevolve_aux`, `hrevolve_recurse`, `revolve_1d`) is abstracted into the
items it appends to its `Sequence`:
    Op(type, index expression)                 sequence.insert(operation(T, idx))
    Call(builder, args, shift, strip)          sequence.insert_sequence(f(...)[.shift(k)][.remove_useless_wm()])
grouped into *runs* (maximal lists of consecutive items of one basic block).
Quick-tier rules are production-local (inside one run); the thorough tier
computes FIRST/LAST/adjacent-pair sets by fixpoint over the grammar.
"""
import ast

from .constprop import Liveness, SEQ
from .karr import Lin


def lin_of(node):
    """linear normal form over names of an index expression, or None"""
    if isinstance(node, ast.Constant) and isinstance(node.value, int) and not isinstance(node.value, bool):
        return Lin.const(node.value)
    if isinstance(node, ast.Name):
        return Lin.sym(node.id)
    if isinstance(node, ast.UnaryOp) and isinstance(node.op, ast.USub):
        v = lin_of(node.operand)
        return None if v is None else -v
    if isinstance(node, ast.BinOp):
        a, b = lin_of(node.left), lin_of(node.right)
        if a is None or b is None:
            return None
        if isinstance(node.op, ast.Add):
            return a + b
        if isinstance(node.op, ast.Sub):
            return a - b
        if isinstance(node.op, ast.Mult):
            if a.is_const():
                return b.scale(a.c)
            if b.is_const():
                return a.scale(b.c)
    return None


class Op:
    kind = "op"

    def __init__(self, fname, rel, node, type_, idx):
        self.fname, self.rel, self.node, self.type, self.idx = fname, rel, node, type_, idx
        self.ordinal = -1
        self.live = True
        self.run = None
        self.pos = -1

    @property
    def construct(self):
        return f"{self.rel[:-3].replace('/', '.')}.{self.fname}#insert-{self.type}[{self.ordinal}]"

    def level_step(self):
        """(level Lin|None, step Lin|None) of a checkpoint-like op index"""
        if isinstance(self.idx, ast.List) and len(self.idx.elts) == 2:
            return lin_of(self.idx.elts[0]), lin_of(self.idx.elts[1])
        return None, lin_of(self.idx)

    def span(self):
        """(from, to) Lin of a Forward/Backward index"""
        if isinstance(self.idx, ast.List) and len(self.idx.elts) == 2:
            return lin_of(self.idx.elts[0]), lin_of(self.idx.elts[1])
        return None, None

    def __repr__(self):
        return f"{self.type}{ast.unparse(self.idx)}"


class Call:
    kind = "call"

    def __init__(self, fname, rel, node, callee, call, shift, strip):
        self.fname, self.rel, self.node = fname, rel, node
        self.callee, self.call, self.shift, self.strip = callee, call, shift, strip
        self.live = True
        self.ordinal = -1
        self.run = None
        self.pos = -1

    @property
    def construct(self):
        return f"{self.rel[:-3].replace('/', '.')}.{self.fname}#call-{self.callee}[{self.ordinal}]"

    def __repr__(self):
        return f"<{self.callee}({', '.join(ast.unparse(a) for a in self.call.args[:3])})" + \
            (f">>{ast.unparse(self.shift)}" if self.shift is not None else "") + ">"


def _parse_item(fname, rel, s, opnames, seqnames):
    """statement -> Op | Call | None"""
    if not (isinstance(s, ast.Expr) and isinstance(s.value, ast.Call)):
        return None
    c = s.value
    if not (isinstance(c.func, ast.Attribute) and isinstance(c.func.value, ast.Name)
            and c.func.value.id in seqnames and len(c.args) == 1):
        return None
    a = c.args[0]
    if c.func.attr == "insert":
        if isinstance(a, ast.Call) and isinstance(a.func, ast.Name) and a.func.id in opnames \
                and len(a.args) >= 2 and isinstance(a.args[0], ast.Constant):
            return Op(fname, rel, s, a.args[0].value, a.args[1])
        return None
    if c.func.attr == "insert_sequence":
        shift, strip = None, False
        cur = a
        while isinstance(cur, ast.Call) and isinstance(cur.func, ast.Attribute):
            if cur.func.attr == "shift" and cur.args:
                shift = cur.args[0]
            elif cur.func.attr == "remove_useless_wm":
                strip = True
            else:
                return None
            cur = cur.func.value
        if isinstance(cur, ast.Call) and isinstance(cur.func, ast.Name):
            return Call(fname, rel, s, cur.func.id, cur, shift, strip)
    return None


class Builder:
    def __init__(self, fname, rel, fn, live_fn):
        self.fname, self.rel, self.fn, self.live = fname, rel, fn, live_fn
        self.runs = []       # list of (guard_path, [items])
        self.items = []


class Grammar:
    def __init__(self, repo):
        self.repo = repo
        self.liveness = Liveness(repo)
        self.builders = {}
        for fname, (rel, fn) in sorted(self.liveness.funcs.items()):
            seqnames, opnames = set(), set()
            for n in ast.walk(fn):
                if isinstance(n, ast.Assign) and len(n.targets) == 1 and isinstance(n.targets[0], ast.Name) \
                        and isinstance(n.value, ast.Call) and isinstance(n.value.func, ast.Name):
                    if n.value.func.id == "Sequence":
                        seqnames.add(n.targets[0].id)
                    if n.value.func.id == "partial" and n.value.args and \
                            isinstance(n.value.args[0], ast.Name) and n.value.args[0].id in ("Op", "Operation"):
                        opnames.add(n.targets[0].id)
            if not seqnames:
                continue
            opnames |= {"Op", "Operation"}
            b = Builder(fname, rel, fn, self.liveness.is_live(fname))
            self._collect(b, fn.body, seqnames, opnames, ())
            b.opaque = self._opaque(b, seqnames, opnames - {"Op", "Operation"})
            counts = {}
            for it in b.items:
                key = (it.kind, it.type if it.kind == "op" else it.callee)
                it.ordinal = counts.get(key, 0)
                counts[key] = it.ordinal + 1
                it.live = b.live and id(it.node) not in self.liveness.dead_nodes
            self.builders[fname] = b
        # make sure dead-node marking has been computed for non-live functions too
        for fname in self.builders:
            if fname not in self.liveness.live_funcs:
                pass

    def _opaque(self, b, seqnames, opnames):
        """uses of the sequence object / the operation factory that the grammar extraction does not follow: the
        sequence handed to another function or method, an operation built but not inserted directly, an insert of
        something that is not `operation(<literal type>, index)`.  What such a construct appends is unknown, so no
        rule may refute from the *absence* or the *adjacency* of items of this builder."""
        parsed = {id(it.node) for it in b.items}
        out = []
        dead = self.liveness.dead_nodes

        def visit(stmts):
            for s in stmts:
                if id(s) in dead:
                    continue
                if id(s) in parsed:
                    continue
                if isinstance(s, ast.Return) and isinstance(s.value, ast.Name) and s.value.id in seqnames:
                    continue
                if isinstance(s, (ast.If, ast.For, ast.While, ast.With, ast.Try)):
                    heads = [getattr(s, "test", None), getattr(s, "iter", None)]
                    for h in heads:
                        if h is not None:
                            check(h, s)
                    for fld in ("body", "orelse", "finalbody"):
                        visit(getattr(s, fld, []) or [])
                    for h in getattr(s, "handlers", []):
                        visit(h.body)
                    continue
                if isinstance(s, ast.Assign) and len(s.targets) == 1 and isinstance(s.targets[0], ast.Name) \
                        and s.targets[0].id in (seqnames | opnames):
                    continue            # the defining assignments
                check(s, s)

        parent = {}
        for n in ast.walk(b.fn):
            for c in ast.iter_child_nodes(n):
                parent[id(c)] = n

        def read_only(x):
            """a load of the sequence object (or of a read-only alias) that only inspects it: `x.attr`, `x.attr[k]`,
            compared or assigned on, never called, never passed on"""
            p_ = parent.get(id(x))
            if isinstance(p_, ast.Attribute) and isinstance(p_.ctx, ast.Load):
                pp = parent.get(id(p_))
                if isinstance(pp, ast.Call) and pp.func is p_:
                    return False
                return True
            return False
        # read-only aliases: `a = sequence` / `a = a.sequence[-1]` where every load of `a` only inspects it
        aliases = set()
        for n in ast.walk(b.fn):
            if isinstance(n, ast.Assign) and len(n.targets) == 1 and isinstance(n.targets[0], ast.Name) \
                    and isinstance(n.value, ast.Name) and n.value.id in seqnames:
                a = n.targets[0].id
                loads = [x for x in ast.walk(b.fn) if isinstance(x, ast.Name) and x.id == a and isinstance(x.ctx, ast.Load)]
                if all(read_only(x) for x in loads):
                    aliases.add(a)

        def check(node, stmt):
            if isinstance(stmt, ast.Assign) and len(stmt.targets) == 1 and isinstance(stmt.targets[0], ast.Name) \
                    and stmt.targets[0].id in aliases:
                return
            for x in ast.walk(node):
                if isinstance(x, ast.Name) and isinstance(x.ctx, ast.Load) and x.id in seqnames:
                    if read_only(x):
                        continue
                    out.append((getattr(stmt, "lineno", 0), f"the sequence object `{x.id}` is used in `"
                                + " ".join(ast.unparse(stmt).split())[:70] + "`, which the grammar extraction does not follow"))
                    return
                if isinstance(x, ast.Name) and isinstance(x.ctx, ast.Load) and x.id in opnames:
                    out.append((getattr(stmt, "lineno", 0), f"an operation is built in `"
                                + " ".join(ast.unparse(stmt).split())[:70] + "` but not inserted there"))
                    return
        visit(b.fn.body)
        return out

    def taint(self):
        """construct prefix -> reasons, for builders with constructs outside the extracted fragment"""
        out = {}
        for f, b in self.builders.items():
            if b.live and b.opaque:
                out[f"{b.rel[:-3].replace('/', '.')}.{f}"] = list(b.opaque[:4])
        return out

    def _collect(self, b, stmts, seqnames, opnames, path):
        run = []

        def flush():
            nonlocal run
            if run:
                for i, it in enumerate(run):
                    it.run, it.pos = run, i
                b.runs.append((path, run))
            run = []
        for s in stmts:
            it = _parse_item(b.fname, b.rel, s, opnames, seqnames)
            if it is not None:
                run.append(it)
                b.items.append(it)
                continue
            flush()
            if isinstance(s, ast.If):
                self._collect(b, s.body, seqnames, opnames, path + ((s, True),))
                self._collect(b, s.orelse, seqnames, opnames, path + ((s, False),))
            elif isinstance(s, (ast.For, ast.While)):
                self._collect(b, s.body, seqnames, opnames, path + ((s, "loop"),))
        flush()

    def ops(self, live_only=True):
        for b in self.builders.values():
            for it in b.items:
                if it.kind == "op" and (it.live or not live_only):
                    yield b, it

    def calls(self, live_only=True):
        for b in self.builders.values():
            for it in b.items:
                if it.kind == "call" and (it.live or not live_only):
                    yield b, it


def reachable(g, entry):
    """live builders reachable from an entry-point builder through live calls"""
    seen, todo = set(), [entry]
    lv = g.liveness
    while todo:
        f = todo.pop()
        if f in seen or f not in lv.funcs:
            continue
        seen.add(f)
        for node in lv.live_walk(f):
            if isinstance(node, ast.Call) and isinstance(node.func, ast.Name) and node.func.id in lv.funcs:
                todo.append(node.func.id)
    return seen


def alphabet(g, entry):
    """operation types that can appear in the sequence built by `entry`"""
    out = set()
    for f in reachable(g, entry):
        b = g.builders.get(f)
        if b:
            out |= {it.type for it in b.items if it.kind == "op" and it.live}
    return out


def diff_const(a, b):
    """a - b as a constant, or None if not constant / not linear"""
    if a is None or b is None:
        return None
    d = a - b
    return d.c if d.is_const() else None


# ---------------------------------------------------------------------------
# thorough-tier grammar analyses (fixpoints over the production structure)

def _parse(b, s, g):
    """statement -> Op | Call | None, re-using the builder's collected items"""
    for it in b.items:
        if it.node is s:
            return it
    return None


def production_paths(g, fname, max_paths=64):
    """all live item sequences of a builder, one per path through its (constant-
    propagated) control flow up to a `return`; loops contribute their body once
    (marked), unknown tests fork.  -> list of (conds, [items])"""
    b = g.builders[fname]
    lv = g.liveness
    out = []

    def walk(stmts, items, conds):
        for i, s in enumerate(stmts):
            if id(s) in lv.dead_nodes:
                continue
            it = _parse(b, s, g)
            if it is not None:
                items = items + [it]
                continue
            if isinstance(s, ast.Return):
                out.append((conds, items))
                return None
            if isinstance(s, ast.Raise):
                return None
            if isinstance(s, ast.If):
                env, dn = lv.env_of(fname)
                from .constprop import ev_const, UNKNOWN
                v = ev_const(s.test, env, dn, lv.lit)
                rest = stmts[i + 1:]
                if v is UNKNOWN:
                    for branch, tag in ((s.body, True), (s.orelse, False)):
                        r = walk(list(branch) + list(rest), items, conds + ((s, tag),))
                    return None
                branch = s.body if v else s.orelse
                return walk(list(branch) + list(rest), items, conds)
            if isinstance(s, (ast.For, ast.While)):
                inner = []
                for x in ast.walk(s):
                    pass
                # loop body once, flagged
                body_items = []
                for st in s.body:
                    bi = _parse(b, st, g)
                    if bi is not None:
                        body_items.append(bi)
                    elif isinstance(st, ast.If):
                        for st2 in st.body:
                            bi2 = _parse(b, st2, g)
                            if bi2 is not None:
                                body_items.append(bi2)
                if body_items:
                    items = items + [("loop", s, body_items)]
                continue
        out.append((conds, items))
        return None
    walk(list(b.fn.body), [], ())
    # forks on tests that guard no item give identical item lists: keep one of each
    seen, uniq = set(), []
    for conds, items in out:
        k = tuple(id(x) if not isinstance(x, tuple) else ("loop", id(x[1])) for x in items)
        if k not in seen:
            seen.add(k)
            uniq.append((conds, items))
    return uniq[:max_paths]


def ends_at_origin(g):
    """builder -> True if every live production ends (ignoring trailing Discard*
    operations) with the quartet reversing step [1, 0] or with an unshifted call
    to a builder that does; None = not decided"""
    res = {f: True for f in g.builders if g.builders[f].live}
    why = {}
    changed = True
    rounds = 0
    while changed and rounds < 10:
        changed = False
        rounds += 1
        for f in list(res):
            ok = True
            for conds, items in production_paths(g, f):
                tail = [x for x in items]
                while tail and not isinstance(tail[-1], tuple) and tail[-1].kind == "op" and tail[-1].type.startswith("Discard") \
                        and not tail[-1].type.startswith("Discard_Forward"):
                    tail = tail[:-1]
                if not tail:
                    ok, why[f] = None, "empty production"
                    break
                last = tail[-1]
                if isinstance(last, tuple):
                    # a loop at the end: periodic read loop; its body must end at the loop position 0 on the last iteration
                    body = last[2]
                    lc = [x for x in body if x.kind == "call"]
                    if lc and res.get(lc[-1].callee) is True:
                        continue
                    ok, why[f] = None, "production ends with a loop"
                    break
                if last.kind == "call":
                    sh = lin_of(last.shift) if last.shift is not None else Lin.const(0)
                    if res.get(last.callee) is True and sh is not None and sh.is_const() and sh.c == 0:
                        continue
                    if res.get(last.callee) is True and sh is not None:
                        maybe_ = id(last.node) in g.liveness.maybe_nodes
                        ok, why[f] = (None if maybe_ else False), f"last inserted sequence {last!r} is shifted by {sh}"
                        break
                    ok, why[f] = res.get(last.callee), f"last item {last!r}"
                    break
                # op: must be Discard_Forward k preceded by Backward [1,0]
                if last.type.startswith("Discard_Forward") and len(tail) >= 2 and tail[-2].kind == "op" and tail[-2].type == "Backward":
                    a, z = tail[-2].span()
                    if z is not None and z.is_const() and z.c == 0 and a is not None and a.is_const() and a.c == 1:
                        continue
                    maybe_ = id(tail[-2].node) in g.liveness.maybe_nodes
                    ok, why[f] = (None if maybe_ else False), f"last Backward is {tail[-2]!r}, not [1, 0]" + \
                        (" [not definite: this production sits under a branch that may be dead]" if maybe_ else "")
                    break
                ok, why[f] = None, f"production ends with {last!r}"
                break
            if res[f] is not ok:
                res[f] = ok
                changed = True
    return res, why


# ---------------------------------------------------------------------------
# positions of operations inside the built sequences

INF = float("inf")


def min_first_index(g, types):
    """builder -> (lower bound of the index, inside the sequence the builder returns, of the first operation
    whose type is in `types`; witness) for every live builder.  The bound is the least fixpoint of
    `min over production paths`; a loop may run zero times and a called builder may contain no such
    operation, so both only lower the bound.  witness = (conds, items, exact): the production attaining the
    bound; exact is True when no loop and no call precedes the operation on it (its index is then the bound
    itself, not merely bounded by it)."""
    live = [f for f in g.builders if g.builders[f].live]
    paths = {f: production_paths(g, f) for f in live}
    minlen = {f: INF for f in live}
    changed = True
    while changed:
        changed = False
        for f in live:
            best = INF
            for _, items in paths[f]:
                n = 0
                for x in items:
                    if isinstance(x, tuple):
                        continue
                    n += 1 if x.kind == "op" else minlen.get(x.callee, 0)
                best = min(best, n)
            if best < minlen[f]:
                minlen[f], changed = best, True
    first = {f: (INF, None) for f in live}
    changed = True
    while changed:
        changed = False
        for f in live:
            best = first[f]
            for conds, items in paths[f]:
                pos, exact = 0, True
                for x in items:
                    if isinstance(x, tuple):
                        for o, y in enumerate(x[2]):
                            if y.kind == "op" and y.type in types and pos + o < best[0]:
                                best = (pos + o, (conds, items, False))
                        exact = False
                        continue
                    if x.kind == "op":
                        if x.type in types:
                            if pos < best[0]:
                                best = (pos, (conds, items, exact))
                            break
                        pos += 1
                        continue
                    sub = first.get(x.callee, (0, None))[0]
                    if pos + sub < best[0]:
                        best = (pos + sub, (conds, items, False))
                    pos += minlen.get(x.callee, 0)
                    exact = False
            if best[0] < first[f][0]:
                first[f], changed = best, True
    return first
