"""LOAD: parse the package under analysis and resolve anchors.

The repository is only *parsed* (ast); it is never imported or executed.
A vanished anchor raises AnchorMissing, which the driver maps to exit 2
(analysis broken), never to a silent pass.
"""
import ast
import hashlib
import os

PKG = "checkpoint_schedules"


class AnchorMissing(Exception):
    pass


class Module:
    def __init__(self, rel, path):
        self.rel, self.path = rel, path
        with open(path, "rb") as f:
            raw = f.read()
        self.sha256 = hashlib.sha256(raw).hexdigest()
        self.src = raw.decode("utf-8")
        self.tree = ast.parse(self.src, filename=path)

    @property
    def name(self):
        return self.rel[:-3].replace("/", ".")


class Repo:
    def __init__(self, root=None):
        self.root = root or os.environ.get("VERIF_REPO", "/repo")
        self.pkg = os.path.join(self.root, PKG)
        if not os.path.isdir(self.pkg):
            raise AnchorMissing(f"package directory {self.pkg} not found")
        self.modules = {}
        for d, _, files in sorted(os.walk(self.pkg)):
            for f in sorted(files):
                if f.endswith(".py"):
                    p = os.path.join(d, f)
                    rel = os.path.relpath(p, self.pkg)
                    self.modules[rel] = Module(rel, p)
        self.expanded_properties = []
        self.synthesised_properties = []
        self.inlined_helpers = []
        self.split_locals = []
        self.desugared = []
        self._desugar()
        self._named_tuples()
        self._dict_views()
        self._inline_helpers()
        self._split_conditional_locals()
        self.substituted_locals = []
        self._substitute_block_locals()
        self._split_ifexp_statements()
        self._split_parallel_assignments()
        self.seqnorm_abandoned = []
        from .seqnorm import normalise_builders
        self.seqnorm = normalise_builders(self)
        if self.seqnorm:
            # the residual bodies may contain conditional expressions / locals that the passes above normalise
            self._split_conditional_locals()
            self._substitute_block_locals()
            self._split_ifexp_statements()
        self._synthesise_properties()
        self._expand_properties()

    # ---- normalisation
    def _named_tuples(self):
        """NORM: named tuples are tuples.  `T = namedtuple("T", fields, defaults=...)` / `class T(NamedTuple)` defined at
        module level: inside that module a construction `T(a, b, ...)` (positional / keyword, defaults filled in) becomes
        the tuple display `(a, b, ...)`, and an attribute read `<expr>.field` on anything but `self` / a module becomes
        `<expr>[k]`.  Done only when the field names are not attributes of anything else the module reads that way."""
        import copy
        for rel, m in self.modules.items():
            types = {}
            for n in m.tree.body:
                if isinstance(n, ast.Assign) and len(n.targets) == 1 and isinstance(n.targets[0], ast.Name) \
                        and isinstance(n.value, ast.Call) and getattr(n.value.func, "id", getattr(n.value.func, "attr", None)) == "namedtuple" \
                        and len(n.value.args) >= 2:
                    f = n.value.args[1]
                    fields = None
                    if isinstance(f, (ast.Tuple, ast.List)) and all(isinstance(x, ast.Constant) and isinstance(x.value, str) for x in f.elts):
                        fields = [x.value for x in f.elts]
                    elif isinstance(f, ast.Constant) and isinstance(f.value, str):
                        fields = f.value.replace(",", " ").split()
                    if fields is None:
                        continue
                    defaults = []
                    for k in n.value.keywords:
                        if k.arg == "defaults" and isinstance(k.value, (ast.Tuple, ast.List)):
                            defaults = list(k.value.elts)
                    types[n.targets[0].id] = (fields, dict(zip(fields[len(fields) - len(defaults):], defaults)))
                elif isinstance(n, ast.ClassDef) and any(getattr(b, "id", getattr(b, "attr", None)) == "NamedTuple" for b in n.bases):
                    fields, defaults, ok = [], {}, True
                    for b in n.body:
                        if isinstance(b, ast.AnnAssign) and isinstance(b.target, ast.Name):
                            fields.append(b.target.id)
                            if b.value is not None:
                                defaults[b.target.id] = b.value
                        elif isinstance(b, ast.Assign) and len(b.targets) == 1 and isinstance(b.targets[0], ast.Name):
                            fields.append(b.targets[0].id)      # annotation already removed by _desugar
                            defaults[b.targets[0].id] = b.value
                        elif isinstance(b, ast.Expr) and isinstance(b.value, ast.Constant):
                            continue
                        else:
                            ok = False
                    if ok and fields:
                        types[n.name] = (fields, defaults)
            if not types:
                continue
            allfields = {}
            for tname, (fields, _) in types.items():
                for k, f in enumerate(fields):
                    allfields.setdefault(f, set()).add(k)
            unique = {f: next(iter(ks)) for f, ks in allfields.items() if len(ks) == 1}
            modnames = {a.asname or a.name.split(".")[0] for n in m.tree.body if isinstance(n, (ast.Import, ast.ImportFrom)) for a in n.names}
            repo = self

            class T(ast.NodeTransformer):
                def visit_Call(self, node):
                    self.generic_visit(node)
                    if isinstance(node.func, ast.Name) and node.func.id in types:
                        fields, defaults = types[node.func.id]
                        if any(isinstance(a, ast.Starred) for a in node.args) or any(k.arg is None for k in node.keywords) \
                                or len(node.args) > len(fields):
                            return node
                        vals = dict(zip(fields, node.args))
                        for k in node.keywords:
                            if k.arg not in fields or k.arg in vals:
                                return node
                            vals[k.arg] = k.value
                        elts = []
                        for f in fields:
                            if f in vals:
                                elts.append(vals[f])
                            elif f in defaults:
                                elts.append(copy.deepcopy(defaults[f]))
                            else:
                                return node
                        repo.desugared.append((rel, node.func.id, "named tuple"))
                        return ast.fix_missing_locations(ast.copy_location(ast.Tuple(elts, ast.Load()), node))
                    return node

                def visit_Attribute(self, node):
                    self.generic_visit(node)
                    if isinstance(node.ctx, ast.Load) and node.attr in unique and not (
                            isinstance(node.value, ast.Name) and (node.value.id in ("self", "cls") or node.value.id in modnames
                                                                  or node.value.id in types)):
                        return ast.fix_missing_locations(ast.copy_location(
                            ast.Subscript(node.value, ast.Constant(unique[node.attr]), ast.Load()), node))
                    return node
            for n in m.tree.body:
                if isinstance(n, (ast.FunctionDef, ast.ClassDef)) and n.name not in types:
                    T().visit(n)

    def _dict_views(self):
        """NORM: other spellings of a read of a dictionary entry are rewritten to `D["k"]`:
        `a, b = itemgetter("k1", "k2")(D)` -> `a = D["k1"]; b = D["k2"]`, and attribute reads `ns.k` of a local
        `ns = SimpleNamespace(**D)` (bound once, used only through attribute reads, D not written in the function)."""
        repo = self

        def written(fn, name):
            for n in ast.walk(fn):
                if isinstance(n, ast.Subscript) and isinstance(n.ctx, (ast.Store, ast.Del)) and isinstance(n.value, ast.Name) \
                        and n.value.id == name:
                    return True
                if isinstance(n, ast.Call) and isinstance(n.func, ast.Attribute) and isinstance(n.func.value, ast.Name) \
                        and n.func.value.id == name and n.func.attr in ("update", "pop", "setdefault", "clear", "popitem"):
                    return True
            return False

        def rewrite_itemgetter(stmts, rel, fname):
            out = []
            for s_ in stmts:
                for fld in ("body", "orelse", "finalbody"):
                    if isinstance(getattr(s_, fld, None), list) and not isinstance(s_, (ast.FunctionDef, ast.ClassDef)):
                        setattr(s_, fld, rewrite_itemgetter(getattr(s_, fld), rel, fname))
                v = getattr(s_, "value", None)
                if isinstance(s_, ast.Assign) and len(s_.targets) == 1 and isinstance(v, ast.Call) and isinstance(v.func, ast.Call) \
                        and isinstance(v.func.func, ast.Name) and v.func.func.id == "itemgetter" and len(v.args) == 1 \
                        and isinstance(v.args[0], ast.Name) and not v.keywords and v.func.args \
                        and all(isinstance(a, ast.Constant) and isinstance(a.value, str) for a in v.func.args):
                    keys = [a.value for a in v.func.args]
                    tg = s_.targets[0]
                    names = [tg] if (len(keys) == 1 and isinstance(tg, ast.Name)) else (list(tg.elts) if isinstance(tg, ast.Tuple) else [])
                    if len(names) == len(keys) and all(isinstance(x, ast.Name) for x in names):
                        for nm, k in zip(names, keys):
                            new = ast.Assign([ast.Name(nm.id, ast.Store())], ast.Subscript(ast.Name(v.args[0].id, ast.Load()),
                                                                                         ast.Constant(k), ast.Load()))
                            ast.copy_location(new, s_)
                            ast.fix_missing_locations(new)
                            out.append(new)
                        repo.desugared.append((rel, fname, "itemgetter"))
                        continue
                out.append(s_)
            return out

        for rel, m in self.modules.items():
            for F in ast.walk(m.tree):
                if not isinstance(F, ast.FunctionDef):
                    continue
                F.body = rewrite_itemgetter(F.body, rel, F.name)
                views = {}
                for n in ast.walk(F):
                    if isinstance(n, ast.Assign) and len(n.targets) == 1 and isinstance(n.targets[0], ast.Name) \
                            and isinstance(n.value, ast.Call) and isinstance(n.value.func, (ast.Name, ast.Attribute)) \
                            and getattr(n.value.func, "id", getattr(n.value.func, "attr", "")) == "SimpleNamespace" \
                            and not n.value.args and len(n.value.keywords) == 1 and n.value.keywords[0].arg is None \
                            and isinstance(n.value.keywords[0].value, ast.Name):
                        views.setdefault(n.targets[0].id, []).append((n, n.value.keywords[0].value.id))
                for ns, defs in views.items():
                    if len(defs) != 1:
                        continue
                    node, D = defs[0]
                    stores = [x for x in ast.walk(F) if isinstance(x, ast.Name) and x.id == ns and isinstance(x.ctx, (ast.Store, ast.Del))]
                    if len(stores) != 1 or written(F, D):
                        continue
                    dstores = [x for x in ast.walk(F) if isinstance(x, ast.Name) and x.id == D and isinstance(x.ctx, ast.Store)]
                    if len(dstores) > 1:
                        continue
                    loads = [x for x in ast.walk(F) if isinstance(x, ast.Name) and x.id == ns and isinstance(x.ctx, ast.Load)]
                    attrs = [x for x in ast.walk(F) if isinstance(x, ast.Attribute) and isinstance(x.value, ast.Name)
                             and x.value.id == ns and isinstance(x.ctx, ast.Load)]
                    if len(loads) != len(attrs):
                        continue        # the namespace itself escapes or is written through

                    class V(ast.NodeTransformer):
                        def visit_Attribute(self, x):
                            self.generic_visit(x)
                            if isinstance(x.value, ast.Name) and x.value.id == ns and isinstance(x.ctx, ast.Load):
                                return ast.copy_location(ast.Subscript(ast.Name(D, ast.Load()), ast.Constant(x.attr), ast.Load()), x)
                            return x
                    F.body = [V().visit(b) for b in F.body]
                    ast.fix_missing_locations(F)
                    repo.desugared.append((rel, F.name, f"namespace {ns}"))

    def _desugar(self):
        """NORM: surface syntax that means the same as a construct the analyses already follow is rewritten into it:
        annotated assignments (`x: T = e` -> `x = e`, a bare `x: T` is dropped), parameter/return annotations are
        removed, `match subject: case ...` over value / singleton / wildcard / or-patterns and tuples of those becomes
        an if/elif chain (the subject is evaluated once: only side-effect-free subjects are rewritten), and
        `v = <call>; yield v` where v is read nowhere else becomes `yield <call>`."""
        import copy
        repo = self

        def pure(e):
            return not any(isinstance(x, (ast.Call, ast.Yield, ast.YieldFrom, ast.Await, ast.NamedExpr, ast.Lambda))
                           for x in ast.walk(e))

        def pat_test(subj, pat):
            """pattern -> test expression, or None when the pattern binds names / is not in the fragment"""
            if isinstance(pat, ast.MatchValue):
                return ast.Compare(copy.deepcopy(subj), [ast.Eq()], [copy.deepcopy(pat.value)])
            if isinstance(pat, ast.MatchSingleton):
                return ast.Compare(copy.deepcopy(subj), [ast.Is()], [ast.Constant(pat.value)])
            if isinstance(pat, ast.MatchAs) and pat.pattern is None and pat.name is None:
                return ast.Constant(True)
            if isinstance(pat, ast.MatchOr):
                parts = [pat_test(subj, p_) for p_ in pat.patterns]
                if any(p_ is None for p_ in parts):
                    return None
                return ast.BoolOp(ast.Or(), parts)
            if isinstance(pat, ast.MatchSequence) and isinstance(subj, ast.Tuple) and len(subj.elts) == len(pat.patterns) \
                    and not any(isinstance(p_, ast.MatchStar) for p_ in pat.patterns):
                parts = [pat_test(e, p_) for e, p_ in zip(subj.elts, pat.patterns)]
                if any(p_ is None for p_ in parts):
                    return None
                parts = [p_ for p_ in parts if not (isinstance(p_, ast.Constant) and p_.value is True)]
                if not parts:
                    return ast.Constant(True)
                return parts[0] if len(parts) == 1 else ast.BoolOp(ast.And(), parts)
            return None

        def match_to_if(s_):
            if not pure(s_.subject):
                return None
            chain = []
            for c in s_.cases:
                t = pat_test(s_.subject, c.pattern)
                if t is None:
                    return None
                if c.guard is not None:
                    t = c.guard if (isinstance(t, ast.Constant) and t.value is True) else ast.BoolOp(ast.And(), [t, c.guard])
                chain.append((t, c.body))
            node = None
            for t, body in reversed(chain):
                if isinstance(t, ast.Constant) and t.value is True:
                    node = list(body)
                    continue
                new = ast.If(t, list(body), node if isinstance(node, list) else ([node] if node is not None else []))
                ast.copy_location(new, s_)
                node = new
            if isinstance(node, list):
                return node
            ast.fix_missing_locations(node)
            return [node]

        class Exprs(ast.NodeTransformer):
            """`(a, b) == (c, d)` -> `a == c and b == d` (`!=` -> or) for side-effect-free elements;
            `"k" in vars(self)` / `"k" in self.__dict__` -> `hasattr(self, "k")`"""
            def __init__(self, rel, fname):
                self.rel, self.fname = rel, fname

            def visit_Compare(self, node):
                self.generic_visit(node)
                if len(node.ops) != 1:
                    return node
                a, b, op = node.left, node.comparators[0], node.ops[0]
                if isinstance(op, (ast.Eq, ast.NotEq)) and isinstance(a, ast.Tuple) and isinstance(b, ast.Tuple) \
                        and len(a.elts) == len(b.elts) >= 1 and pure(a) and pure(b) \
                        and not any(isinstance(x, ast.Starred) for x in a.elts + b.elts):
                    parts = [ast.Compare(x, [type(op)()], [y]) for x, y in zip(a.elts, b.elts)]
                    new = parts[0] if len(parts) == 1 else ast.BoolOp(ast.And() if isinstance(op, ast.Eq) else ast.Or(), parts)
                    repo.desugared.append((self.rel, self.fname, "tuple comparison"))
                    return ast.fix_missing_locations(ast.copy_location(new, node))
                if isinstance(op, (ast.In, ast.NotIn)) and isinstance(a, ast.Constant) and isinstance(a.value, str):
                    obj = None
                    if isinstance(b, ast.Call) and isinstance(b.func, ast.Name) and b.func.id == "vars" and len(b.args) == 1 \
                            and isinstance(b.args[0], ast.Name):
                        obj = b.args[0]
                    elif isinstance(b, ast.Attribute) and b.attr == "__dict__" and isinstance(b.value, ast.Name):
                        obj = b.value
                    if obj is not None and obj.id == "self":
                        new = ast.Call(ast.Name("hasattr", ast.Load()), [obj, a], [])
                        if isinstance(op, ast.NotIn):
                            new = ast.UnaryOp(ast.Not(), new)
                        repo.desugared.append((self.rel, self.fname, "vars(self) membership"))
                        return ast.fix_missing_locations(ast.copy_location(new, node))
                return node

        def rewrite(stmts, rel, fname):
            out = []
            for s_ in stmts:
                for fld in ("body", "orelse", "finalbody"):
                    if hasattr(s_, fld) and isinstance(getattr(s_, fld), list) and not isinstance(s_, (ast.FunctionDef, ast.ClassDef)):
                        setattr(s_, fld, rewrite(getattr(s_, fld), rel, fname))
                if isinstance(s_, ast.Try):
                    for h in s_.handlers:
                        h.body = rewrite(h.body, rel, fname)
                if isinstance(s_, ast.Match):
                    for c in s_.cases:
                        c.body = rewrite(c.body, rel, fname)
                    r = match_to_if(s_)
                    if r is not None:
                        repo.desugared.append((rel, fname, "match"))
                        out.extend(r)
                        continue
                if isinstance(s_, ast.AnnAssign) and isinstance(s_.target, (ast.Name, ast.Attribute)):
                    repo.desugared.append((rel, fname, "annotation"))
                    if s_.value is None:
                        continue
                    new = ast.Assign([s_.target], s_.value)
                    ast.copy_location(new, s_)
                    out.append(new)
                    continue
                out.append(s_)
            return out

        def yield_locals(F, rel):
            loads = {}
            for x in ast.walk(F):
                if isinstance(x, ast.Name) and isinstance(x.ctx, ast.Load):
                    loads[x.id] = loads.get(x.id, 0) + 1
            pairs = {}

            def scan(stmts):
                for a, b in zip(stmts, stmts[1:]):
                    if isinstance(a, ast.Assign) and len(a.targets) == 1 and isinstance(a.targets[0], ast.Name) \
                            and isinstance(a.value, ast.Call) and isinstance(b, ast.Expr) and isinstance(b.value, ast.Yield) \
                            and isinstance(b.value.value, ast.Name) and b.value.value.id == a.targets[0].id:
                        pairs.setdefault(a.targets[0].id, []).append((stmts, a, b))
                for s_ in stmts:
                    if isinstance(s_, (ast.FunctionDef, ast.ClassDef)):
                        continue
                    for fld in ("body", "orelse", "finalbody"):
                        if isinstance(getattr(s_, fld, None), list):
                            scan(getattr(s_, fld))
                    if isinstance(s_, ast.Try):
                        for h in s_.handlers:
                            scan(h.body)
            scan(F.body)
            for name, lst in pairs.items():
                if loads.get(name, 0) != len(lst):
                    continue        # read somewhere else as well
                for stmts, a, b in lst:
                    b.value.value = a.value
                    stmts.remove(a)
                repo.desugared.append((rel, F.name, f"yield {name}"))

        def iter_locals(F, rel):
            """a local bound once to `range(..)`, `reversed(range(..))` or `iter(..)` of those and read only as the iterable
            of `for` loops: the bounds are captured where the local is bound; a `range` is re-iterable (each loop starts
            again), `reversed(..)`/`iter(..)` give a one-shot iterator whose position survives from one loop to the next
            (a second loop over it finds it exhausted) - written out as a counter and a while loop"""
            binds, loads, stores = {}, {}, {}
            for x in ast.walk(F):
                if isinstance(x, ast.Name):
                    (loads if isinstance(x.ctx, ast.Load) else stores).setdefault(x.id, []).append(x)
            fors = {}
            for x in ast.walk(F):
                if isinstance(x, ast.For) and isinstance(x.iter, ast.Name) and isinstance(x.target, ast.Name) and not x.orelse:
                    fors.setdefault(x.iter.id, []).append(x)

            def shape(e):
                """-> (oneshot, descending, lo, hi) for range / reversed(range) / iter(those), unit step: the values visited
                are lo..hi-1 (ascending) or hi-1..lo (descending); None otherwise"""
                one = False
                if isinstance(e, ast.Call) and isinstance(e.func, ast.Name) and e.func.id == "iter" and len(e.args) == 1 and not e.keywords:
                    one, e = True, e.args[0]
                rev = False
                if isinstance(e, ast.Call) and isinstance(e.func, ast.Name) and e.func.id == "reversed" and len(e.args) == 1 \
                        and not e.keywords:
                    one, rev, e = True, True, e.args[0]
                if not (isinstance(e, ast.Call) and isinstance(e.func, ast.Name) and e.func.id == "range" and 1 <= len(e.args) <= 3
                        and not e.keywords and all(pure(a) for a in e.args)):
                    return None
                if len(e.args) == 3:
                    st_ = e.args[2]
                    neg = isinstance(st_, ast.UnaryOp) and isinstance(st_.op, ast.USub) and isinstance(st_.operand, ast.Constant) \
                        and st_.operand.value == 1
                    pos = isinstance(st_, ast.Constant) and st_.value == 1
                    if not (neg or pos):
                        return None
                    if neg:
                        # range(a, b, -1) visits a, a-1, ..., b+1: the values b+1 .. a, descending
                        lo = ast.BinOp(e.args[1], ast.Add(), ast.Constant(1))
                        hi = ast.BinOp(e.args[0], ast.Add(), ast.Constant(1))
                        return one, not rev, lo, hi
                    return one, rev, e.args[0], e.args[1]
                lo = e.args[0] if len(e.args) == 2 else ast.Constant(0)
                hi = e.args[1] if len(e.args) == 2 else e.args[0]
                return one, rev, lo, hi
            done = False
            for name, fl in fors.items():
                if len(stores.get(name, [])) != 1 or len(loads.get(name, [])) != len(fl):
                    continue
                asg = [x for x in ast.walk(F) if isinstance(x, ast.Assign) and len(x.targets) == 1
                       and isinstance(x.targets[0], ast.Name) and x.targets[0].id == name]
                if len(asg) != 1:
                    continue
                sh = shape(asg[0].value)
                if sh is None:
                    continue
                one, rev, lo, hi = sh
                A, B, IT = f"{name}__lo", f"{name}__hi", f"{name}__it"

                def nm(x, ctx=None):
                    return ast.Name(x, ctx or ast.Load())
                init = [ast.Assign([nm(A, ast.Store())], copy.deepcopy(lo)), ast.Assign([nm(B, ast.Store())], copy.deepcopy(hi))]
                start = ast.BinOp(nm(B), ast.Sub(), ast.Constant(1)) if rev else nm(A)
                if one:
                    init.append(ast.Assign([nm(IT, ast.Store())], start))

                def replace(stmts):
                    out = []
                    for s_ in stmts:
                        for fld in ("body", "orelse", "finalbody"):
                            if isinstance(getattr(s_, fld, None), list) and not isinstance(s_, (ast.FunctionDef, ast.ClassDef)):
                                setattr(s_, fld, replace(getattr(s_, fld)))
                        if s_ is asg[0]:
                            for i_ in init:
                                ast.copy_location(i_, s_)
                                ast.fix_missing_locations(i_)
                            out.extend(copy.deepcopy(i_) for i_ in init)
                            continue
                        if s_ in fl:
                            if not one:
                                rng_ = ast.Call(nm("range"), [nm(A), nm(B)], []) if not rev else \
                                    ast.Call(nm("range"), [ast.BinOp(nm(B), ast.Sub(), ast.Constant(1)),
                                                           ast.BinOp(nm(A), ast.Sub(), ast.Constant(1)),
                                                           ast.UnaryOp(ast.USub(), ast.Constant(1))], [])
                                s_.iter = ast.copy_location(rng_, s_.iter)
                                ast.fix_missing_locations(s_.iter)
                                out.append(s_)
                                continue
                            test = ast.Compare(nm(IT), [ast.GtE() if rev else ast.Lt()], [nm(A) if rev else nm(B)])
                            step = [ast.Assign([ast.Name(s_.target.id, ast.Store())], nm(IT)),
                                    ast.AugAssign(nm(IT, ast.Store()), ast.Sub() if rev else ast.Add(), ast.Constant(1))]
                            w = ast.While(test, step + list(s_.body), [])
                            ast.copy_location(w, s_)
                            for x in [test] + step:
                                ast.copy_location(x, s_)
                                ast.fix_missing_locations(x)
                            out.append(w)
                            continue
                        out.append(s_)
                    return out
                F.body = replace(F.body)
                repo.desugared.append((rel, F.name, f"{'one-shot iterator' if one else 'range'} {name}"))
                done = True
            return done

        for rel, m in self.modules.items():
            for n in ast.walk(m.tree):
                if isinstance(n, (ast.FunctionDef, ast.AsyncFunctionDef)):
                    n.body = rewrite(n.body, rel, n.name)
                    n.body = [Exprs(rel, n.name).visit(b) for b in n.body]
                    iter_locals(n, rel)
                    n.returns = None
                    for a in n.args.args + n.args.kwonlyargs + n.args.posonlyargs + [x for x in (n.args.vararg, n.args.kwarg) if x]:
                        a.annotation = None
                elif isinstance(n, ast.ClassDef):
                    n.body = rewrite(n.body, rel, n.name)
            for n in ast.walk(m.tree):
                if isinstance(n, ast.FunctionDef) and any(isinstance(x, ast.Yield) for x in ast.walk(n)):
                    yield_locals(n, rel)

    def _split_parallel_assignments(self):
        """NORM: `a, b = (x, y)` with side-effect-free x, y that do not read a or b is `a = x; b = y`"""
        import copy

        def pure(e):
            return not any(isinstance(x, (ast.Call, ast.Yield, ast.YieldFrom, ast.Await, ast.NamedExpr, ast.Lambda, ast.Starred))
                           for x in ast.walk(e))

        def rewrite(stmts):
            out = []
            for s_ in stmts:
                for fld in ("body", "orelse", "finalbody"):
                    if isinstance(getattr(s_, fld, None), list) and not isinstance(s_, ast.ClassDef):
                        setattr(s_, fld, rewrite(getattr(s_, fld)))
                if isinstance(s_, ast.Try):
                    for h in s_.handlers:
                        h.body = rewrite(h.body)
                if isinstance(s_, ast.Assign) and len(s_.targets) == 1 and isinstance(s_.targets[0], ast.Tuple) \
                        and isinstance(s_.value, ast.Tuple) and len(s_.targets[0].elts) == len(s_.value.elts) \
                        and all(isinstance(t, ast.Name) for t in s_.targets[0].elts) and all(pure(v) for v in s_.value.elts):
                    tnames = {t.id for t in s_.targets[0].elts}
                    reads = {x.id for v in s_.value.elts for x in ast.walk(v) if isinstance(x, ast.Name)}
                    if not (tnames & reads) and len(tnames) == len(s_.targets[0].elts):
                        for t, v in zip(s_.targets[0].elts, s_.value.elts):
                            new = ast.Assign([ast.Name(t.id, ast.Store())], v)
                            ast.copy_location(new, s_)
                            ast.fix_missing_locations(new)
                            out.append(new)
                        continue
                out.append(s_)
            return out
        def drop_copies(F):
            """`x = y` (both plain locals with a single store in F, y stored earlier in the same statement list, every read
            of x textually after its store): x is another name for y - its reads are replaced, the copy is dropped"""
            inner = set()
            for n in ast.walk(F):
                if isinstance(n, (ast.FunctionDef, ast.Lambda)) and n is not F:
                    inner |= {x.id for x in ast.walk(n) if isinstance(x, ast.Name)}
                    inner |= {nm for x in ast.walk(n) if isinstance(x, (ast.Nonlocal, ast.Global)) for nm in x.names}
            order = {}
            # ast.walk is breadth-first: use positions instead
            def pos(n):
                return (getattr(n, "lineno", 0), getattr(n, "col_offset", 0))
            stores, loads = {}, {}
            for n in ast.walk(F):
                if isinstance(n, ast.Name):
                    (stores if isinstance(n.ctx, (ast.Store, ast.Del)) else loads).setdefault(n.id, []).append(n)
            params = {a.arg for a in F.args.args + F.args.kwonlyargs} | {a.arg for a in (F.args.vararg, F.args.kwarg) if a}

            def scan(stmts):
                for i, s_ in enumerate(stmts):
                    for fld in ("body", "orelse", "finalbody"):
                        if isinstance(getattr(s_, fld, None), list):
                            scan(getattr(s_, fld))
                    if isinstance(s_, ast.Assign) and len(s_.targets) == 1 and isinstance(s_.targets[0], ast.Name) \
                            and isinstance(s_.value, ast.Name):
                        x, y = s_.targets[0].id, s_.value.id
                        if x == y or x in params or y in params or len(stores.get(x, [])) != 1 or len(stores.get(y, [])) != 1 \
                                or x in inner or y in inner:
                            continue
                        ydef = [j for j, t in enumerate(stmts[:i]) if isinstance(t, ast.Assign) and len(t.targets) == 1
                                and isinstance(t.targets[0], ast.Name) and t.targets[0].id == y]
                        if not ydef:
                            continue
                        # the copy was made by inlining: nothing but plain assignments / simple ifs between the two stores
                        if not all(isinstance(t, (ast.Assign, ast.If, ast.Pass)) for t in stmts[ydef[0]:i]):
                            continue
                        if any(pos(l_) < pos(s_) for l_ in loads.get(x, [])):
                            continue
                        for l_ in loads.get(x, []):
                            l_.id = y
                        loads.setdefault(y, []).extend(loads.pop(x, []))
                        stmts[i] = ast.copy_location(ast.Pass(), s_)
            scan(F.body)
        def augment(F):
            """`x = x + e` / `x = x - e` (x a plain name, e not reading x) is `x += e` / `x -= e`"""
            class A(ast.NodeTransformer):
                def visit_FunctionDef(self, node):
                    return node if node is not F else self.generic_visit(node)

                def visit_Assign(self, node):
                    if len(node.targets) == 1 and isinstance(node.targets[0], ast.Name) and isinstance(node.value, ast.BinOp) \
                            and isinstance(node.value.op, (ast.Add, ast.Sub)):
                        x, v = node.targets[0].id, node.value
                        l_is = isinstance(v.left, ast.Name) and v.left.id == x
                        r_is = isinstance(v.right, ast.Name) and v.right.id == x
                        other = v.right if l_is else (v.left if (r_is and isinstance(v.op, ast.Add)) else None)
                        if other is not None and not (l_is and r_is) \
                                and not any(isinstance(y, ast.Name) and y.id == x for y in ast.walk(other)) \
                                and not any(isinstance(y, (ast.Constant,)) and isinstance(y.value, str) for y in ast.walk(other)) \
                                and not isinstance(other, (ast.List, ast.Tuple, ast.ListComp)):
                            new = ast.AugAssign(ast.Name(x, ast.Store()), type(v.op)(), other)
                            return ast.fix_missing_locations(ast.copy_location(new, node))
                    return node
            A().visit(F)
        for rel, m in self.modules.items():
            for n in ast.walk(m.tree):
                if isinstance(n, ast.FunctionDef):
                    n.body = rewrite(n.body)
                    if any(f == n.name for r_, f, h in self.inlined_helpers if r_ == rel):
                        drop_copies(n)
                    augment(n)

    def _split_ifexp_statements(self, prefix="hrevolve_sequences/"):
        """NORM (builders only): an expression statement that contains `A if C else B` with a side-effect-free C becomes
        `if C: <statement with A> else: <statement with B>`"""
        import copy

        def pure(e):
            return not any(isinstance(x, (ast.Call, ast.Yield, ast.YieldFrom, ast.Await, ast.NamedExpr, ast.Lambda))
                           for x in ast.walk(e))

        class Pick(ast.NodeTransformer):
            def __init__(self, target, branch):
                self.target, self.branch = target, branch

            def visit_IfExp(self, node):
                if node is self.target or ast.dump(node) == self.target_dump:
                    return self.visit(copy.deepcopy(node.body if self.branch else node.orelse))
                return self.generic_visit(node)

        def rewrite(stmts, depth=0):
            out = []
            for s_ in stmts:
                for fld in ("body", "orelse", "finalbody"):
                    if hasattr(s_, fld) and isinstance(getattr(s_, fld), list) and not isinstance(s_, (ast.FunctionDef, ast.ClassDef)):
                        setattr(s_, fld, rewrite(getattr(s_, fld), depth))
                if isinstance(s_, ast.Expr) and depth < 3 and (in_builders or isinstance(s_.value, ast.Yield)):
                    ife = [x for x in ast.walk(s_) if isinstance(x, ast.IfExp) and pure(x.test)]
                    if ife:
                        tgt = ife[0]
                        parts = []
                        for br in (True, False):
                            pk = Pick(tgt, br)
                            pk.target_dump = ast.dump(tgt)
                            parts.append(pk.visit(copy.deepcopy(s_)))
                        node = ast.If(copy.deepcopy(tgt.test), rewrite([parts[0]], depth + 1), rewrite([parts[1]], depth + 1))
                        ast.copy_location(node, s_)
                        ast.fix_missing_locations(node)
                        out.append(node)
                        continue
                out.append(s_)
            return out

        for rel, m in self.modules.items():
            in_builders = rel.startswith(prefix)
            for n in ast.walk(m.tree):
                if isinstance(n, ast.FunctionDef):
                    n.body = rewrite(n.body)

    def _substitute_block_locals(self, prefix="hrevolve_sequences/"):
        """NORM (sequence and table builders only): a local with a single definition `x = <side-effect-free expr>`
        whose uses all follow it in the same block, before anything the expression reads is changed, is replaced by
        its definition.  `unused = opt[k-1][l][c]; ... min(unused, ...)` then reads like `min(opt[k-1][l][c], ...)`."""
        import copy
        repo = self

        def pure(e):
            for x in ast.walk(e):
                if isinstance(x, (ast.Yield, ast.YieldFrom, ast.Await, ast.NamedExpr, ast.Lambda, ast.SetComp, ast.DictComp,
                                  ast.GeneratorExp, ast.Starred, ast.IfExp)):
                    return False
                if isinstance(x, ast.Call) and not (isinstance(x.func, ast.Name) and x.func.id in ("min", "max", "len", "range", "abs",
                                                                                                   "int", "float") and not x.keywords):
                    return False
            return True

        def base_name(t):
            while isinstance(t, (ast.Subscript, ast.Attribute)):
                t = t.value
            return t.id if isinstance(t, ast.Name) else None

        def mutated(stmt, names):
            """does stmt change any of `names` (store to the name, to a subscript/attribute of it, or a method call on it)"""
            for x in ast.walk(stmt):
                if isinstance(x, (ast.Name, ast.Subscript, ast.Attribute)) and isinstance(getattr(x, "ctx", None), (ast.Store, ast.Del)):
                    if base_name(x) in names:
                        return True
                if isinstance(x, ast.Call) and isinstance(x.func, ast.Attribute) and base_name(x.func.value) in names:
                    return True
                if isinstance(x, ast.Call) and any(isinstance(a, ast.Name) and a.id in names and a.id not in scalars[0] for a in x.args):
                    # a mutable object handed to a call may be changed by it (numbers cannot)
                    if not (isinstance(x.func, ast.Name) and x.func.id in ("len", "min", "max", "range", "int", "float", "argmin", "sum")):
                        return True
            return False

        class Sub(ast.NodeTransformer):
            def __init__(self, name, expr):
                self.name, self.expr, self.n = name, expr, 0

            def visit_Name(self, node):
                if node.id == self.name and isinstance(node.ctx, ast.Load):
                    self.n += 1
                    return ast.copy_location(copy.deepcopy(self.expr), node)
                return node

        def loads(node, name):
            return sum(1 for x in ast.walk(node) if isinstance(x, ast.Name) and x.id == name and isinstance(x.ctx, ast.Load))

        scalars = [set()]

        def scalar_names(fn):
            """names that certainly hold numbers: operands of - * // / and of order comparisons, range() arguments, subscript
            indices, targets of a numeric constant or of an augmented arithmetic assignment"""
            out = set()
            for x in ast.walk(fn):
                if isinstance(x, ast.BinOp) and isinstance(x.op, (ast.Sub, ast.Mult, ast.FloorDiv, ast.Div, ast.Mod)):
                    out |= {y.id for y in (x.left, x.right) if isinstance(y, ast.Name)}
                elif isinstance(x, ast.Compare) and all(isinstance(o, (ast.Lt, ast.LtE, ast.Gt, ast.GtE)) for o in x.ops):
                    out |= {y.id for y in [x.left] + list(x.comparators) if isinstance(y, ast.Name)}
                elif isinstance(x, ast.Call) and isinstance(x.func, ast.Name) and x.func.id == "range":
                    out |= {y.id for y in x.args if isinstance(y, ast.Name)}
                elif isinstance(x, ast.Assign) and len(x.targets) == 1 and isinstance(x.targets[0], ast.Name) \
                        and isinstance(x.value, ast.Constant) and isinstance(x.value.value, (int, float)) and not isinstance(x.value.value, bool):
                    out.add(x.targets[0].id)
                elif isinstance(x, ast.AugAssign) and isinstance(x.target, ast.Name) and isinstance(x.op, (ast.Sub, ast.Mult)):
                    out.add(x.target.id)
            return out

        def process(fn):
            scalars[0] = scalar_names(fn)
            stores = {}
            comp_targets = {id(t) for c in ast.walk(fn) if isinstance(c, (ast.ListComp, ast.SetComp, ast.DictComp, ast.GeneratorExp))
                            for g_ in c.generators for t in ast.walk(g_.target)}
            for x in ast.walk(fn):
                if isinstance(x, ast.Name) and isinstance(x.ctx, (ast.Store, ast.Del)):
                    # a comprehension variable is bound in its own scope; a function-level local of the same name
                    # would make substitution into the comprehension unsafe, so it counts as a second binding
                    stores[x.id] = stores.get(x.id, 0) + (1 if id(x) not in comp_targets else 2)
                elif isinstance(x, ast.arg):
                    stores[x.arg] = stores.get(x.arg, 0) + 2
                elif isinstance(x, (ast.Global, ast.Nonlocal)):
                    for n_ in x.names:
                        stores[n_] = stores.get(n_, 0) + 2
            total = {k: loads(fn, k) for k in stores}

            def rewrite(stmts):
                i = 0
                while i < len(stmts):
                    s_ = stmts[i]
                    for fld in ("body", "orelse", "finalbody"):
                        if hasattr(s_, fld) and isinstance(getattr(s_, fld), list) and not isinstance(s_, (ast.FunctionDef, ast.ClassDef)):
                            rewrite(getattr(s_, fld))
                    if isinstance(s_, ast.Assign) and len(s_.targets) == 1 and isinstance(s_.targets[0], ast.Name) \
                            and stores.get(s_.targets[0].id) == 1 and pure(s_.value) \
                            and not isinstance(s_.value, (ast.Constant, ast.List, ast.Dict, ast.Set, ast.Tuple)):
                        x = s_.targets[0].id
                        reads = {n_.id for n_ in ast.walk(s_.value) if isinstance(n_, ast.Name)}
                        rest = stmts[i + 1:]
                        def scan(block, blocked):
                            """-> (ok, blocked afterwards): every use of x is evaluated before anything it reads changes"""
                            for r in block:
                                u = loads(r, x)
                                if isinstance(r, ast.If):
                                    if loads(r.test, x) and blocked:
                                        return False, True
                                    if mutated(ast.Expr(r.test), reads):
                                        if u:
                                            return False, True
                                        blocked = True
                                    ok1, b1 = scan(r.body, blocked)
                                    ok2, b2 = scan(r.orelse, blocked)
                                    if not (ok1 and ok2):
                                        return False, True
                                    blocked = b1 or b2
                                    continue
                                if u and blocked:
                                    return False, True
                                if mutated(r, reads):
                                    # uses inside the value of a plain assignment are evaluated before its store
                                    value_only = isinstance(r, ast.Assign) and not mutated(ast.Expr(r.value), reads) \
                                        and all(loads(t, x) == 0 for t in r.targets)
                                    if u and not value_only:
                                        return False, True
                                    blocked = True
                            return True, blocked
                        ok, _ = scan(rest, False)
                        inside = sum(loads(r, x) for r in rest)
                        def builds_list(e):
                            if isinstance(e, (ast.ListComp, ast.List, ast.Dict, ast.Set)):
                                return True
                            if isinstance(e, ast.BinOp):
                                return builds_list(e.left) or builds_list(e.right)
                            if isinstance(e, ast.Subscript):
                                return builds_list(e.value) and isinstance(e.slice, ast.Slice)
                            return False
                        if ok and builds_list(s_.value):
                            # an expression that builds a fresh list: only if every use just reads it by value
                            by_value = 0
                            for r in rest:
                                for c_ in ast.walk(r):
                                    if isinstance(c_, ast.Call) and isinstance(c_.func, ast.Name) \
                                            and c_.func.id in ("min", "max", "len", "argmin", "sum", "sorted"):
                                        by_value += sum(1 for a in c_.args if isinstance(a, ast.Name) and a.id == x)
                            ok = by_value == inside
                        if ok and inside == total.get(x, 0) and inside > 0 and x not in reads:
                            for r in rest:
                                Sub(x, s_.value).visit(r)
                            del stmts[i]
                            repo.substituted_locals.append((fn.name, x))
                            continue
                    i += 1
            rewrite(fn.body)

        for rel, m in self.modules.items():
            if not rel.startswith(prefix):
                continue
            for n in ast.walk(m.tree):
                if isinstance(n, ast.FunctionDef):
                    process(n)

    def _split_conditional_locals(self):
        """NORM: `x = A if C else B` followed by the rest of the block becomes `if C: <rest with x := A> else: <rest
        with x := B>` when A and B are simple side-effect-free expressions and neither x nor what A/B read is assigned
        in the rest; string concatenations of literals are folded.  A choice made through a local (`level = "disk" if
        cm == 0 else "memory"; insert("Write_" + level)`) then reads like the two spelled-out branches."""
        import copy

        def simple(e):
            return all(isinstance(x, (ast.Name, ast.Constant, ast.Subscript, ast.Attribute, ast.Load, ast.BinOp, ast.Add, ast.Sub,
                                      ast.USub, ast.UnaryOp)) for x in ast.walk(e))

        def stores(stmts):
            out = set()
            for s_ in stmts:
                for x in ast.walk(s_):
                    if isinstance(x, ast.Name) and isinstance(x.ctx, (ast.Store, ast.Del)):
                        out.add(x.id)
                    elif isinstance(x, (ast.Global, ast.Nonlocal)):
                        out.update(x.names)
            return out

        class Sub(ast.NodeTransformer):
            def __init__(self, name, expr):
                self.name, self.expr = name, expr

            def visit_Name(self, node):
                if node.id == self.name and isinstance(node.ctx, ast.Load):
                    return ast.copy_location(copy.deepcopy(self.expr), node)
                return node

            def visit_BinOp(self, node):
                self.generic_visit(node)
                if isinstance(node.op, ast.Add) and isinstance(node.left, ast.Constant) and isinstance(node.right, ast.Constant) \
                        and isinstance(node.left.value, str) and isinstance(node.right.value, str):
                    return ast.copy_location(ast.Constant(node.left.value + node.right.value), node)
                return node

        repo = self

        def rewrite(stmts, fname, rel, depth=0):
            for i, s_ in enumerate(stmts):
                for fld in ("body", "orelse", "finalbody"):
                    if hasattr(s_, fld) and isinstance(getattr(s_, fld), list) and not isinstance(s_, (ast.FunctionDef, ast.ClassDef)):
                        setattr(s_, fld, rewrite(getattr(s_, fld), fname, rel, depth))
                # builders: `if C: x = A else: x = B` is the statement form of `x = A if C else B`
                if rel.startswith("hrevolve_sequences/") and isinstance(s_, ast.If) and len(s_.body) == 1 and len(s_.orelse) == 1 \
                        and all(isinstance(b, ast.Assign) and len(b.targets) == 1 and isinstance(b.targets[0], ast.Name)
                                for b in (s_.body[0], s_.orelse[0])) \
                        and s_.body[0].targets[0].id == s_.orelse[0].targets[0].id \
                        and simple(s_.body[0].value) and simple(s_.orelse[0].value) and simple(s_.test if not isinstance(s_.test, ast.Compare) else s_.test.left) \
                        and not any(isinstance(x, ast.Call) for x in ast.walk(s_.test)):
                    new = ast.Assign([ast.Name(s_.body[0].targets[0].id, ast.Store())],
                                     ast.IfExp(s_.test, s_.body[0].value, s_.orelse[0].value))
                    ast.copy_location(new, s_)
                    ast.fix_missing_locations(new)
                    stmts[i] = s_ = new
                if isinstance(s_, ast.Assign) and len(s_.targets) == 1 and isinstance(s_.targets[0], ast.Name) \
                        and isinstance(s_.value, ast.IfExp) and simple(s_.value.body) and simple(s_.value.orelse) and depth < 3:
                    x = s_.targets[0].id
                    rest = stmts[i + 1:]
                    reads = {n.id for e in (s_.value.body, s_.value.orelse) for n in ast.walk(e) if isinstance(n, ast.Name)}
                    st_ = stores(rest)
                    nested_use = any(isinstance(n, (ast.FunctionDef, ast.Lambda)) for r in rest for n in ast.walk(r))
                    if rest and x not in st_ and not (reads & st_) and not nested_use and len(rest) <= 60:
                        a = [Sub(x, s_.value.body).visit(copy.deepcopy(r)) for r in rest]
                        b = [Sub(x, s_.value.orelse).visit(copy.deepcopy(r)) for r in rest]
                        node = ast.If(s_.value.test, rewrite(a, fname, rel, depth + 1), rewrite(b, fname, rel, depth + 1))
                        ast.copy_location(node, s_)
                        ast.fix_missing_locations(node)
                        repo.split_locals.append((rel, fname, x))
                        return stmts[:i] + [node]
            return stmts

        for rel, m in self.modules.items():
            for n in ast.walk(m.tree):
                if isinstance(n, ast.FunctionDef):
                    n.body = rewrite(n.body, n.name, rel)

    def _inline_helpers(self):
        """NORM: calls of trivial helpers are replaced by their bodies, so that an expression or a run of
        statements means the same to every rule whether or not it was extracted into a helper:
        (a) module-level functions that only `return <expression>` (no decorator, not recursive), called by bare name
            with side-effect-free arguments;
        (b) nested functions whose body is a run of call statements, called as a statement."""
        import copy
        counter = [0]

        def docless(body):
            return [b for b in body if not (isinstance(b, ast.Expr) and isinstance(b.value, ast.Constant))]

        def plain_params(f):
            a = f.args
            return not (a.vararg or a.kwarg or a.kwonlyargs or a.posonlyargs or a.defaults)

        def reposition(new, site):
            for x in ast.walk(new):
                if isinstance(x, (ast.expr, ast.stmt)) or hasattr(x, "lineno"):
                    counter[0] += 1
                    x.lineno = site.lineno
                    x.end_lineno = getattr(site, "end_lineno", site.lineno)
                    x.col_offset = 40000 + counter[0]
                    x.end_col_offset = 40000 + counter[0]
            return new

        class Bind(ast.NodeTransformer):
            def __init__(self, env):
                self.env = env

            def visit_Name(self, node):
                if isinstance(node.ctx, ast.Load) and node.id in self.env:
                    return copy.deepcopy(self.env[node.id])
                return node

        def pure_arg(a):
            return not any(isinstance(x, (ast.Call, ast.Yield, ast.YieldFrom, ast.Await, ast.NamedExpr, ast.Lambda,
                                          ast.ListComp, ast.SetComp, ast.DictComp, ast.GeneratorExp, ast.Starred))
                           for x in ast.walk(a))

        # (a) expression functions
        exprfns, names = {}, {}
        for rel, m in self.modules.items():
            for n in m.tree.body:
                if isinstance(n, (ast.FunctionDef, ast.ClassDef)):
                    names[n.name] = names.get(n.name, 0) + 1
        for rel, m in self.modules.items():
            for n in m.tree.body:
                if isinstance(n, ast.FunctionDef) and not n.decorator_list and plain_params(n) and names.get(n.name) == 1:
                    body = docless(n.body)
                    if len(body) == 1 and isinstance(body[0], ast.Return) and body[0].value is not None:
                        e = body[0].value
                        bad = any(isinstance(x, (ast.Lambda, ast.Yield, ast.YieldFrom, ast.Await, ast.NamedExpr, ast.Starred))
                                  or (isinstance(x, ast.Call) and isinstance(x.func, ast.Name) and x.func.id == n.name)
                                  for x in ast.walk(e)) or isinstance(e, ast.Dict)     # a record constructor stays a call
                        if not bad:
                            exprfns[n.name] = ([a.arg for a in n.args.args], e)
        repo = self

        class InlineExpr(ast.NodeTransformer):
            def __init__(self, rel, owner):
                self.rel, self.owner = rel, owner

            def visit_Call(self, node):
                self.generic_visit(node)
                if isinstance(node.func, ast.Name) and node.func.id in exprfns and not node.keywords \
                        and node.func.id != self.owner:
                    params, e = exprfns[node.func.id]
                    if len(node.args) != len(params):
                        return node
                    if not all(pure_arg(a) for a in node.args):
                        # an argument that is not a plain expression (a comprehension, a call) may be substituted only if
                        # it is evaluated exactly once and nothing else is evaluated in the helper: a single parameter
                        # read exactly once, e.g. `def _best_split(costs): return argmin(costs)`
                        uses = [x.id for x in ast.walk(e) if isinstance(x, ast.Name) and isinstance(x.ctx, ast.Load) and x.id in params]
                        if not (len(params) == 1 and uses == params and not any(isinstance(a, ast.Starred) for a in node.args)
                                and isinstance(e, ast.Call) and len(e.args) == 1 and isinstance(e.args[0], ast.Name) and not e.keywords):
                            return node
                    bound = {x.id for x in ast.walk(e) if isinstance(x, ast.Name) and isinstance(x.ctx, ast.Store)}
                    argnames = {x.id for a in node.args for x in ast.walk(a) if isinstance(x, ast.Name)}
                    if bound & argnames or bound & set(params):
                        return node
                    new = Bind(dict(zip(params, node.args))).visit(copy.deepcopy(e))
                    repo.inlined_helpers.append((self.rel, self.owner, node.func.id))
                    return reposition(new, node)
                return node

        for rel, m in self.modules.items():
            for n in ast.walk(m.tree):
                if isinstance(n, ast.FunctionDef) and n.name not in exprfns:
                    tr = InlineExpr(rel, n.name)
                    n.body = [tr.visit(b) for b in n.body]

        # (a') expression methods: `self.m(args)` where m (defined once in the package, undecorated) only returns an
        #      expression or is a chain `if c: return A ... return Z` of side-effect-free tests
        def chain_expr(body):
            body = docless(body)
            if not body:
                return None
            s0 = body[0]
            if isinstance(s0, ast.Return) and s0.value is not None and len(body) == 1:
                return s0.value
            if isinstance(s0, ast.If) and pure_arg(s0.test):
                a = chain_expr(s0.body)
                b = chain_expr(s0.orelse) if s0.orelse else chain_expr(body[1:])
                if s0.orelse and len(body) > 1:
                    return None
                if a is not None and b is not None:
                    return ast.IfExp(s0.test, a, b)
            return None
        mcount = {}
        for rel, m in self.modules.items():
            for c in m.tree.body:
                if isinstance(c, ast.ClassDef):
                    for n in c.body:
                        if isinstance(n, ast.FunctionDef):
                            mcount[n.name] = mcount.get(n.name, 0) + 1
        exprmeths = {}
        for rel, m in self.modules.items():
            for c in m.tree.body:
                if not isinstance(c, ast.ClassDef):
                    continue
                for n in c.body:
                    if isinstance(n, ast.FunctionDef) and not n.decorator_list and plain_params(n) and mcount.get(n.name) == 1 \
                            and n.args.args and n.args.args[0].arg == "self" and n.name.startswith("_") and not n.name.startswith("__"):
                        e = chain_expr(n.body)
                        if e is None or any(isinstance(x, (ast.Lambda, ast.Yield, ast.YieldFrom, ast.Await, ast.NamedExpr, ast.Starred))
                                            or (isinstance(x, ast.Attribute) and x.attr == n.name) for x in ast.walk(e)):
                            continue
                        if any(isinstance(x, ast.Name) and isinstance(x.ctx, ast.Store) for x in ast.walk(e)):
                            continue
                        # only action-valued or plain value helpers: calls inside must be constructors / pure builtins
                        exprmeths[n.name] = ([a.arg for a in n.args.args[1:]], e, c.name)

        class InlineMeth(ast.NodeTransformer):
            def __init__(self, rel, owner):
                self.rel, self.owner = rel, owner

            def visit_Call(self, node):
                self.generic_visit(node)
                f = node.func
                if isinstance(f, ast.Attribute) and isinstance(f.value, ast.Name) and f.value.id == "self" and f.attr in exprmeths \
                        and not node.keywords and f.attr != self.owner:
                    params, e, cname = exprmeths[f.attr]
                    if len(node.args) != len(params) or not all(pure_arg(a) for a in node.args):
                        return node
                    new = Bind(dict(zip(params, node.args))).visit(copy.deepcopy(e))
                    repo.inlined_helpers.append((self.rel, self.owner, f.attr))
                    return reposition(new, node)
                return node

        def bool_ifexp(t):
            """in a test (under not/and/or only), `A if c else B` with a side-effect-free c is `(c and A) or (not c and B)`"""
            if isinstance(t, ast.IfExp) and pure_arg(t.test):
                new = ast.BoolOp(ast.Or(), [ast.BoolOp(ast.And(), [copy.deepcopy(t.test), bool_ifexp(t.body)]),
                                            ast.BoolOp(ast.And(), [ast.UnaryOp(ast.Not(), copy.deepcopy(t.test)), bool_ifexp(t.orelse)])])
                return ast.copy_location(new, t)
            if isinstance(t, ast.UnaryOp) and isinstance(t.op, ast.Not):
                t.operand = bool_ifexp(t.operand)
            elif isinstance(t, ast.BoolOp):
                t.values = [bool_ifexp(v) for v in t.values]
            return t

        if exprmeths:
            for rel, m in self.modules.items():
                for c in m.tree.body:
                    if isinstance(c, ast.ClassDef):
                        for n in c.body:
                            if isinstance(n, ast.FunctionDef) and n.name not in exprmeths:
                                tr = InlineMeth(rel, n.name)
                                n.body = [tr.visit(b) for b in n.body]
                                for x in ast.walk(n):
                                    if isinstance(x, (ast.If, ast.While)) and any(isinstance(y, ast.IfExp) for y in ast.walk(x.test)):
                                        x.test = bool_ifexp(x.test)
                                        ast.fix_missing_locations(x)

        # (b) nested statement helpers
        def inline_stmt_helpers(rel, F):
            helpers = {}
            for g in F.body:
                if isinstance(g, ast.FunctionDef) and not g.decorator_list and plain_params(g):
                    body = docless(g.body)
                    if body and all(isinstance(b, ast.Expr) and isinstance(b.value, ast.Call) for b in body):
                        stored = {x.id for b in body for x in ast.walk(b) if isinstance(x, ast.Name) and isinstance(x.ctx, ast.Store)}
                        if not stored and not any(isinstance(x, ast.Call) and isinstance(x.func, ast.Name) and x.func.id == g.name
                                                  for b in body for x in ast.walk(b)):
                            helpers[g.name] = ([a.arg for a in g.args.args], body, g)
            if not helpers:
                return

            def rewrite(stmts):
                out = []
                for s_ in stmts:
                    if isinstance(s_, ast.FunctionDef):
                        out.append(s_)
                        continue
                    if isinstance(s_, ast.Expr) and isinstance(s_.value, ast.Call) and isinstance(s_.value.func, ast.Name) \
                            and s_.value.func.id in helpers and not s_.value.keywords:
                        params, body, g = helpers[s_.value.func.id]
                        call = s_.value
                        if len(call.args) == len(params) and all(pure_arg(a) for a in call.args):
                            env = dict(zip(params, call.args))
                            for b in body:
                                out.append(reposition(Bind(env).visit(copy.deepcopy(b)), s_))
                            repo.inlined_helpers.append((rel, F.name, g.name))
                            continue
                    for fld in ("body", "orelse", "finalbody"):
                        if hasattr(s_, fld) and isinstance(getattr(s_, fld), list):
                            setattr(s_, fld, rewrite(getattr(s_, fld)))
                    if isinstance(s_, ast.Try):
                        for h in s_.handlers:
                            h.body = rewrite(h.body)
                    out.append(s_)
                return out
            F.body = rewrite(F.body)
            # a helper that is no longer referenced is dropped
            for name, (params, body, g) in helpers.items():
                used = any(isinstance(x, ast.Name) and x.id == name and isinstance(x.ctx, ast.Load)
                           for b in F.body if b is not g for x in ast.walk(b))
                if not used:
                    F.body = [b for b in F.body if b is not g]

        for rel, m in self.modules.items():
            for n in ast.walk(m.tree):
                if isinstance(n, ast.FunctionDef):
                    inline_stmt_helpers(rel, n)

        class RenameLocals(ast.NodeTransformer):
            def __init__(self, m_):
                self.m = m_

            def visit_Name(self, node):
                if node.id in self.m:
                    return ast.copy_location(ast.Name(self.m[node.id], node.ctx), node)
                return node

        # (b') nested functions with statements and a value: every `return` in tail position (the last statement, or the
        #      last statement of each branch of a trailing if/else), not recursive, no loops around a return.  A call
        #      `yield g(args)` / `x = g(args)` / `g(args)` as a statement with side-effect-free arguments is replaced by
        #      the body: parameters substituted (constant tests folded), the helper's own locals renamed apart, each tail
        #      `return E` turned into `yield E` / `x = E` / `E`.
        def tail_returns_only(body):
            body = docless(body)
            if not body:
                return False
            for b in body[:-1]:
                if any(isinstance(x, ast.Return) for x in ast.walk(b)):
                    return False
            last = body[-1]
            if isinstance(last, ast.Return):
                return last.value is not None
            if isinstance(last, ast.If) and last.orelse:
                return tail_returns_only(last.body) and tail_returns_only(last.orelse)
            return False

        class Fold(ast.NodeTransformer):
            """constant tests after parameter substitution"""
            def visit_IfExp(self, node):
                self.generic_visit(node)
                if isinstance(node.test, ast.Constant):
                    return node.body if node.test.value else node.orelse
                return node

            def visit_If(self, node):
                self.generic_visit(node)
                if isinstance(node.test, ast.Constant):
                    return (node.body if node.test.value else node.orelse) or [ast.Pass()]
                return node

            def visit_UnaryOp(self, node):
                self.generic_visit(node)
                if isinstance(node.op, ast.Not) and isinstance(node.operand, ast.Constant) and isinstance(node.operand.value, bool):
                    return ast.copy_location(ast.Constant(not node.operand.value), node)
                return node

        def inline_value_helpers(rel, F, module_level=(), methods=()):
            helpers = {}
            meths = {}
            for g in [x for x in methods if x is not F]:
                if not g.decorator_list and not (g.args.vararg or g.args.kwarg or g.args.posonlyargs) and g.args.args \
                        and g.args.args[0].arg == "self" and tail_returns_only(g.body) and mcount.get(g.name) == 1 \
                        and g.name.startswith("_") and not g.name.startswith("__") \
                        and not any(isinstance(x, (ast.Yield, ast.YieldFrom, ast.Lambda, ast.Global, ast.While, ast.For, ast.Try, ast.With,
                                                   ast.FunctionDef)) and x is not g for x in ast.walk(g)) \
                        and not any(isinstance(x, ast.Attribute) and x.attr == g.name for x in ast.walk(g)):
                    meths[g.name] = g
            for g in list(F.body) + [x for x in module_level if x is not F]:
                if isinstance(g, ast.FunctionDef) and not g.decorator_list and not (g.args.vararg or g.args.kwarg or g.args.posonlyargs) \
                        and tail_returns_only(g.body) \
                        and not any(isinstance(x, (ast.Yield, ast.YieldFrom, ast.Lambda, ast.Global, ast.While, ast.For, ast.Try, ast.With))
                                    or (isinstance(x, ast.FunctionDef) and x is not g)
                                    or (isinstance(x, ast.Call) and isinstance(x.func, ast.Name) and x.func.id == g.name)
                                    for x in ast.walk(g)):
                    helpers[g.name] = g
            if not helpers and not meths:
                return

            def bind_call(g, call):
                is_m = g.name in meths and meths[g.name] is g
                pos_params = [a.arg for a in g.args.args][1 if is_m else 0:]
                params = pos_params + [a.arg for a in g.args.kwonlyargs]
                npos = len(pos_params)
                env = {}
                if len(call.args) > npos or any(isinstance(a, ast.Starred) for a in call.args):
                    return None
                for p_, a in zip(params, call.args):
                    env[p_] = a
                for k in call.keywords:
                    if k.arg is None or k.arg not in params or k.arg in env:
                        return None
                    env[k.arg] = k.value
                defaults = dict(zip(pos_params[npos - len(g.args.defaults):], g.args.defaults)) if g.args.defaults else {}
                defaults.update({a.arg: d for a, d in zip(g.args.kwonlyargs, g.args.kw_defaults) if d is not None})
                for p_ in params:
                    if p_ not in env:
                        if p_ not in defaults:
                            return None
                        env[p_] = defaults[p_]
                if not all(pure_arg(a) for a in env.values()):
                    return None
                stored = {x.id for x in ast.walk(g) if isinstance(x, ast.Name) and isinstance(x.ctx, (ast.Store, ast.Del))}
                nonloc = {nm for x in ast.walk(g) if isinstance(x, ast.Nonlocal) for nm in x.names}
                if stored & set(params):
                    return None
                return env, {x: f"{g.name}__{x}" for x in stored - nonloc}

            def expand(g, call, make_tail, site):
                b = bind_call(g, call)
                if b is None:
                    return None
                env, ren = b
                body = [Bind(env).visit(RenameLocals(ren).visit(copy.deepcopy(x))) for x in docless(g.body)
                        if not isinstance(x, ast.Nonlocal)]
                folded = []
                for x in body:
                    r = Fold().visit(x)
                    folded += r if isinstance(r, list) else [r]

                def tails(stmts):
                    last = stmts[-1]
                    if isinstance(last, ast.Return):
                        stmts[-1] = make_tail(last.value)
                    elif isinstance(last, ast.If):
                        tails(last.body)
                        if last.orelse:
                            tails(last.orelse)
                    return stmts
                if not folded or not tail_returns_only(folded):
                    return None
                out = tails(folded)
                return [reposition(x, site) for x in out]

            def rewrite(stmts):
                out = []
                for s_ in stmts:
                    if isinstance(s_, ast.FunctionDef):
                        out.append(s_)
                        continue
                    call, mk = None, None
                    if isinstance(s_, ast.Expr) and isinstance(s_.value, ast.Yield) and isinstance(s_.value.value, ast.Call):
                        call, mk = s_.value.value, (lambda e: ast.Expr(ast.Yield(e)))
                    elif isinstance(s_, ast.Assign) and len(s_.targets) == 1 and isinstance(s_.value, ast.Call) \
                            and isinstance(s_.targets[0], (ast.Name, ast.Tuple)):
                        tg = s_.targets[0]
                        call, mk = s_.value, (lambda e, tg=tg: ast.Assign([copy.deepcopy(tg)], e))
                    if call is not None and isinstance(call.func, ast.Name) and call.func.id in helpers:
                        new = expand(helpers[call.func.id], call, mk, s_)
                        if new is not None:
                            repo.inlined_helpers.append((rel, F.name, call.func.id))
                            out.extend(new)
                            continue
                    if call is not None and isinstance(call.func, ast.Attribute) and isinstance(call.func.value, ast.Name) \
                            and call.func.value.id == "self" and call.func.attr in meths:
                        new = expand(meths[call.func.attr], call, mk, s_)
                        if new is not None:
                            repo.inlined_helpers.append((rel, F.name, call.func.attr))
                            out.extend(new)
                            continue
                    for fld in ("body", "orelse", "finalbody"):
                        if hasattr(s_, fld) and isinstance(getattr(s_, fld), list):
                            setattr(s_, fld, rewrite(getattr(s_, fld)))
                    out.append(s_)
                return out
            F.body = rewrite(F.body)
            for name, g in helpers.items():
                used = any(isinstance(x, ast.Name) and x.id == name and isinstance(x.ctx, ast.Load)
                           for b in F.body if b is not g for x in ast.walk(b))
                if not used:
                    F.body = [b for b in F.body if b is not g]

        def small_module_helpers(m):
            """module-level functions short enough to be read in place: at most six statements, a value returned in tail
            position, a name used for nothing else in the package"""
            out = []
            for g in m.tree.body:
                if isinstance(g, ast.FunctionDef) and names.get(g.name) == 1 and not g.decorator_list \
                        and sum(1 for x in ast.walk(g) if isinstance(x, ast.stmt)) - 1 <= 8:
                    out.append(g)
            return out

        for rel, m in self.modules.items():
            if rel.startswith("hrevolve_sequences/"):
                continue
            mods = small_module_helpers(m)
            for c_ in m.tree.body:
                if isinstance(c_, ast.ClassDef):
                    for n in c_.body:
                        if isinstance(n, ast.FunctionDef) and any(isinstance(x, (ast.Yield, ast.YieldFrom)) for x in ast.walk(n)):
                            # generators may use small module-level helpers and action-returning methods of the class
                            inline_value_helpers(rel, n, mods, [x for x in c_.body if isinstance(x, ast.FunctionDef)])
            for n in ast.walk(m.tree):
                if isinstance(n, ast.FunctionDef):
                    inline_value_helpers(rel, n)

        # (c) module-level procedures of the table/sequence builders (no value returned, not recursive, no generator),
        #     called as a statement: the body is placed at the call, its locals renamed apart
        procs = {}
        for rel, m in self.modules.items():
            if not rel.startswith("hrevolve_sequences/"):
                continue
            for n in m.tree.body:
                if isinstance(n, ast.FunctionDef) and not n.decorator_list and plain_params(n) and names.get(n.name) == 1:
                    bad = any(isinstance(x, (ast.Yield, ast.YieldFrom, ast.Global, ast.Nonlocal, ast.Lambda, ast.FunctionDef))
                              and x is not n for x in ast.walk(n))
                    rets = [x for x in ast.walk(n) if isinstance(x, ast.Return)]
                    rec = any(isinstance(x, ast.Call) and isinstance(x.func, ast.Name) and x.func.id == n.name for x in ast.walk(n))
                    if not bad and not rets and not rec and len(docless(n.body)) >= 1:
                        procs[n.name] = n

        def inline_procs(rel, F):
            def rewrite(stmts):
                out = []
                for s_ in stmts:
                    if isinstance(s_, ast.Expr) and isinstance(s_.value, ast.Call) and isinstance(s_.value.func, ast.Name) \
                            and s_.value.func.id in procs and s_.value.func.id != F.name and not s_.value.keywords:
                        g = procs[s_.value.func.id]
                        params = [a.arg for a in g.args.args]
                        call = s_.value
                        stored = {x.id for x in ast.walk(g) if isinstance(x, ast.Name) and isinstance(x.ctx, (ast.Store, ast.Del))}
                        if len(call.args) == len(params) and all(pure_arg(a) for a in call.args) and not (stored & set(params)):
                            ren = {x: f"{g.name}__{x}" for x in stored}
                            env = dict(zip(params, call.args))
                            for b in docless(g.body):
                                nb = RenameLocals(ren).visit(copy.deepcopy(b))
                                out.append(reposition(Bind(env).visit(nb), s_))
                            repo.inlined_helpers.append((rel, F.name, g.name))
                            continue
                    for fld in ("body", "orelse", "finalbody"):
                        if hasattr(s_, fld) and isinstance(getattr(s_, fld), list) and not isinstance(s_, (ast.FunctionDef, ast.ClassDef)):
                            setattr(s_, fld, rewrite(getattr(s_, fld)))
                    out.append(s_)
                return out
            F.body = rewrite(F.body)

        if procs:
            for rel, m in self.modules.items():
                if rel.startswith("hrevolve_sequences/"):
                    for n in m.tree.body:
                        if isinstance(n, ast.FunctionDef) and n.name not in procs:
                            inline_procs(rel, n)

    def _synthesise_properties(self):
        """NORM: a class attribute `name = make(k, ...)`, where `make` is a module-level property factory
        (`def make(p): def fget(self): return <expr>; return property(fget)`, or `return property(lambda self: <expr>)`),
        is replaced by the explicit `@property def name(self): return <expr with p := k>`"""
        import copy
        factories = {}
        for rel, m in self.modules.items():
            for n in m.tree.body:
                if not isinstance(n, ast.FunctionDef) or n.args.vararg or n.args.kwarg or n.args.kwonlyargs:
                    continue
                body = [b for b in n.body if not (isinstance(b, ast.Expr) and isinstance(b.value, ast.Constant))]
                expr = None
                if len(body) == 2 and isinstance(body[0], ast.FunctionDef) and isinstance(body[1], ast.Return):
                    g, r = body
                    gb = [b for b in g.body if not (isinstance(b, ast.Expr) and isinstance(b.value, ast.Constant))]
                    if isinstance(r.value, ast.Call) and ast.unparse(r.value.func) == "property" and len(r.value.args) == 1 \
                            and isinstance(r.value.args[0], ast.Name) and r.value.args[0].id == g.name and not r.value.keywords \
                            and len(g.args.args) == 1 and len(gb) == 1 and isinstance(gb[0], ast.Return) and gb[0].value is not None:
                        expr, selfname = gb[0].value, g.args.args[0].arg
                elif len(body) == 1 and isinstance(body[0], ast.Return) and isinstance(body[0].value, ast.Call) \
                        and ast.unparse(body[0].value.func) == "property" and len(body[0].value.args) == 1 \
                        and isinstance(body[0].value.args[0], ast.Lambda) and len(body[0].value.args[0].args.args) == 1 \
                        and not body[0].value.keywords:
                    lam = body[0].value.args[0]
                    expr, selfname = lam.body, lam.args.args[0].arg
                if expr is not None:
                    factories[n.name] = ([a.arg for a in n.args.args], expr, selfname)

        class Bind(ast.NodeTransformer):
            def __init__(self, env):
                self.env = env

            def visit_Name(self, node):
                if isinstance(node.ctx, ast.Load) and node.id in self.env:
                    return ast.copy_location(copy.deepcopy(self.env[node.id]), node)
                return node

        if not factories:
            return
        for rel, c in list(self.all_classes()):
            for i, n in enumerate(list(c.body)):
                if not (isinstance(n, ast.Assign) and len(n.targets) == 1 and isinstance(n.targets[0], ast.Name)
                        and isinstance(n.value, ast.Call) and isinstance(n.value.func, ast.Name)
                        and n.value.func.id in factories and not n.value.keywords):
                    continue
                params, expr, selfname = factories[n.value.func.id]
                if len(n.value.args) != len(params) or not all(isinstance(a, ast.Constant) for a in n.value.args):
                    continue
                env = dict(zip(params, n.value.args))
                env[selfname] = ast.Name("self", ast.Load())
                new_expr = Bind(env).visit(copy.deepcopy(expr))
                f = ast.FunctionDef(name=n.targets[0].id,
                                    args=ast.arguments(posonlyargs=[], args=[ast.arg("self")], kwonlyargs=[], kw_defaults=[], defaults=[]),
                                    body=[ast.Return(new_expr)], decorator_list=[ast.Name("property", ast.Load())], returns=None,
                                    type_comment=None, type_params=[])
                ast.copy_location(f, n)
                for x in ast.walk(f):
                    if not hasattr(x, "lineno"):
                        ast.copy_location(x, n)
                    else:
                        x.lineno, x.end_lineno = n.lineno, n.end_lineno
                ast.fix_missing_locations(f)
                c.body[c.body.index(n)] = f
                self.synthesised_properties.append((rel, c.name, f.name))

    def _expand_properties(self):
        """NORM: inside the methods of a class, a load of `self.<p>` where p is a read-only property whose body is
        one `return <expression over self>` is replaced by that expression (copies get positions of their own), so
        that every rule sees through such accessors (`self._total_snapshots`, `self.max_n`, ...)"""
        import copy
        counter = [0]

        def simple_props(cname):
            out = {}
            for _, c in self.mro(cname):
                setters = {ast.unparse(d).split(".")[0] for f in c.body if isinstance(f, ast.FunctionDef)
                           for d in f.decorator_list if ast.unparse(d).endswith((".setter", ".deleter"))}
                for f in c.body:
                    if not isinstance(f, ast.FunctionDef) or f.name in out:
                        continue
                    if not any(ast.unparse(d) == "property" for d in f.decorator_list) or f.name in setters:
                        continue
                    body = [b for b in f.body if not (isinstance(b, ast.Expr) and isinstance(b.value, ast.Constant))]
                    if len(body) == 1 and isinstance(body[0], ast.Return) and body[0].value is not None and \
                            not any(isinstance(x, (ast.Lambda, ast.Yield, ast.YieldFrom, ast.NamedExpr)) for x in ast.walk(body[0].value)) \
                            and all(x.id == "self" for x in ast.walk(body[0].value) if isinstance(x, ast.Name)
                                    and isinstance(x.ctx, ast.Load) and x.id not in ("len", "min", "max", "int", "bool", "True", "False", "None")):
                        out[f.name] = body[0].value
            return out

        class Sub(ast.NodeTransformer):
            def __init__(self, props, skip):
                self.props, self.skip, self.n = props, skip, 0

            def visit_Attribute(self, node):
                self.generic_visit(node)
                if isinstance(node.ctx, ast.Load) and isinstance(node.value, ast.Name) and node.value.id == "self" \
                        and node.attr in self.props and node.attr != self.skip:
                    new = copy.deepcopy(self.props[node.attr])
                    for x in ast.walk(new):
                        if hasattr(x, "lineno") or isinstance(x, (ast.expr, ast.stmt)):
                            counter[0] += 1
                            x.lineno = node.lineno
                            x.end_lineno = getattr(node, "end_lineno", node.lineno)
                            x.col_offset = 20000 + counter[0]
                            x.end_col_offset = 20000 + counter[0]
                    self.n += 1
                    return new
                return node

        for rel, c in list(self.all_classes()):
            props = simple_props(c.name)
            if not props:
                continue
            for f in c.body:
                if not isinstance(f, ast.FunctionDef):
                    continue
                for _ in range(3):
                    t = Sub(props, f.name if any(ast.unparse(d) == "property" for d in f.decorator_list) else None)
                    t.visit(f)
                    if not t.n:
                        break
                    self.expanded_properties.append((rel, c.name, f.name, t.n))

    # ---- anchors
    def module(self, rel):
        m = self.modules.get(rel)
        if m is None:
            raise AnchorMissing(f"module {rel} not found")
        return m

    def cls(self, rel, name):
        for n in self.module(rel).tree.body:
            if isinstance(n, ast.ClassDef) and n.name == name:
                return n
        raise AnchorMissing(f"class {name} not found in {rel}")

    def method(self, rel, cname, mname, required=True):
        c = self.cls(rel, cname)
        for n in c.body:
            if isinstance(n, ast.FunctionDef) and n.name == mname:
                return n
        if required:
            raise AnchorMissing(f"method {cname}.{mname} not found in {rel}")
        return None

    def func(self, rel, name, required=True):
        for n in self.module(rel).tree.body:
            if isinstance(n, ast.FunctionDef) and n.name == name:
                return n
        if required:
            raise AnchorMissing(f"function {name} not found in {rel}")
        return None

    def find_class(self, name):
        """(rel, ClassDef) of the unique top-level class with that name"""
        hits = []
        for rel, m in self.modules.items():
            for n in m.tree.body:
                if isinstance(n, ast.ClassDef) and n.name == name:
                    hits.append((rel, n))
        if len(hits) != 1:
            raise AnchorMissing(f"class {name}: {len(hits)} definitions")
        return hits[0]

    def all_classes(self):
        for rel, m in self.modules.items():
            for n in m.tree.body:
                if isinstance(n, ast.ClassDef):
                    yield rel, n

    def all_functions(self):
        """(rel, qualname, FunctionDef) for every top-level function and method"""
        def toplevel(stmts):
            # definitions at module level, also inside module-level if / try / with blocks (a fallback defined in an
            # `except ImportError:` branch is a function of the module like any other)
            for n in stmts:
                if isinstance(n, (ast.FunctionDef, ast.ClassDef)):
                    yield n
                elif isinstance(n, (ast.If, ast.Try, ast.With, ast.For, ast.While)):
                    for fld in ("body", "orelse", "finalbody"):
                        yield from toplevel(getattr(n, fld, []) or [])
                    for h in getattr(n, "handlers", []) or []:
                        yield from toplevel(h.body)
        for rel, m in self.modules.items():
            for n in toplevel(m.tree.body):
                if isinstance(n, ast.FunctionDef):
                    yield rel, n.name, n
                elif isinstance(n, ast.ClassDef):
                    for f in n.body:
                        if isinstance(f, ast.FunctionDef):
                            yield rel, n.name + "." + f.name, f

    def files_digest(self, rels=None):
        return {r: self.modules[r].sha256 for r in (rels or sorted(self.modules))}

    # ---- class hierarchy
    def bases(self, cdef):
        out = []
        for b in cdef.bases:
            if isinstance(b, ast.Name):
                out.append(b.id)
            elif isinstance(b, ast.Attribute):
                out.append(b.attr)
        return out

    def mro(self, name):
        """linearised list of (rel, ClassDef) from name up to the package root class"""
        out = []
        seen = set()
        todo = [name]
        while todo:
            n = todo.pop(0)
            if n in seen:
                continue
            seen.add(n)
            try:
                rel, c = self.find_class(n)
            except AnchorMissing:
                continue
            out.append((rel, c))
            todo += self.bases(c)
        return out

    def resolve_method(self, cname, mname):
        for rel, c in self.mro(cname):
            for f in c.body:
                if isinstance(f, ast.FunctionDef) and f.name == mname:
                    return rel, c, f
        raise AnchorMissing(f"method {mname} not found in {cname} or its bases")

    def schedule_classes(self):
        """names of all classes deriving from CheckpointSchedule (transitively)"""
        out = []
        for rel, c in self.all_classes():
            if c.name == "CheckpointSchedule":
                continue
            if any(x.name == "CheckpointSchedule" for _, x in self.mro(c.name)):
                out.append(c.name)
        return out


def parent_map(tree):
    out = {}
    for n in ast.walk(tree):
        for ch in ast.iter_child_nodes(n):
            out[id(ch)] = n
    return out


def unparse(n, limit=120):
    s = ast.unparse(n)
    s = " ".join(s.split())
    return s if len(s) <= limit else s[:limit - 3] + "..."
