"""LOAD: parse the package under analysis and resolve anchors.

The repository is only *parsed* (ast); it is never imported or executed.
A vanished anchor raises AnchorMissing, which the driver maps to exit 2
(analysis broken), never to a silent pass.
"""
import ast
import hashlib
import os

PKG = "checkpoint_schedules"


class AnchorMissing(Exception):
    pass


class Module:
    def __init__(self, rel, path):
        self.rel, self.path = rel, path
        with open(path, "rb") as f:
            raw = f.read()
        self.sha256 = hashlib.sha256(raw).hexdigest()
        self.src = raw.decode("utf-8")
        self.tree = ast.parse(self.src, filename=path)

    @property
    def name(self):
        return self.rel[:-3].replace("/", ".")


class Repo:
    def __init__(self, root=None):
        self.root = root or os.environ.get("VERIF_REPO", "/repo")
        self.pkg = os.path.join(self.root, PKG)
        if not os.path.isdir(self.pkg):
            raise AnchorMissing(f"package directory {self.pkg} not found")
        self.modules = {}
        for d, _, files in sorted(os.walk(self.pkg)):
            for f in sorted(files):
                if f.endswith(".py"):
                    p = os.path.join(d, f)
                    rel = os.path.relpath(p, self.pkg)
                    self.modules[rel] = Module(rel, p)
        self.expanded_properties = []
        self._expand_properties()

    # ---- normalisation
    def _expand_properties(self):
        """NORM: inside the methods of a class, a load of `self.<p>` where p is a read-only property whose body is
        one `return <expression over self>` is replaced by that expression (copies get positions of their own), so
        that every rule sees through such accessors (`self._total_snapshots`, `self.max_n`, ...)"""
        import copy
        counter = [0]

        def simple_props(cname):
            out = {}
            for _, c in self.mro(cname):
                setters = {ast.unparse(d).split(".")[0] for f in c.body if isinstance(f, ast.FunctionDef)
                           for d in f.decorator_list if ast.unparse(d).endswith((".setter", ".deleter"))}
                for f in c.body:
                    if not isinstance(f, ast.FunctionDef) or f.name in out:
                        continue
                    if not any(ast.unparse(d) == "property" for d in f.decorator_list) or f.name in setters:
                        continue
                    body = [b for b in f.body if not (isinstance(b, ast.Expr) and isinstance(b.value, ast.Constant))]
                    if len(body) == 1 and isinstance(body[0], ast.Return) and body[0].value is not None and \
                            not any(isinstance(x, (ast.Lambda, ast.Yield, ast.YieldFrom, ast.NamedExpr)) for x in ast.walk(body[0].value)) \
                            and all(x.id == "self" for x in ast.walk(body[0].value) if isinstance(x, ast.Name)
                                    and isinstance(x.ctx, ast.Load) and x.id not in ("len", "min", "max", "int", "bool", "True", "False", "None")):
                        out[f.name] = body[0].value
            return out

        class Sub(ast.NodeTransformer):
            def __init__(self, props, skip):
                self.props, self.skip, self.n = props, skip, 0

            def visit_Attribute(self, node):
                self.generic_visit(node)
                if isinstance(node.ctx, ast.Load) and isinstance(node.value, ast.Name) and node.value.id == "self" \
                        and node.attr in self.props and node.attr != self.skip:
                    new = copy.deepcopy(self.props[node.attr])
                    for x in ast.walk(new):
                        if hasattr(x, "lineno") or isinstance(x, (ast.expr, ast.stmt)):
                            counter[0] += 1
                            x.lineno = node.lineno
                            x.end_lineno = getattr(node, "end_lineno", node.lineno)
                            x.col_offset = 20000 + counter[0]
                            x.end_col_offset = 20000 + counter[0]
                    self.n += 1
                    return new
                return node

        for rel, c in list(self.all_classes()):
            props = simple_props(c.name)
            if not props:
                continue
            for f in c.body:
                if not isinstance(f, ast.FunctionDef):
                    continue
                for _ in range(3):
                    t = Sub(props, f.name if any(ast.unparse(d) == "property" for d in f.decorator_list) else None)
                    t.visit(f)
                    if not t.n:
                        break
                    self.expanded_properties.append((rel, c.name, f.name, t.n))

    # ---- anchors
    def module(self, rel):
        m = self.modules.get(rel)
        if m is None:
            raise AnchorMissing(f"module {rel} not found")
        return m

    def cls(self, rel, name):
        for n in self.module(rel).tree.body:
            if isinstance(n, ast.ClassDef) and n.name == name:
                return n
        raise AnchorMissing(f"class {name} not found in {rel}")

    def method(self, rel, cname, mname, required=True):
        c = self.cls(rel, cname)
        for n in c.body:
            if isinstance(n, ast.FunctionDef) and n.name == mname:
                return n
        if required:
            raise AnchorMissing(f"method {cname}.{mname} not found in {rel}")
        return None

    def func(self, rel, name, required=True):
        for n in self.module(rel).tree.body:
            if isinstance(n, ast.FunctionDef) and n.name == name:
                return n
        if required:
            raise AnchorMissing(f"function {name} not found in {rel}")
        return None

    def find_class(self, name):
        """(rel, ClassDef) of the unique top-level class with that name"""
        hits = []
        for rel, m in self.modules.items():
            for n in m.tree.body:
                if isinstance(n, ast.ClassDef) and n.name == name:
                    hits.append((rel, n))
        if len(hits) != 1:
            raise AnchorMissing(f"class {name}: {len(hits)} definitions")
        return hits[0]

    def all_classes(self):
        for rel, m in self.modules.items():
            for n in m.tree.body:
                if isinstance(n, ast.ClassDef):
                    yield rel, n

    def all_functions(self):
        """(rel, qualname, FunctionDef) for every top-level function and method"""
        for rel, m in self.modules.items():
            for n in m.tree.body:
                if isinstance(n, ast.FunctionDef):
                    yield rel, n.name, n
                elif isinstance(n, ast.ClassDef):
                    for f in n.body:
                        if isinstance(f, ast.FunctionDef):
                            yield rel, n.name + "." + f.name, f

    def files_digest(self, rels=None):
        return {r: self.modules[r].sha256 for r in (rels or sorted(self.modules))}

    # ---- class hierarchy
    def bases(self, cdef):
        out = []
        for b in cdef.bases:
            if isinstance(b, ast.Name):
                out.append(b.id)
            elif isinstance(b, ast.Attribute):
                out.append(b.attr)
        return out

    def mro(self, name):
        """linearised list of (rel, ClassDef) from name up to the package root class"""
        out = []
        seen = set()
        todo = [name]
        while todo:
            n = todo.pop(0)
            if n in seen:
                continue
            seen.add(n)
            try:
                rel, c = self.find_class(n)
            except AnchorMissing:
                continue
            out.append((rel, c))
            todo += self.bases(c)
        return out

    def resolve_method(self, cname, mname):
        for rel, c in self.mro(cname):
            for f in c.body:
                if isinstance(f, ast.FunctionDef) and f.name == mname:
                    return rel, c, f
        raise AnchorMissing(f"method {mname} not found in {cname} or its bases")

    def schedule_classes(self):
        """names of all classes deriving from CheckpointSchedule (transitively)"""
        out = []
        for rel, c in self.all_classes():
            if c.name == "CheckpointSchedule":
                continue
            if any(x.name == "CheckpointSchedule" for _, x in self.mro(c.name)):
                out.append(c.name)
        return out


def parent_map(tree):
    out = {}
    for n in ast.walk(tree):
        for ch in ast.iter_child_nodes(n):
            out[id(ch)] = n
    return out


def unparse(n, limit=120):
    s = ast.unparse(n)
    s = " ".join(s.split())
    return s if len(s) <= limit else s[:limit - 3] + "..."
