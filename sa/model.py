"""Schedule-class model: constructor facts -> entry states -> generator runs.

For every concrete schedule class the constructor chain (super().__init__
inlined) is abstractly interpreted; the facts it establishes about `self.*`
become the entry state of the class's `_iterator`, once per configuration of
its finite-domain attributes (booleans, storage choices).
"""
import ast
import copy
import os
import pickle

from .interp import Interp, Tok, Unsupported, pure_sym, Renamer
from .karr import Lin, State, join
from .load import AnchorMissing

ONE = Lin.const(1)
M, N, R = Lin.sym("self._max_n"), Lin.sym("self._n"), Lin.sym("self._r")
NPREV, RPREV = Lin.sym("n@prev"), Lin.sym("r@prev")


def prove_eq(st, e):
    """-> (verdict, text)  with verdict in True / False / None"""
    r = st.entails_eq(e)
    if r == "yes":
        return True, "entailed"
    if isinstance(r, tuple):
        return False, f"difference is the non-zero constant {r[1]}"
    if st.entails_neq(e):
        return False, f"the difference {st.reduce(e)} is provably non-zero"
    return None, f"residual {st.reduce(e)}"


def prove_eq_cases(it, st, e):
    """prove_eq, with case analysis on min/max atoms occurring in the residual: PROVED if every
    feasible case proves, REFUTED if some feasible case refutes"""
    r = prove_eq(st, e)
    if r[0] is not None or it is None:
        return r
    res = st.reduce(e)
    syms = st.symbols()
    # min/max atoms that are tied (through an equality) to a symbol of the residual
    atoms = []
    for k in it.minmax:
        if k in res.t:
            atoms.append(k)
        elif k in syms:
            rk = st.reduce(Lin.sym(k))
            if set(rk.t) & set(res.t):
                atoms.append(k)
    if not atoms:
        return r
    k = atoms[0]
    kind, a, b = it.minmax[k]
    A, B, K = Lin.sym(a), Lin.sym(b), Lin.sym(k)
    verdicts = []
    for pick, other in ((A, B), (B, A)):
        s2 = st.copy()
        s2.add_eq(K - pick)
        s2.add_ineq((other - pick) if kind == "min" else (pick - other))
        if s2.bottom or s2.infeasible():
            continue
        verdicts.append(prove_eq(s2, e))
    if verdicts and all(v[0] is True for v in verdicts):
        return True, "entailed in every case of " + kind
    bad = [v for v in verdicts if v[0] is False]
    if bad:
        return False, f"in a feasible case of the {kind}(...) {bad[0][1]}"
    return r


def prove_ge(st, e):
    """e >= 0 ?"""
    if st.entails_ineq(e):
        return True, "entailed"
    if st.entails_ineq(-e - ONE):
        return False, f"{st.reduce(e)} is negative"
    return None, f"residual {st.reduce(e)} >= 0"


def auto_partvars(fn):
    """locals worth partitioning on: the kind tag unpacked from the top of a
    tracked container, and boolean locals tested in more than one `if`."""
    out = []
    tests = {}
    for n in ast.walk(fn):
        if isinstance(n, (ast.If, ast.While, ast.IfExp)):
            for x in ast.walk(n.test):
                # the local itself as a truth value (`if b`, `if not b`, `if b and ...`), not as an operand
                if isinstance(x, ast.Name):
                    tests[x.id] = tests.get(x.id, 0) + 1
    for n in ast.walk(fn):
        if isinstance(n, ast.Assign) and len(n.targets) == 1:
            t, v = n.targets[0], n.value
            if isinstance(t, ast.Tuple) and isinstance(v, ast.Subscript) and \
                    isinstance(v.slice, ast.UnaryOp) and t.elts and isinstance(t.elts[0], ast.Name):
                out.append(t.elts[0].id)
            if isinstance(t, ast.Name) and isinstance(v, (ast.Compare, ast.BoolOp)) \
                    and tests.get(t.id, 0) >= 2:
                out.append(t.id)
            # an enum-valued local initialised from an enum constant and compared later
            if isinstance(t, ast.Name) and isinstance(v, ast.Attribute) and isinstance(v.value, ast.Name) \
                    and v.value.id in ("StepType", "StorageType"):
                out.append(t.id)
    return tuple(dict.fromkeys(out))


def written_kinds(fn):
    """kinds of data the generator writes to checkpoint storage (not WORK):
    'I' restart data, 'A' adjoint dependencies, '?' flags not literal"""
    kinds = set()
    for n in ast.walk(fn):
        if isinstance(n, ast.Yield) and isinstance(n.value, ast.Call) and isinstance(n.value.func, ast.Name) \
                and n.value.func.id == "Forward" and len(n.value.args) == 5:
            wi, wa, sto = n.value.args[2:5]
            if isinstance(sto, ast.Attribute) and isinstance(sto.value, ast.Name) and sto.value.id == "StorageType" \
                    and sto.attr in ("WORK", "NONE"):
                continue
            lit = [a.value if isinstance(a, ast.Constant) and isinstance(a.value, bool) else None for a in (wi, wa)]
            if None in lit:
                kinds.add("?")
            else:
                if lit[0]:
                    kinds.add("I")
                if lit[1]:
                    kinds.add("A")
    return kinds


_PREFETCH = None


def _prefetch_worker(i):
    model, jobs = _PREFETCH
    key, rel, owner, fn, ent, partvars = jobs[i][:6]
    try:
        it = model._run_job(fn, ent, partvars, jobs[i][8])
        it.hooks = {}
        it.resolver = None
        return key, pickle.dumps(it, protocol=pickle.HIGHEST_PROTOCOL)
    except Exception:
        return key, None


class GenRun:
    def __init__(self, cname, rel, owner, fn, config, interp, entry, numcase=""):
        self.cname, self.rel, self.owner, self.fn = cname, rel, owner, fn
        self.config, self.interp, self.entry = config, interp, entry
        self.numcase = numcase

    @property
    def construct(self):
        return f"{self.rel[:-3].replace('/', '.')}.{self.owner}.{self.fn.name}"

    def cfg_text(self):
        if not self.config and not self.numcase:
            return ""
        return "{" + ", ".join([f"{k}={v}" for k, v in sorted(self.config.items())] + ([self.numcase] if self.numcase else [])) + "}"


class Model:
    def __init__(self, repo, deep=False):
        self.repo = repo
        # deep (second cover of the thorough tier): every finite-domain attribute is split, and the integer
        # configuration attributes the generator computes with are split at their boundary values
        # (lowest, lowest + 1, the rest), one generator run per cell
        self.deep = deep
        self._init_cache = {}
        self._run_cache = {}
        self._interp_cache = {}
        self._planner = None
        self._conv = None
        # generator constructs whose analysis met something outside the modelled fragment: construct -> reasons
        self.tainted = {}

    # ------------------------------------------------------------ classes
    def concrete_classes(self):
        """schedule classes that can be instantiated by users (not the shared
        converter base, which has no public constructor signature of its own)"""
        names = self.repo.schedule_classes()
        bases = set()
        for n in names:
            _, c = self.repo.find_class(n)
            bases |= set(self.repo.bases(c))
        return [n for n in names if n not in bases]

    def generator(self, cname):
        rel, c, f = self.repo.resolve_method(cname, "_iterator")
        if c.name == "CheckpointSchedule":
            raise AnchorMissing(f"{cname} has no _iterator of its own")
        return rel, c, f

    # ------------------------------------------------------------ constructors
    def expand_init(self, cname):
        """the constructor of cname with every `super().__init__(...)` statement
        replaced by parameter bindings + the (renamed) base-class body"""
        rel, c, f = self.repo.resolve_method(cname, "__init__")
        fn = copy.deepcopy(f)
        fn.body = self._expand_body(fn.body, c.name, 0)
        ast.fix_missing_locations(fn)
        return rel, c, f, fn

    def _base_init(self, cname):
        mro = self.repo.mro(cname)[1:]
        for rel, c in mro:
            for f in c.body:
                if isinstance(f, ast.FunctionDef) and f.name == "__init__":
                    return c, f
        return None, None

    def _expand_body(self, body, cname, depth):
        out = []
        for s in body:
            call = s.value if isinstance(s, ast.Expr) and isinstance(s.value, ast.Call) else None
            fnode = call.func if call else None
            if call and isinstance(fnode, ast.Attribute) and fnode.attr == "__init__" and \
                    isinstance(fnode.value, ast.Call) and isinstance(fnode.value.func, ast.Name) \
                    and fnode.value.func.id == "super" and depth < 4:
                bc, bf = self._base_init(cname)
                if bf is None:
                    continue
                if any(isinstance(n, ast.Return) for n in ast.walk(bf)):
                    raise Unsupported("return inside a base-class __init__")
                suffix = "@" + bc.name
                params = bf.args.args[1:] + bf.args.kwonlyargs
                npos = len(bf.args.args) - 1
                defaults = dict(zip([p.arg for p in bf.args.args][len(bf.args.args) - len(bf.args.defaults):],
                                    bf.args.defaults))
                for p, d in zip(bf.args.kwonlyargs, bf.args.kw_defaults):
                    if d is not None:
                        defaults[p.arg] = d
                kw = {k.arg: k.value for k in call.keywords if k.arg}
                names = {p.arg for p in params}
                for n in ast.walk(bf):
                    if isinstance(n, ast.Name) and isinstance(n.ctx, ast.Store):
                        names.add(n.id)
                ren = Renamer({n: n + suffix for n in names})
                for i, p in enumerate(params):
                    if i < len(call.args) and i < npos:
                        v = call.args[i]
                    elif p.arg in kw:
                        v = kw[p.arg]
                    elif p.arg in defaults:
                        v = defaults[p.arg]
                    else:
                        continue
                    a = ast.Assign([ast.Name(p.arg + suffix, ast.Store())], copy.deepcopy(v))
                    ast.copy_location(a, s)
                    out.append(a)
                inner = [ren.visit(copy.deepcopy(x)) for x in bf.body
                         if not (isinstance(x, ast.Expr) and isinstance(x.value, ast.Constant))]
                # keep positions distinct from the derived class's own statements
                for x in inner:
                    for n in ast.walk(x):
                        if hasattr(n, "col_offset"):
                            n.col_offset += 10000 * (depth + 1)
                out += self._expand_body(inner, bc.name, depth + 1)
            else:
                out.append(s)
        return out

    def init_run(self, cname, entry=None, partvars=(), exact=False):
        rel, c, f, fn = self.expand_init(cname)
        st = entry.copy() if entry is not None else State()
        if entry is None:
            defaults = dict(zip([p.arg for p in f.args.args][len(f.args.args) - len(f.args.defaults):],
                                f.args.defaults))
            for p, d in zip(f.args.kwonlyargs, f.args.kw_defaults):
                if d is not None:
                    defaults[p.arg] = d
            for p, d in defaults.items():
                if isinstance(d, ast.Constant) and isinstance(d.value, bool):
                    st.enum_meet(p, "in", ["True", "False"])
        names = {n.id for n in ast.walk(fn) if isinstance(n, ast.Name) and n.id.split("@")[0] == "max_n"}
        pv = sorted(names) + list(partvars)
        it = Interp(fn, entry=st, partvars=pv, finalize_havoc=False, klass=cname,
                    record_calls=("hrevolve", "disk_revolve", "periodic_disk_revolve", "revolve", "allocate_snapshots"))
        it.partvars = tuple(pv) + ("self._max_n",)
        it.none_part = tuple(pv)
        it.exact_minmax = exact
        it.run()
        return rel, c, f, it

    def init_facts(self, cname):
        """list of States over self.* at normal constructor return"""
        if cname in self._init_cache:
            return self._init_cache[cname]
        rel, c, f, it = self.init_run(cname)
        outs = []
        for o in it.outcomes:
            if o.kind in ("end", "return"):
                st = o.state.copy()
                for s in list(st.symbols()) + list(st.enums):
                    if not (s.startswith("self.") or s == "sys.maxsize"):
                        st.forget_all(s)
                st.may = {}
                outs.append(st)
        # merge states with the same None-ness of max_n
        groups = {}
        for s in outs:
            k = s.enum_is("self._max_n", "None")
            groups[k] = join(groups[k], s) if k in groups else s
        res = [s for s in groups.values() if not s.bottom]
        self._init_cache[cname] = (res, it.attr_writes)
        return self._init_cache[cname]

    def configs(self, cname, fn, split_all=False):
        """finite-domain attributes read by the generator -> list of valuations"""
        entries, _ = self.init_facts(cname)
        # only attributes the generator branches on need a split; attributes that
        # merely flow into action arguments keep their value set inside the state
        used = set()
        if split_all:
            used = {n.attr for n in ast.walk(fn) if isinstance(n, ast.Attribute)
                    and isinstance(n.value, ast.Name) and n.value.id == "self"}
        for t in ast.walk(fn):
            if isinstance(t, (ast.If, ast.While, ast.IfExp)):
                for n in ast.walk(t.test):
                    if isinstance(n, ast.Attribute) and isinstance(n.value, ast.Name) and n.value.id == "self":
                        used.add(n.attr)
        doms = {}
        for st in entries:
            for s, (k, vals) in st.enums.items():
                if s.startswith("self.") and s[5:] in used and k == "in" and 2 <= len(vals) <= 4:
                    doms[s] = sorted(set(doms.get(s, [])) | set(vals))
        cfgs = [{}]
        for s in sorted(doms):
            cfgs = [dict(c, **{s: v}) for c in cfgs for v in doms[s]]
        return cfgs

    # ------------------------------------------------------------ generators
    def hooks_for(self, fn):
        pv = auto_partvars(fn)
        kinds = written_kinds(fn)

        def load_kind(interp, rec, st):
            """what a Copy/Move to WORK puts there: I restart data, A adjoint
            dependencies of one step, ? unknown"""
            if kinds == {"I"}:
                return "I"
            if kinds == {"A"}:
                return "A"
            if "?" in kinds or not kinds:
                return "?"
            for v in pv:
                e = st.enum_single(v)
                if e == "StepType.WRITE_ADJ_DEPS":
                    return "A"
                if e == "StepType.WRITE_ICS":
                    return "I"
            return "?"
        return pv, {"load_kind": load_kind}

    def summaries_for(self, fn):
        """return-case summaries for the pure planners the generator consults
        (memoised arm by interpretation of the planner; the tabulated arm uses the
        same summary, which is what C16 establishes)"""
        names = {n.id for n in ast.walk(fn) if isinstance(n, ast.Name)}
        out = {}
        if "mixed_step_memoization" in names:
            if self._planner is None:
                from .summary import planner_summary
                self._planner = planner_summary(self.repo) or False
            if self._planner:
                out["mixed_step_memoization"] = self._planner
                if "mixed_steps_tabulation" in names:
                    out["schedule[]"] = self._planner
        if "_convert_action" in names:
            if self._conv is None:
                from .summary import convert_cases
                self._conv = convert_cases(self.repo) or False
            if self._conv:
                out["_convert_action"] = self._conv
        return out

    def numeric_cases(self, cname, fn, entries):
        """boundary cells of the integer configuration attributes the generator computes with:
        list of (text, [(sym, op, const)])"""
        arith = set()
        for n in ast.walk(fn):
            ops = []
            if isinstance(n, ast.BinOp) and isinstance(n.op, (ast.Add, ast.Sub, ast.FloorDiv, ast.Mod)):
                ops = [n.left, n.right]
            elif isinstance(n, ast.Compare) and any(isinstance(o, (ast.Lt, ast.LtE, ast.Gt, ast.GtE)) for o in n.ops):
                ops = [n.left] + list(n.comparators)
            elif isinstance(n, ast.Call) and isinstance(n.func, ast.Name) and n.func.id not in (
                    "Forward", "Reverse", "Copy", "Move", "EndForward", "EndReverse", "len", "iter", "enumerate", "isinstance"):
                ops = list(n.args)
            for x in ops:
                if isinstance(x, ast.Attribute) and isinstance(x.value, ast.Name) and x.value.id == "self":
                    arith.add(x.attr)
        arith -= {"_n", "_r"}
        dims = []
        for a in sorted(arith):
            s = "self." + a
            los = [e.lower_bound(Lin.sym(s)) for e in entries if e.enum_is(s, "None") != "yes"]
            if not los:
                continue
            if any((e.enum_get(s) or ("", ()))[0] == "in" and set(e.enum_get(s)[1]) - {"None"} for e in entries):
                continue      # a token-valued attribute (storage, flag), split with the finite domains
            if all(l is not None for l in los):
                lo = min(los)
                dims.append([(f"{a}={lo}", (s, "==", lo)), (f"{a}={lo + 1}", (s, "==", lo + 1)), (f"{a}>={lo + 2}", (s, ">=", lo + 2))])
            else:
                dims.append([(f"{a}<=0", (s, "<=", 0)), (f"{a}=1", (s, "==", 1)), (f"{a}>=2", (s, ">=", 2))])
        cases = [("", [])]
        for d in dims[:3]:
            cases = [((t + ", " + t2) if t else t2, c + [c2]) for t, c in cases for t2, c2 in d]
        return cases

    def _jobs(self, cname, split_all):
        """(key, rel, owner, fn, entries, partvars, cfg, numcase) for every generator run the class needs"""
        rel, owner, fn = self.generator(cname)
        entries, _ = self.init_facts(cname)
        pv, hooks = self.hooks_for(fn)
        jobs = []
        ncases = self.numeric_cases(cname, fn, entries) if self.deep else [("", [])]
        reads = {n.attr for n in ast.walk(fn) if isinstance(n, ast.Attribute)
                 and isinstance(n.value, ast.Name) and n.value.id == "self"}
        for cfg in self.configs(cname, fn, split_all or self.deep):
            for ntext, ncons in ncases:
                ent = []
                for e in entries:
                    e = e.copy()
                    for s, v in cfg.items():
                        e.enum_meet(s, "in", [v])
                    e.add_ineq(Lin.sym("sys.maxsize") - ONE)
                    last = True
                    for s, op, c in ncons:
                        if e.enum_is(s, "None") == "yes":
                            # not an integer in this entry (online schedule before finalize): the entry belongs
                            # to the open-ended cell only
                            if op != ">=":
                                e.bottom = True
                            continue
                        x = Lin.sym(s) - Lin.const(c)
                        if op == "==":
                            e.add_eq(x)
                        elif op == ">=":
                            e.add_ineq(x)
                        else:
                            e.add_ineq(-x)
                    if not e.bottom and not (ncons and e.infeasible()):
                        ent.append(e)
                if not ent:
                    continue
                # classes sharing one generator (the Revolve family) with the same facts about the
                # attributes it reads are analysed once
                key = (rel, owner.name, tuple(sorted(cfg.items())), tuple(sorted(self._freeze(e, reads) for e in ent)))
                jobs.append((key, rel, owner, fn, ent, pv + tuple(cfg), cfg, ntext, cname))
        return jobs

    def _run_job(self, fn, ent, partvars, klass=None):
        pv, hooks = self.hooks_for(fn)
        it = Interp(fn, entry=ent, partvars=partvars, hooks=hooks, klass=klass)
        it.summaries = self.summaries_for(fn)
        it.run()
        return it

    def prefetch(self, cnames, split_all=False):
        """analyse all generator runs that are not cached yet, in parallel processes"""
        todo = {}
        for c in cnames:
            try:
                for job in self._jobs(c, split_all):
                    if job[0] not in self._interp_cache and job[0] not in todo:
                        todo[job[0]] = job
            except AnchorMissing:
                continue
        if len(todo) < 2 or os.environ.get("VERIF_SERIAL"):
            return
        # summaries are computed once in the parent so that the children inherit them
        for job in todo.values():
            self.summaries_for(job[3])
        import multiprocessing as mp
        ctx = mp.get_context("fork")
        jobs = list(todo.values())
        global _PREFETCH
        _PREFETCH = (self, jobs)
        try:
            with ctx.Pool(min(len(jobs), os.cpu_count() or 2, 16 if self.deep else 8)) as pool:
                for key, blob in pool.imap_unordered(_prefetch_worker, range(len(jobs))):
                    if blob is not None:
                        it = pickle.loads(blob)
                        pv, hooks = self.hooks_for(it.fn)
                        it.hooks = hooks
                        self._interp_cache[key] = it
        except Exception:
            pass          # fall back to serial analysis
        finally:
            _PREFETCH = None

    def runs(self, cname, split_all=False):
        if (cname, split_all) in self._run_cache:
            return self._run_cache[(cname, split_all)]
        out = []
        if self.deep:
            self.prefetch([cname], split_all)
        for key, rel, owner, fn, ent, partvars, cfg, ntext, _ in self._jobs(cname, split_all):
            it = self._interp_cache.get(key)
            if it is None:
                it = self._run_job(fn, ent, partvars, cname)
                self._interp_cache[key] = it
            # the interpreter owns the syntax tree its records point into
            g = GenRun(cname, rel, owner.name, it.fn, cfg, it, ent, ntext)
            if getattr(it, "fuzzy", None):
                self.tainted.setdefault(g.construct, [])
                for item in it.fuzzy:
                    if item not in self.tainted[g.construct]:
                        self.tainted[g.construct].append(item)
            out.append(g)
        self._run_cache[(cname, split_all)] = out
        return out

    def used_generators(self):
        return bool(self._interp_cache)

    def cell_count(self):
        return len(self._interp_cache)

    @staticmethod
    def _freeze(st, reads):
        keep = {"self." + a for a in reads}
        rows = tuple(sorted(repr(r) for r in st.rows.values() if r.syms() <= keep | {"sys.maxsize"}))
        ineq = tuple(sorted(repr(i) for i in st.ineq if i.syms() <= keep | {"sys.maxsize"}))
        enums = tuple(sorted((k, v[0], tuple(sorted(v[1]))) for k, v in st.enums.items() if k in keep))
        return (rows, ineq, enums)

    def all_runs(self):
        self.prefetch(self.concrete_classes())
        for cname in self.concrete_classes():
            try:
                for r in self.runs(cname):
                    yield r
            except AnchorMissing:
                continue
