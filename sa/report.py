"""Obligations, verdicts, known findings, pinned instance counts, evidence."""
import json
import os
import sys
import time

PROVED, REFUTED, UNKNOWN = "PROVED", "REFUTED", "UNKNOWN"
HERE = os.path.dirname(os.path.dirname(os.path.abspath(__file__)))
EVIDENCE_DIR = os.environ.get("VERIF_EVIDENCE_DIR") or os.path.join(HERE, "evidence")
KNOWN_FILE = os.path.join(HERE, "known_findings.json")
PINS_FILE = os.path.join(HERE, "pins.json")

ASSUMPTIONS = [
    "names resolve as the LOAD engine resolves them: no monkey-patching, no setattr/getattr with computed names (checked: none in the package)",
    "assert statements are active; numba.njit preserves Python integer semantics",
    "integer-valued locations hold mathematical integers (no overflow)",
    "the analysis decides the listed structural clauses (necessary conditions); it does not establish the whole behavioural statement",
]


class Ob:
    __slots__ = ("rule", "construct", "verdict", "detail", "file", "line", "nontrivial", "status")

    def __init__(self, rule, construct, verdict, detail="", file="", line=0, nontrivial=True):
        self.rule, self.construct, self.verdict = rule, construct, verdict
        self.detail, self.file, self.line, self.nontrivial = detail, file, line, nontrivial
        self.status = None

    def key(self):
        return (self.rule, self.construct)

    def as_dict(self):
        return {"rule": self.rule, "construct": self.construct, "verdict": self.verdict,
                "detail": self.detail, "where": f"{self.file}:{self.line}"}


def load_known():
    try:
        with open(KNOWN_FILE) as f:
            return json.load(f).get("findings", [])
    except FileNotFoundError:
        return []


def load_pins():
    try:
        with open(PINS_FILE) as f:
            return json.load(f)
    except FileNotFoundError:
        return {}


class Check:
    def __init__(self, pid, tier="quick", seed=0, repo=None, quiet=False):
        self.pid, self.tier, self.seed, self.repo = pid, tier, seed, repo
        self.obs = []
        self.notes = []
        self.files = set()
        self.functions = set()
        self.errors = []
        self.t0 = time.time()
        self.quiet = quiet
        self.extra = {}
        self.rule_text = {}
        self.tainted = {}
        self.maybe_nodes = set()
        self.conv_votes = {}

    # ------------------------------------------------------------ recording
    def ob(self, rule, construct, verdict, detail="", rel="", node=None, line=0, nontrivial=True):
        if node is not None and not line:
            line = getattr(node, "lineno", 0)
        path = f"checkpoint_schedules/{rel}" if rel else ""
        if rel:
            self.files.add(rel)
        if verdict == REFUTED and node is not None and id(node) in self.maybe_nodes:
            verdict = UNKNOWN
            detail = ("not definite (this code sits under a branch on a value whose origin the constant propagation cannot "
                      "follow: it may be dead) -- " + detail)
        o = Ob(rule, construct, verdict, detail, path, line, nontrivial)
        # merge duplicates of the same (rule, construct): REFUTED > UNKNOWN > PROVED
        for p in self.obs:
            if p.key() == o.key():
                rank = {PROVED: 0, UNKNOWN: 1, REFUTED: 2}
                if rank[o.verdict] > rank[p.verdict]:
                    p.verdict, p.detail, p.line = o.verdict, o.detail, o.line
                elif o.verdict == p.verdict and o.detail and o.detail not in p.detail and len(p.detail) < 400:
                    p.detail += " | " + o.detail
                return p
        self.obs.append(o)
        return o

    def taint(self, tainted):
        """constructs (generator functions, methods) whose analysis met something outside the modelled fragment"""
        for k, v in (tainted or {}).items():
            cur = self.tainted.setdefault(k, [])
            for item in v:
                if item not in cur:
                    cur.append(item)

    def apply_taint(self):
        """a refutation derived from the analysis of a function that contains constructs the analysis cannot
        follow (a call it cannot resolve, a container escaping into it) is not definite: the refuting state may
        exist only because the effect of that construct is unknown.  Such verdicts become UNKNOWN."""
        # the converter follows an operation sequence it does not produce: its analysis is path-insensitive in the order of
        # operations, so a state reached on *some* analysis path may belong to an order the builders never emit.  A
        # refutation at a converter yield is definite only if every (non-early) record of that yield refutes.
        for o in self.obs:
            votes = self.conv_votes.get(o.key())
            if o.verdict == REFUTED and votes is not None:
                main = [v for v, early in votes if not early]
                if not main or not all(v is False for v in main):
                    o.verdict = UNKNOWN
                    o.detail = ("not definite (converter: the refuting state is reached only on some analysis paths; which "
                                "operation order occurs depends on the sequence) -- " + o.detail)
        for o in self.obs:
            if o.verdict != REFUTED:
                continue
            partner = o.construct.split("<->", 1)[1].split("#")[0].split("[")[0] if "<->" in o.construct else None
            for pre, why in self.tainted.items():
                if o.construct == pre or o.construct.startswith(pre + "#") or o.construct.startswith(pre + ".") \
                        or (partner and (pre == partner or pre.endswith("." + partner))) \
                        or ("<->" in o.construct and o.construct.split("<->")[0] in (pre, pre.rsplit(".", 1)[-1])):
                    # a taint may be limited to the rules whose extraction it concerns (third component: rule prefixes)
                    scoped = [w for w in why if len(w) > 2]
                    if scoped and len(scoped) == len(why) and not any(o.rule.startswith(w[2]) for w in scoped):
                        continue
                    o.verdict = UNKNOWN
                    o.detail = ("not definite (the analysis of this function met constructs it cannot follow: "
                                + "; ".join(f"line {w[0]}: {w[1]}" for w in why[:3]) + ") -- " + o.detail)
                    break

    def combine(self, other, cells):
        """merge a second, independent cover of the same obligations (thorough tier)"""
        mine = {o.key(): o for o in self.obs}
        better = worse = new = 0
        for o in other.obs:
            p = mine.get(o.key())
            if p is None:
                self.obs.append(o)
                new += 1
                continue
            if o.verdict == REFUTED and p.verdict != REFUTED:
                p.verdict, p.detail, p.line = REFUTED, "[cell cover] " + o.detail, o.line
                worse += 1
            elif o.verdict == PROVED and p.verdict == UNKNOWN:
                p.verdict, p.detail = PROVED, "[cell cover] " + o.detail
                better += 1
        for e in other.errors:
            self.errors.append("[cell cover] " + e)
        self.files |= other.files
        self.functions |= other.functions
        self.extra["cell_cover"] = {"generator_runs": cells, "obligations": len(other.obs), "decided_only_there": better,
                                    "refuted_only_there": worse, "additional_obligations": new}
        self.note(f"thorough tier: second cover with {cells} generator runs over boundary cells of the configuration "
                  f"({len(other.obs)} obligations; {better} decided only there, {worse} refuted only there, {new} additional)")

    def decide(self, rule, construct, ok, detail="", **kw):
        """ok: True -> PROVED, False -> REFUTED, None -> UNKNOWN"""
        v = PROVED if ok is True else (REFUTED if ok is False else UNKNOWN)
        return self.ob(rule, construct, v, detail, **kw)

    def note(self, msg):
        if msg not in self.notes:
            self.notes.append(msg)

    def describe(self, rule, text):
        self.rule_text[rule] = text

    def error(self, msg):
        self.errors.append(msg)

    # ------------------------------------------------------------ finishing
    def finish(self, only=None):
        self.apply_taint()
        known = [k for k in load_known() if k.get("property") == self.pid]
        known_keys = {(k["rule"], k["construct"]): k for k in known if k.get("status") == "known"}
        pins = load_pins().get(self.pid, {})
        obs = self.obs if only is None else [o for o in self.obs if o.key() == only]
        violations, findings, unknowns = [], [], []
        for o in obs:
            if o.verdict == REFUTED:
                if o.key() in known_keys:
                    o.status = "known-finding"
                    findings.append(o)
                else:
                    o.status = "violation"
                    violations.append(o)
            elif o.verdict == UNKNOWN:
                unknowns.append(o)
        # pinned instance counts: decided (PROVED or REFUTED) obligations per rule
        counts = {}
        for o in self.obs:
            if o.verdict in (PROVED, REFUTED):
                counts[o.rule] = counts.get(o.rule, 0) + 1
        short = []
        if only is None:
            for rule, spec in pins.items():
                ref = spec if isinstance(spec, int) else spec.get(self.tier, spec.get("quick", 0))
                # a behaviour-preserving refactoring may merge or split a few sites: the pinned
                # minimum is 40% of the reference count (at least 1), enough to exclude vacuous passes
                need = max(1, (ref * 4) // 10) if ref else 0
                if counts.get(rule, 0) < need:
                    short.append((rule, counts.get(rule, 0), need))
        os.makedirs(os.path.join(EVIDENCE_DIR, "replay"), exist_ok=True)
        out = []
        by_rule = {}
        for o in self.obs:
            d = by_rule.setdefault(o.rule, {PROVED: 0, REFUTED: 0, UNKNOWN: 0})
            d[o.verdict] += 1
        for rule in sorted(by_rule):
            d = by_rule[rule]
            out.append(f"  {rule:<16} proved={d[PROVED]} refuted={d[REFUTED]} unknown={d[UNKNOWN]}"
                       + (f"   -- {self.rule_text[rule]}" if rule in self.rule_text else ""))
        for n in self.notes:
            out.append(f"  note: {n}")
        for o in findings:
            k = known_keys[o.key()]
            out.append(f"KNOWN-FINDING: property={self.pid} {o.rule} {o.construct}: {k.get('what', o.detail)}")
        replay_paths = []
        for i, o in enumerate(violations):
            path = os.path.join(EVIDENCE_DIR, "replay", f"{self.pid}-{i}.json")
            with open(path, "w") as f:
                json.dump({"property": self.pid, "rule": o.rule, "construct": o.construct,
                           "where": f"{o.file}:{o.line}", "detail": o.detail,
                           "rule_text": self.rule_text.get(o.rule, ""),
                           "replay": f"./vcheck {self.pid} --replay {path}"}, f, indent=1)
            replay_paths.append(path)
            out.append(f"  REFUTED {o.rule} at {o.file}:{o.line} [{o.construct}] {o.detail}")
            out.append(f"VIOLATION property={self.pid} replay={path}")
        for o in unknowns:
            out.append(f"ANALYSIS-INCONCLUSIVE property={self.pid} {o.rule} at {o.file}:{o.line} [{o.construct}] {o.detail}")
        for rule, got, need in short:
            out.append(f"ANALYSIS-INCONCLUSIVE property={self.pid} rule {rule}: {got} decided instances, "
                       f"{need} pinned (a rule must not pass vacuously)")
        for e in self.errors:
            out.append(f"ANALYSIS-ERROR property={self.pid} {e}")
        code = 1 if violations else (2 if (unknowns or short or self.errors) else 0)
        wall = time.time() - self.t0
        n_ob = len(self.obs)
        n_dis = sum(1 for o in self.obs if o.verdict == PROVED)
        n_nontriv = len({o.key() for o in self.obs if o.nontrivial and o.verdict != UNKNOWN})
        samples = [o.as_dict() for o in (violations + findings)[:6]]
        seen_rules = set()
        for o in self.obs:
            if o.rule not in seen_rules and len(samples) < 14:
                seen_rules.add(o.rule)
                samples.append(o.as_dict())
        cov = {
            "explanation": self.extra.pop("explanation", "") or
            f"static analysis of /repo's current source (ast only, library never imported or run); "
            f"{n_ob} obligations over {len(self.functions)} functions in {len(self.files)} files",
            "rule": "one obligation per (rule, construct); an obligation is non-trivial when deciding it "
                    "needed at least one derived fact (dataflow state, abstract evaluation, resolved "
                    "call/role) beyond literal matching; distinct by (rule, construct)",
            "evaluations": max(n_ob, 1),
            "distinct_nontrivial": n_nontriv,
            "obligations": n_ob,
            "discharged": n_dis,
            "refuted_known_findings": len(findings),
            "refuted_violations": len(violations),
            "unknown": len(unknowns),
            "by_rule": by_rule,
            "rules": self.rule_text,
            "pinned_minimum_instances": pins,
            "decided_instances": counts,
            "files": {r: (self.repo.modules[r].sha256 if self.repo and r in self.repo.modules else "")
                      for r in sorted(self.files)},
            "functions_analysed": sorted(self.functions),
            "samples": samples,
            "exhaustive": True,
            "checker_cmd": f"./vcheck {self.pid} --tier {self.tier}",
            "trusted_base": ["CPython ast module", "the analysis code under /verif/sa"],
            "notes": self.notes,
        }
        cov.update(self.extra)
        ev = {"property_id": self.pid, "tier": self.tier, "seed": self.seed, "level": "other",
              "coverage": cov, "assumptions": ASSUMPTIONS, "wall_s": round(wall, 3),
              "violations": len(violations), "exit_code": code,
              "known_findings_reported": [o.as_dict() for o in findings]}
        if only is None:
            with open(os.path.join(EVIDENCE_DIR, f"{self.pid}.json"), "w") as f:
                json.dump(ev, f, indent=1, sort_keys=True)
        head = (f"{self.pid} [{self.tier}] {n_ob} obligations: {n_dis} proved, "
                f"{len(findings)} known findings, {len(violations)} violations, {len(unknowns)} unknown; "
                f"{len(self.functions)} functions, {len(self.files)} files, {wall:.2f}s")
        if not self.quiet:
            try:
                sys.stdout.write("\n".join([head] + out) + "\n")
                sys.stdout.flush()
            except BrokenPipeError:
                pass
        return code
