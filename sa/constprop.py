"""LOAD (part): constant propagation of the literal parameter dictionary and
dead-branch / dead-function marking in hrevolve_sequences.

`revolver_parameters` returns a dict literal; entries whose value is a literal
constant (`one_read_disk: True`, `mx: None`, `fast: False`, `concat: 0`) are
propagated through `params = revolver_parameters(...)`, `parameters =
dict(params)` and `x = parameters["key"]`.  Deadness is re-derived on every
run: making an entry configurable re-activates the rules on the code it
guards.
"""
import ast

SEQ = "hrevolve_sequences/"
UNKNOWN = object()


def literal_params(repo):
    """key -> python constant, for the constant-valued entries of the dictionary returned by revolver_parameters, and
    key -> parameter name for the entries that hand a parameter on.  The function body is followed statement by statement
    (dict displays, dict(...), lists of (key, value) pairs, .update(...), item stores); if anything else touches the
    dictionary the extraction is *incomplete* (`literal_params.complete` False) and nothing is assumed constant."""
    f = repo.func(SEQ + "utils.py", "revolver_parameters")
    params = {a.arg for a in f.args.args}
    dicts, pairs = {}, {}
    literal_params.complete = False

    def pair_list(v):
        if isinstance(v, (ast.List, ast.Tuple)) and all(isinstance(e, (ast.Tuple, ast.List)) and len(e.elts) == 2
                                                         and isinstance(e.elts[0], ast.Constant) for e in v.elts):
            return [(e.elts[0].value, e.elts[1]) for e in v.elts]
        return None

    def dict_of(v):
        """expression -> dict key -> value node, or None"""
        if isinstance(v, ast.Dict) and all(isinstance(k, ast.Constant) for k in v.keys):
            return {k.value: val for k, val in zip(v.keys, v.values)}
        if isinstance(v, ast.Name) and v.id in dicts:
            return dict(dicts[v.id])
        if isinstance(v, ast.Call) and isinstance(v.func, ast.Name) and v.func.id == "dict":
            out = {}
            for a in v.args:
                d = dict_of(a)
                if d is None:
                    pl = pairs.get(a.id) if isinstance(a, ast.Name) else pair_list(a)
                    if pl is None:
                        return None
                    d = dict(pl)
                out.update(d)
            for k in v.keywords:
                if k.arg is None:
                    d = dict_of(k.value)
                    if d is None:
                        return None
                    out.update(d)
                else:
                    out[k.arg] = k.value
            return out
        return None
    result = None
    ok = True
    for s_ in f.body:
        if isinstance(s_, ast.Expr) and isinstance(s_.value, ast.Constant):
            continue
        if isinstance(s_, ast.Assert):
            continue
        if isinstance(s_, ast.Assign) and len(s_.targets) == 1 and isinstance(s_.targets[0], ast.Name):
            d = dict_of(s_.value)
            if d is not None:
                dicts[s_.targets[0].id] = d
                continue
            pl = pair_list(s_.value)
            if pl is not None:
                pairs[s_.targets[0].id] = pl
                continue
            if any(isinstance(x, ast.Name) and (x.id in dicts or x.id in pairs) for x in ast.walk(s_.value)):
                ok = False
            continue
        if isinstance(s_, ast.Assign) and len(s_.targets) == 1 and isinstance(s_.targets[0], ast.Subscript) \
                and isinstance(s_.targets[0].value, ast.Name) and s_.targets[0].value.id in dicts \
                and isinstance(s_.targets[0].slice, ast.Constant):
            dicts[s_.targets[0].value.id][s_.targets[0].slice.value] = s_.value
            continue
        if isinstance(s_, ast.Expr) and isinstance(s_.value, ast.Call) and isinstance(s_.value.func, ast.Attribute) \
                and s_.value.func.attr == "update" and isinstance(s_.value.func.value, ast.Name) and s_.value.func.value.id in dicts:
            tgt = dicts[s_.value.func.value.id]
            good = True
            for a in s_.value.args:
                d = dict_of(a)
                if d is None:
                    pl = pairs.get(a.id) if isinstance(a, ast.Name) else pair_list(a)
                    if pl is None:
                        good = False
                        break
                    d = dict(pl)
                tgt.update(d)
            for k in s_.value.keywords:
                if k.arg is None:
                    good = False
                else:
                    tgt[k.arg] = k.value
            if not good:
                ok = False
            continue
        if isinstance(s_, ast.Return):
            result = dict_of(s_.value) if s_.value is not None else None
            break
        # anything else: fine as long as it does not touch the dictionaries
        if any(isinstance(x, ast.Name) and (x.id in dicts or x.id in pairs) for x in ast.walk(s_)):
            ok = False
    out, roles = {}, {}
    if result is None or not ok:
        return out, roles
    literal_params.complete = True
    for k, v in result.items():
        if isinstance(v, ast.Constant):
            out[k] = v.value
        elif isinstance(v, ast.Name) and v.id in params:
            roles[k] = v.id
    return out, roles


def const_env(fn, lit):
    """local name -> constant, for locals assigned exactly once from
    params["key"] with a literal entry; also reports names of the dict itself"""
    dict_names = set()
    if fn.args.kwarg is not None:
        # **params: may come from a caller's literal dict; only trusted when
        # every caller passes the literal dict (checked by the caller of this)
        dict_names.add(fn.args.kwarg.arg)
    assigned = {}
    for n in ast.walk(fn):
        if isinstance(n, ast.Assign) and len(n.targets) == 1 and isinstance(n.targets[0], ast.Name):
            assigned.setdefault(n.targets[0].id, []).append(n.value)
        elif isinstance(n, (ast.AugAssign, ast.AnnAssign)) and isinstance(n.target, ast.Name):
            assigned.setdefault(n.target.id, []).append(None)
        elif isinstance(n, (ast.For, ast.comprehension)) :
            for t in ast.walk(n.target):
                if isinstance(t, ast.Name):
                    assigned.setdefault(t.id, []).append(None)
    changed = True
    while changed:
        changed = False
        for name, vals in assigned.items():
            if name in dict_names or len(vals) != 1 or vals[0] is None:
                continue
            v = vals[0]
            if isinstance(v, ast.Call) and isinstance(v.func, ast.Name):
                if v.func.id == "revolver_parameters":
                    dict_names.add(name)
                    changed = True
                elif v.func.id == "dict" and len(v.args) == 1 and isinstance(v.args[0], ast.Name) \
                        and v.args[0].id in dict_names and not v.keywords:
                    dict_names.add(name)
                    changed = True
    # a dict that is written to loses its constant entries
    written = set()
    for n in ast.walk(fn):
        if isinstance(n, ast.Subscript) and isinstance(n.ctx, (ast.Store, ast.Del)) and isinstance(n.value, ast.Name):
            written.add(n.value.id)
        if isinstance(n, ast.Call) and isinstance(n.func, ast.Attribute) and isinstance(n.func.value, ast.Name) \
                and n.func.attr in ("update", "pop", "setdefault", "clear", "popitem"):
            written.add(n.func.value.id)
    dict_names -= written
    env = {}
    for name, vals in assigned.items():
        if len(vals) == 1 and isinstance(vals[0], ast.Subscript):
            v = vals[0]
            if isinstance(v.value, ast.Name) and v.value.id in dict_names and \
                    isinstance(v.slice, ast.Constant) and v.slice.value in lit:
                env[name] = lit[v.slice.value]
    return env, dict_names


def ev_const(node, env, dict_names, lit):
    if isinstance(node, ast.Constant):
        return node.value
    if isinstance(node, ast.Name):
        return env.get(node.id, UNKNOWN)
    if isinstance(node, ast.Subscript) and isinstance(node.value, ast.Name) and node.value.id in dict_names \
            and isinstance(node.slice, ast.Constant) and node.slice.value in lit:
        return lit[node.slice.value]
    if isinstance(node, ast.UnaryOp) and isinstance(node.op, ast.Not):
        v = ev_const(node.operand, env, dict_names, lit)
        return UNKNOWN if v is UNKNOWN else (not v)
    if isinstance(node, ast.BoolOp):
        vals = [ev_const(v, env, dict_names, lit) for v in node.values]
        if isinstance(node.op, ast.And):
            if any(v is not UNKNOWN and not v for v in vals):
                return False
            if all(v is not UNKNOWN for v in vals):
                return True
        else:
            if any(v is not UNKNOWN and v for v in vals):
                return True
            if all(v is not UNKNOWN for v in vals):
                return False
        return UNKNOWN
    if isinstance(node, ast.Compare) and len(node.ops) == 1 and isinstance(node.ops[0], (ast.Is, ast.IsNot)):
        a = ev_const(node.left, env, dict_names, lit)
        b = ev_const(node.comparators[0], env, dict_names, lit)
        if a is not UNKNOWN and b is not UNKNOWN:
            r = a is b
            return r if isinstance(node.ops[0], ast.Is) else not r
    return UNKNOWN


SAFE_CALLS = {"len", "int", "float", "min", "max", "abs", "range", "bool", "list", "tuple", "sum", "round", "sorted",
              "reversed", "enumerate", "zip", "isinstance", "str", "partial", "dict"}


def opaque_names(fn, funcs, dict_names):
    """locals whose value comes from a source the constant propagation does not model (an attribute of a local
    object, the result of a call of something that is neither a function of the package nor a plain builtin, an
    entry of a dictionary that is not the literal parameter dictionary): such a value *may* be one of the propagated
    constants, so a branch on it is not known to be live on both sides"""
    def opaque(e):
        for x in ast.walk(e):
            if isinstance(x, ast.Name) and x.id in names:
                return True
            if isinstance(x, ast.Attribute) and isinstance(x.ctx, ast.Load) and isinstance(x.value, ast.Name) \
                    and x.value.id in local_objs:
                return True
            if isinstance(x, ast.Call):
                f = x.func
                if isinstance(f, ast.Name):
                    if f.id not in funcs and f.id not in SAFE_CALLS and f.id not in ("Sequence", "Function", "Op", "Operation", "Table",
                                                                                    "argmin", "beta", "revolver_parameters"):
                        return True
                elif isinstance(f, ast.Attribute):
                    if f.attr in ("get", "pop", "setdefault") or (isinstance(f.value, ast.Name) and f.value.id in local_objs):
                        if f.attr not in ("insert", "insert_sequence", "append", "shift", "remove_useless_wm"):
                            return True
                else:
                    return True
            if isinstance(x, ast.Subscript) and isinstance(x.slice, ast.Constant) and isinstance(x.slice.value, str) \
                    and isinstance(x.value, ast.Name) and (x.value.id not in dict_names or not getattr(literal_params, "complete", True)):
                return True
        return False
    params = {a.arg for a in fn.args.args + fn.args.kwonlyargs}
    local_objs = set()
    for n in ast.walk(fn):
        if isinstance(n, ast.Assign) and len(n.targets) == 1 and isinstance(n.targets[0], ast.Name) \
                and isinstance(n.value, ast.Call) and isinstance(n.value.func, ast.Name) \
                and n.value.func.id not in funcs and n.value.func.id not in SAFE_CALLS \
                and n.value.func.id not in ("Sequence", "Function", "Op", "Operation", "Table", "argmin", "beta", "revolver_parameters"):
            local_objs.add(n.targets[0].id)
    names = set()
    changed = True
    while changed:
        changed = False
        for n in ast.walk(fn):
            if isinstance(n, ast.Assign):
                tg = [x.id for t in n.targets for x in ast.walk(t) if isinstance(x, ast.Name) and isinstance(x.ctx, ast.Store)]
                if tg and not set(tg) <= names and opaque(n.value):
                    names |= set(tg)
                    changed = True
    return names, opaque


class Liveness:
    """live statements / functions of hrevolve_sequences under constant
    propagation, starting from the entry points used by the schedule classes"""

    def __init__(self, repo):
        self.repo = repo
        self.lit, self.roles = literal_params(repo)
        self.funcs = {}
        for rel, m in repo.modules.items():
            if rel.startswith(SEQ):
                for n in m.tree.body:
                    if isinstance(n, ast.FunctionDef):
                        self.funcs[n.name] = (rel, n)
        self.envs = {}
        self.param_consts = {}
        self._opq = {}
        for _ in range(4):
            self.envs = {}
            self.dead_nodes = set()
            self.maybe_nodes = set()
            self.live_funcs = set()
            self._entries()
            pc = self._param_consts()
            if pc == self.param_consts:
                break
            self.param_consts = pc
        self._fold_ifexp()
        self._noneness()
        self._certain()

    def _fold_ifexp(self):
        """`A if <propagated constant> else B` is A (or B): folded in place, once per repository"""
        if getattr(self.repo, "_ifexp_folded", False):
            return
        self.repo._ifexp_folded = True
        lv = self

        for fname, (rel, fn) in self.funcs.items():
            env, dn = self.env_of(fname)

            class F(ast.NodeTransformer):
                def visit_IfExp(self, node):
                    self.generic_visit(node)
                    v = ev_const(node.test, env, dn, lv.lit)
                    if v is UNKNOWN:
                        return node
                    return node.body if v else node.orelse
            F().visit(fn)

    def _noneness(self):
        """`x is None` / `x is not None` tests on a local whose None-ness is known on every path reaching the test: the arm
        that cannot be taken is only *possibly* live (never refuted from).  Values: "N" (None), "NN" (not None), "U".
        Parameters with default None that no call site of the package passes are None (the schedule classes are the entry
        points); locals taken from the literal parameter dictionary have the literal's None-ness; a call of a package
        function all of whose returns are non-None expressions, arithmetic, comparisons and displays are not None."""
        passed = {}
        for rel, m in self.repo.modules.items():
            for node in ast.walk(m.tree):
                if isinstance(node, ast.Call):
                    nm = node.func.id if isinstance(node.func, ast.Name) else (node.func.attr if isinstance(node.func, ast.Attribute) else None)
                    if nm in self.funcs:
                        passed.setdefault(nm, []).append(node)

        def returns_value(fname, depth=0):
            rel, fn = self.funcs[fname]
            rets = [n for n in ast.walk(fn) if isinstance(n, ast.Return)]
            def valued(e):
                if isinstance(e, ast.Constant):
                    return e.value is not None
                if isinstance(e, (ast.BinOp, ast.Tuple, ast.List, ast.Compare)):
                    return True
                return isinstance(e, ast.Call) and isinstance(e.func, ast.Name) and e.func.id in ("int", "float", "max", "min", "len", "abs")
            return bool(rets) and all(r.value is not None and valued(r.value) for r in rets)
        for fname in sorted(self.live_funcs):
            rel, fn = self.funcs[fname]
            cenv, dn = self.env_of(fname)
            env = {}
            a = fn.args
            pos = [x.arg for x in a.args]
            defaults = dict(zip(pos[len(pos) - len(a.defaults):], a.defaults))
            for kw, d in zip(a.kwonlyargs, a.kw_defaults):
                if d is not None:
                    defaults[kw.arg] = d
            calls = passed.get(fname, [])
            for p_, d in defaults.items():
                if not (isinstance(d, ast.Constant) and d.value is None) or not calls:
                    continue
                given = False
                for c in calls:
                    if any(isinstance(x, ast.Starred) for x in c.args) or any(k.arg is None for k in c.keywords):
                        given = True
                    if p_ in pos and len(c.args) > pos.index(p_):
                        given = True
                    if any(k.arg == p_ for k in c.keywords):
                        given = True
                if not given:
                    env[p_] = "N"

            def val(e, env):
                if isinstance(e, ast.Constant):
                    return "N" if e.value is None else "NN"
                if isinstance(e, ast.Name):
                    if e.id in env:
                        return env[e.id]
                    if e.id in cenv and cenv[e.id] is not UNKNOWN:
                        return "N" if cenv[e.id] is None else "NN"
                    return "U"
                if isinstance(e, (ast.BinOp, ast.Compare, ast.BoolOp, ast.List, ast.Tuple, ast.Dict, ast.ListComp, ast.JoinedStr)):
                    return "NN" if not isinstance(e, ast.BoolOp) else "U"
                if isinstance(e, ast.Call) and isinstance(e.func, ast.Name):
                    if e.func.id in ("max", "min", "len", "int", "float", "abs", "sum", "list", "dict", "tuple", "range"):
                        return "NN"
                    if e.func.id in self.funcs and returns_value(e.func.id):
                        return "NN"
                    return "U"
                if isinstance(e, ast.Subscript):
                    v = ev_const(e, cenv, dn, self.lit)
                    if v is not UNKNOWN:
                        return "N" if v is None else "NN"
                    return "U"
                if isinstance(e, ast.IfExp):
                    x, y = val(e.body, env), val(e.orelse, env)
                    return x if x == y else "U"
                return "U"

            def join(e1, e2):
                if e1 is None:
                    return e2
                if e2 is None:
                    return e1
                return {k: (e1.get(k, "U") if e1.get(k, "U") == e2.get(k, "U") else "U") for k in set(e1) | set(e2)}

            def none_test(t, env):
                """True / False / None for the outcome of an `x is [not] None` test"""
                if isinstance(t, ast.Compare) and len(t.ops) == 1 and isinstance(t.ops[0], (ast.Is, ast.IsNot)) \
                        and isinstance(t.comparators[0], ast.Constant) and t.comparators[0].value is None \
                        and isinstance(t.left, ast.Name):
                    v = val(t.left, env)
                    if v == "U":
                        return None
                    return (v == "N") == isinstance(t.ops[0], ast.Is)
                return None

            def run(stmts, env):
                for st in stmts:
                    if env is None:
                        return None
                    if isinstance(st, ast.Assign):
                        v = val(st.value, env)
                        for t in st.targets:
                            for x in ast.walk(t):
                                if isinstance(x, ast.Name) and isinstance(x.ctx, ast.Store):
                                    env[x.id] = v if isinstance(t, ast.Name) else "U"
                    elif isinstance(st, (ast.AugAssign, ast.AnnAssign)):
                        for x in ast.walk(st.target):
                            if isinstance(x, ast.Name):
                                env[x.id] = "NN" if isinstance(st, ast.AugAssign) else "U"
                    elif isinstance(st, ast.If):
                        o = none_test(st.test, env)
                        if o is None:
                            c = ev_const(st.test, cenv, dn, self.lit)
                            o = None if c is UNKNOWN else bool(c)
                            mark = False
                        else:
                            mark = True
                        if o is None and st.body and all(id(d) in self.dead_nodes for d in st.body):
                            o = False
                        elif o is None and st.orelse and all(id(d) in self.dead_nodes for d in st.orelse):
                            o = True
                        if o is None:
                            env = join(run(st.body, dict(env)), run(st.orelse, dict(env)))
                        else:
                            taken, other = (st.body, st.orelse) if o else (st.orelse, st.body)
                            if mark:
                                for d in other:
                                    for n in ast.walk(d):
                                        self.maybe_nodes.add(id(n))
                            env = run(taken, env)
                    elif isinstance(st, (ast.For, ast.While)):
                        for x in ast.walk(st):
                            if isinstance(x, ast.Name) and isinstance(x.ctx, ast.Store):
                                env[x.id] = "U"
                        run(st.body, dict(env))
                        for x in ast.walk(st):
                            if isinstance(x, ast.Name) and isinstance(x.ctx, ast.Store):
                                env[x.id] = "U"
                    elif isinstance(st, (ast.Return, ast.Raise)):
                        return None
                    elif isinstance(st, (ast.With, ast.Try)):
                        for x in ast.walk(st):
                            if isinstance(x, ast.Name) and isinstance(x.ctx, ast.Store):
                                env[x.id] = "U"
                return env
            run(fn.body, env)

    def _certain(self):
        """functions reachable from the entry points through calls that do not sit under a branch on an opaque value;
        the other live functions are only *possibly* live (`maybe_funcs`)"""
        self.certain_funcs = set()
        todo = list(self.entries)
        while todo:
            f = todo.pop()
            if f in self.certain_funcs or f not in self.funcs:
                continue
            self.certain_funcs.add(f)
            for node in self.live_walk(f):
                if id(node) in self.maybe_nodes:
                    continue
                if isinstance(node, ast.Call) and isinstance(node.func, ast.Name) and node.func.id in self.funcs:
                    todo.append(node.func.id)
        self.maybe_funcs = {f for f in self.live_funcs if f not in self.certain_funcs}

    def maybe_taint(self):
        """taint entries (construct prefix -> reasons) for the possibly-live functions"""
        out = {}
        for f in sorted(self.maybe_funcs):
            rel, fn = self.funcs[f]
            out[f"{rel[:-3].replace('/', '.')}.{f}"] = [(fn.lineno, "this function is reached only through a branch on a value "
                                                         "whose origin the constant propagation cannot follow: it may be dead code")]
        return out

    def _opaque_test(self, fname, test):
        if fname not in self._opq:
            rel, fn = self.funcs[fname]
            env, dn = self.env_of(fname)
            self._opq[fname] = opaque_names(fn, self.funcs, dn)
        names, opaque = self._opq[fname]
        return opaque(test)

    def _param_consts(self):
        """parameter -> constant when every live in-package call site passes
        the same propagated constant (interprocedural step)"""
        seen = {}
        for f in sorted(self.live_funcs):
            env, dn = self.env_of(f)
            for node in self.live_walk(f):
                if not (isinstance(node, ast.Call) and isinstance(node.func, ast.Name)
                        and node.func.id in self.funcs):
                    continue
                rel, callee = self.funcs[node.func.id]
                params = [a.arg for a in callee.args.args]
                bound = {}
                for p, a in zip(params, node.args):
                    bound[p] = ev_const(a, env, dn, self.lit)
                for k in node.keywords:
                    if k.arg in params:
                        bound[k.arg] = ev_const(k.value, env, dn, self.lit)
                    elif k.arg is None:
                        # **dict: keys of the literal dict that are parameters
                        if isinstance(k.value, ast.Name) and k.value.id in dn:
                            for key, val in self.lit.items():
                                if key in params and key not in bound:
                                    bound[key] = val
                            for key in self.roles:
                                if key in params and key not in bound:
                                    bound[key] = UNKNOWN
                        else:
                            for p in params:
                                bound.setdefault(p, UNKNOWN)
                for p in params:
                    v = bound.get(p, "<default>")
                    seen.setdefault((node.func.id, p), []).append(v)
        out = {}
        for (f, p), vals in seen.items():
            if f in self.entries:
                continue
            vals = [v for v in vals if not (isinstance(v, str) and v == "<default>")] or None
            if vals and all(v is not UNKNOWN for v in vals) and all(v == vals[0] and type(v) is type(vals[0]) for v in vals):
                out[(f, p)] = vals[0]
        return out

    def env_of(self, name):
        if name not in self.envs:
            rel, fn = self.funcs[name]
            env, dn = const_env(fn, self.lit)
            reassigned = {n.id for n in ast.walk(fn) if isinstance(n, ast.Name) and isinstance(n.ctx, ast.Store)}
            for (f, p), v in self.param_consts.items():
                if f == name and p not in reassigned:
                    env.setdefault(p, v)
            # locals re-assigned under a dead or live branch: only single-assignment
            # names are in env, so flow does not matter
            self.envs[name] = (env, dn)
        return self.envs[name]

    def _entries(self):
        # entry points: what checkpoint_schedules/hrevolve.py imports from the subpackage
        rel = "hrevolve.py"
        entries = []
        for n in self.repo.module(rel).tree.body:
            if isinstance(n, ast.ImportFrom) and n.module and n.module.endswith("hrevolve_sequences"):
                entries += [a.name for a in n.names]
        self.entries = [e for e in entries if e in self.funcs]
        todo = list(self.entries)
        while todo:
            f = todo.pop()
            if f in self.live_funcs:
                continue
            self.live_funcs.add(f)
            rel, fn = self.funcs[f]
            for node in self.live_walk(f):
                if isinstance(node, ast.Call) and isinstance(node.func, ast.Name) and node.func.id in self.funcs:
                    todo.append(node.func.id)

    def live_body(self, fname, stmts, env_override=None):
        """yield the live statements of a statement list (recursively), pruning
        branches whose test is a propagated constant"""
        env, dn = self.env_of(fname)
        for s in stmts:
            yield s
            if isinstance(s, ast.If):
                v = ev_const(s.test, env, dn, self.lit)
                if v is UNKNOWN and fname == "disk_revolve" and isinstance(s.test, ast.Compare) and len(s.test.ops) == 1 \
                        and isinstance(s.test.ops[0], ast.Eq) and isinstance(s.test.left, ast.Name) and s.test.left.id == "cm" \
                        and isinstance(s.test.comparators[0], ast.Constant) and s.test.comparators[0].value == 0:
                    # Disk-Revolve without memory slots: the constructors reject snapshots_in_ram < 1 (decided by C17), and
                    # disk_revolve hands cm on unchanged, so no emitted stream comes from this branch
                    for d in s.body:
                        for n in ast.walk(d):
                            self.maybe_nodes.add(id(n))
                if v is UNKNOWN:
                    if self._opaque_test(fname, s.test):
                        for d in list(s.body) + list(s.orelse):
                            for n in ast.walk(d):
                                self.maybe_nodes.add(id(n))
                    yield from self.live_body(fname, s.body)
                    yield from self.live_body(fname, s.orelse)
                elif v:
                    for d in s.orelse:
                        self._mark_dead(d)
                    yield from self.live_body(fname, s.body)
                else:
                    for d in s.body:
                        self._mark_dead(d)
                    yield from self.live_body(fname, s.orelse)
            elif isinstance(s, (ast.While, ast.For)):
                yield from self.live_body(fname, s.body)
                yield from self.live_body(fname, s.orelse)
            elif isinstance(s, ast.FunctionDef):
                yield from self.live_body(fname, s.body)

    def _mark_dead(self, stmt):
        for n in ast.walk(stmt):
            self.dead_nodes.add(id(n))

    def live_walk(self, fname):
        """all live AST nodes of a function (expressions of live statements)"""
        rel, fn = self.funcs[fname]
        for s in self.live_body(fname, fn.body):
            if isinstance(s, (ast.If, ast.While)):
                # a test that folds to a constant keeps only its deciding part alive
                yield from self._live_expr(fname, s.test)
            elif isinstance(s, ast.For):
                yield from ast.walk(s.iter)
                yield from ast.walk(s.target)
            elif isinstance(s, ast.FunctionDef):
                continue
            else:
                yield from ast.walk(s)

    def _live_expr(self, fname, e):
        env, dn = self.env_of(fname)
        if isinstance(e, ast.BoolOp):
            for v in e.values:
                yield from self._live_expr(fname, v)
                c = ev_const(v, env, dn, self.lit)
                if c is not UNKNOWN and (bool(c) == isinstance(e.op, ast.Or)):
                    return  # short-circuit: the rest is never evaluated
            return
        yield from ast.walk(e)

    def is_live(self, fname):
        return fname in self.live_funcs
