"""vcheck driver:  vcheck <ID> [--tier quick|thorough] [--replay <path>]

Exit codes: 0 = every obligation proved (known findings reported as
KNOWN-FINDING lines), 1 = at least one REFUTED obligation that is not a listed
finding (VIOLATION line printed), 2 = analysis inconclusive / anchor vanished /
internal error (never a silent pass, never labelled a violation).
"""
import argparse
import importlib
import json
import os
import sys
import traceback

from .load import AnchorMissing, Repo
from .model import Model
from .report import Check
from .interp import Unsupported

PROPS = ["C01", "C02", "C03", "C04", "C07", "C08", "C09", "C10", "C11", "C12",
         "C13", "C14", "C15", "C16", "C17", "C18", "C19"]


class Ctx:
    def __init__(self, repo, tier, deep=False):
        self.repo, self.tier = repo, tier
        from . import interp
        interp.REPO = repo
        self.model = Model(repo, deep=deep)
        self.thorough = tier == "thorough"
        self.deep = deep


def run_property(pid, tier, seed=0, only=None, quiet=False):
    chk = Check(pid, tier, seed, quiet=quiet)
    try:
        repo = Repo()
        chk.repo = repo
        ctx = Ctx(repo, tier)
        # static taints of the sequence/table builders: possibly-dead code, constructs the grammar does not follow
        from .gram import Grammar
        from .tablefrag import table_taint
        g0 = Grammar(repo)
        chk.maybe_nodes = g0.liveness.maybe_nodes
        chk.taint(g0.liveness.maybe_taint())
        chk.taint(g0.taint())
        chk.taint(table_taint(repo, g0.liveness))
        mod = importlib.import_module(f"sa.rules.{pid.lower()}")
        mod.run(chk, ctx)
        chk.taint(ctx.model.tainted)
        chk.extra["normalisation"] = {
            "desugared": sorted({f"{r}:{f}:{x}" for r, f, x in repo.desugared}),
            "helpers_inlined": sorted({f"{r}:{f}<-{h}" for r, f, h in repo.inlined_helpers}),
            "conditional_locals_split": sorted({f"{r}:{f}:{x}" for r, f, x in repo.split_locals}),
            "block_locals_substituted": sorted({f"{f}:{x}" for f, x in repo.substituted_locals}),
            "properties_expanded": sorted({f"{r}:{c}.{f}" for r, c, f, n in repo.expanded_properties}),
            "properties_synthesised": sorted({f"{r}:{c}.{f}" for r, c, f in repo.synthesised_properties})}
        if chk.tainted:
            chk.extra["tainted_functions"] = {k: [f"line {w[0]}: {w[1]}" for w in v] for k, v in chk.tainted.items()}
        if tier == "thorough" and ctx.model.used_generators():
            # second cover of the state space: one generator run per boundary cell of the configuration
            # (every finite-domain attribute split, integer attributes split at lowest / lowest+1 / rest).
            # Each cover is complete by itself, so an obligation is PROVED if either cover proves it and
            # REFUTED if either refutes it (a refutation inside a feasible cell is definite).
            chk2 = Check(pid, tier, seed, quiet=True)
            chk2.repo = repo
            chk2.maybe_nodes = chk.maybe_nodes
            chk2.taint(chk.tainted)
            ctx2 = Ctx(repo, tier, deep=True)
            mod.run(chk2, ctx2)
            chk2.taint(ctx2.model.tainted)
            chk2.apply_taint()
            chk.combine(chk2, ctx2.model.cell_count())
    except AnchorMissing as e:
        chk.error(f"anchor vanished: {e}")
    except Unsupported as e:
        chk.error(f"construct outside the analysed fragment: {e}")
    except Exception as e:  # analyser bug: fail closed, never as a violation
        tb = traceback.format_exc().strip().splitlines()
        chk.error(f"internal error {type(e).__name__}: {e} ({tb[-3].strip() if len(tb) > 2 else ''})")
        if os.environ.get("VERIF_DEBUG"):
            traceback.print_exc()
    return chk.finish(only=only)


def main(argv=None):
    ap = argparse.ArgumentParser(prog="vcheck")
    ap.add_argument("pid")
    ap.add_argument("--tier", default=os.environ.get("VERIF_TIER", "quick"), choices=["quick", "thorough"])
    ap.add_argument("--replay")
    a = ap.parse_args(argv)
    seed = int(os.environ.get("VERIF_SEED", "0") or 0)
    if a.pid == "all":
        worst = 0
        for p in PROPS:
            worst = max(worst, run_property(p, a.tier, seed))
        return worst
    if a.pid not in PROPS:
        print(f"ANALYSIS-ERROR unknown property {a.pid}")
        return 2
    only = None
    if a.replay:
        with open(a.replay) as f:
            r = json.load(f)
        only = (r["rule"], r["construct"])
        print(f"replaying {r['rule']} at {r['construct']} ({r.get('where')}): {r.get('rule_text', '')}")
    return run_property(a.pid, a.tier, seed, only=only)


if __name__ == "__main__":
    sys.exit(main())
