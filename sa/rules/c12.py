"""C12 - working storage holds one thing at a time and no recomputation overshoots.

  ONE    every `yield Forward(a, b, _, True, WORK)` outside SingleMemoryStorageSchedule has
         b - a == 1 and ends at the adjoint position (b == max_n - r)
  CLEAR  every Reverse outside SingleMemoryStorageSchedule clears the adjoint data it used
  WORK   typestate of working storage: loads only into empty WORK, adjoint data written
         only when none is held, Reverse only with adjoint data present
  ADV    the step-size planner is asked for exactly max_n - r - n0 steps
  SEQ    (GRAM) every Write_Forward*(k) of the sequence builders is followed by Forward [k-1,k]
"""
from .common import *
from . import shared
from ..gram import Grammar, diff_const
from ..interp import truth

KEEP_ALL = "SingleMemoryStorageSchedule"   # the property exempts it: it keeps all n steps


def rule_converter_flags(chk, ctx):
    """converter (sequence -> actions): the `write_adj_deps` flag of a Forward is decided from the operation that precedes
    it in the sequence.  Only a Write_Forward announces that the step's adjoint data is wanted (and C12.SEQ shows that
    the step is then the unit step before the adjoint position); on every other branch the flag is the constant False.
    A branch that does not test for Write_Forward and lets the flag be anything but False writes adjoint data for a
    step that is not next to the adjoint position."""
    import ast
    for rel, q, f in ctx.repo.all_functions():
        if not (q.startswith(shared.CONVERTER + ".") and q.endswith("_iterator")):
            continue
        flags = set()
        for n in ast.walk(f):
            if isinstance(n, ast.Call) and isinstance(n.func, ast.Name) and n.func.id == "Forward":
                e = n.args[3] if len(n.args) > 3 else next((k.value for k in n.keywords if k.arg == "write_adj_deps"), None)
                if isinstance(e, ast.Name):
                    flags.add(e.id)
        if not flags:
            continue
        k = 0
        mod = ctx.repo.modules.get(rel)
        consts = {}
        if mod is not None:
            for st in mod.tree.body:
                if isinstance(st, ast.Assign) and len(st.targets) == 1 and isinstance(st.targets[0], ast.Name):
                    consts[st.targets[0].id] = st.value
        local = {}
        for x in ast.walk(f):
            if isinstance(x, ast.Assign) and len(x.targets) == 1 and isinstance(x.targets[0], ast.Name):
                local.setdefault(x.targets[0].id, []).append(x.value)

        def mentions(e, depth=0):
            """True / False / None: does the expression speak about the Write_Forward operation names"""
            if "Write_Forward" in ast.unparse(e):
                return True
            res = False
            for x in ast.walk(e):
                if isinstance(x, ast.Name) and x.id not in flags:
                    vals = local.get(x.id) or ([consts[x.id]] if x.id in consts else [])
                    for v in vals:
                        if depth > 3:
                            return None
                        m = mentions(v, depth + 1)
                        if m:
                            return True
                        if m is None:
                            res = None
                elif isinstance(x, ast.Call) and not (isinstance(x.func, ast.Name) and x.func.id in ("len", "int", "bool", "isinstance")):
                    res = None if res is False else res
            return res

        def pol(t):
            """(announced if the test holds, announced if it fails): True / False / None each"""
            m = mentions(t)
            if m is False:
                return (False, False)
            if isinstance(t, ast.UnaryOp) and isinstance(t.op, ast.Not):
                a, b = pol(t.operand)
                return (b, a)
            if isinstance(t, ast.Compare) and len(t.ops) == 1 and m is True:
                if isinstance(t.ops[0], (ast.Eq, ast.In)):
                    return (True, False)
                if isinstance(t.ops[0], (ast.NotEq, ast.NotIn)):
                    return (False, True)
            if isinstance(t, ast.BoolOp):
                ps = [pol(v) for v in t.values]
                tr, fl = [p[0] for p in ps], [p[1] for p in ps]

                def some(xs):       # announced if any of xs is (all hold together)
                    return True if any(x is True for x in xs) else (False if all(x is False for x in xs) else None)

                def every(xs):      # announced only if all of xs are (one of them holds)
                    return True if all(x is True for x in xs) else (False if all(x is False for x in xs) else None)
                if isinstance(t.op, ast.And):
                    return (some(tr), every(fl))
                return (every(tr), some(fl))
            return (None, None)

        def walk(body, guard):
            nonlocal k
            for st in body:
                if isinstance(st, ast.If):
                    a, b = pol(st.test)
                    walk(st.body, guard + [a])
                    walk(st.orelse, guard + [b])
                    continue
                if isinstance(st, (ast.While, ast.For, ast.With, ast.Try)):
                    for fld in ("body", "orelse", "finalbody"):
                        walk(getattr(st, fld, []) or [], guard)
                    for h in getattr(st, "handlers", []):
                        walk(h.body, guard)
                    continue
                if isinstance(st, ast.Assign) and len(st.targets) == 1 and isinstance(st.targets[0], ast.Name) \
                        and st.targets[0].id in flags:
                    v = st.value
                    announced = True if any(g is True for g in guard) else (None if any(g is None for g in guard) else False)
                    cons = f"{rel[:-3].replace('/', '.')}.{q}#adj-flag[{k}]"
                    k += 1
                    chk.files.add(rel)
                    chk.functions.add(f"{rel[:-3]}.{q}")
                    if isinstance(v, ast.Constant) and v.value is False:
                        chk.decide("C12.ONE", cons, True, "flag is False on this branch", rel=rel, node=st, nontrivial=False)
                    elif announced:
                        chk.decide("C12.ONE", cons, True, "flag set under a test for the preceding Write_Forward", rel=rel, node=st,
                                   nontrivial=False)
                    elif announced is None or mentions(v) is not False:
                        chk.decide("C12.ONE", cons, None, f"`{ast.unparse(st)}`: whether this branch is taken only after a "
                                   "Write_Forward is not followed", rel=rel, node=st, nontrivial=False)
                    elif isinstance(v, ast.Constant) or isinstance(v, (ast.Compare, ast.BoolOp, ast.UnaryOp)):
                        chk.decide("C12.ONE", cons, False,
                                   f"`{ast.unparse(st)}` on a branch that does not test for a preceding Write_Forward: the Forward "
                                   "would write adjoint dependency data for a step that the sequence did not announce as the one "
                                   "before the adjoint position", rel=rel, node=st, nontrivial=False)
                    else:
                        chk.decide("C12.ONE", cons, None, f"`{ast.unparse(st)}`: value of the flag not followed", rel=rel, node=st,
                                   nontrivial=False)
        walk(f.body, [])


def run(chk, ctx):
    chk.describe("C12.ONE", "adjoint dependencies go to WORK only for the single step immediately before the adjoint position")
    chk.describe("C12.CLEAR", "Reverse clears the adjoint dependency data (except the keep-everything schedule)")
    chk.describe("C12.SEQ", "Write_Forward(k) is followed by the unit step Forward [k-1, k] in the sequence builders")
    runs = all_runs(chk, ctx)
    rule_converter_flags(chk, ctx)
    for run_ in runs:
        for rec in recs(run_.interp):
            st, cons = rec.state, ycons(run_, rec)
            if rec.early and rec.kind != "Forward":
                continue
            if rec.kind == "Forward" and rec.arg(4, "storage") == WORK and truth(st, rec.arg(3)) is True \
                    and run_.cname != KEEP_ALL:
                a, b = rec.arg(0), rec.arg(1)
                if not (is_lin(a) and is_lin(b)):
                    if not rec.early:
                        chk.decide("C12.ONE", cons, None, "bounds not linear", rel=run_.rel, node=rec.node)
                    continue
                if run_.owner == shared.CONVERTER:
                    chk.note("C12.ONE for the converter: unit length follows from the grammar rule C12.SEQ "
                             "(Write_Forward(k) is followed by Forward [k-1,k]) and the converter's `w_n0 != n_1` guard")
                    continue
                tri(chk, "C12.ONE", cons, prove_eq(st, b - a - ONE), run_, rec, "length of the Forward that writes adjoint data minus 1")
                res = prove_eq(st, b - (M - R))
                if res[0] is None and run_.cname == "MixedCheckpointSchedule" and not rec.early:
                    chk.note("C12.ONE/position for Mixed relies on the planner returning FORWARD_REVERSE only for one "
                             "remaining step; the post-loop guards raise otherwise (C02.CONTIG proves hi == max_n - r at the Reverse)")
                else:
                    tri(chk, "C12.ONE", cons + "/pos", res, run_, rec, "end of that Forward minus the adjoint position max_n - r")
            if rec.kind == "Reverse" and run_.cname != KEEP_ALL:
                cl = truth(st, rec.arg(2, "clear_adj_deps"))
                chk.decide("C12.CLEAR", cons, cl, f"clear_adj_deps is {cl}" +
                           ("" if cl else ": adjoint data of a reversed step would stay in working storage") + shared.cfgs(run_),
                           rel=run_.rel, node=rec.node, nontrivial=False)
    shared.rule_work(chk, "C12.WORK", runs, skip_classes=(KEEP_ALL,))
    shared.rule_adv(chk, "C12.ADV", runs)
    # ---- grammar: no two loads in a row, along whole production paths
    from .c01 import rule_seq_paths
    rule_seq_paths(chk, "C12.SEQ", ctx)
    # ---- grammar: quartet head
    g = Grammar(ctx.repo)
    for b, op in g.ops():
        if not op.type.startswith("Write_Forward"):
            continue
        chk.files.add(op.rel)
        chk.functions.add(f"{op.rel[:-3]}.{op.fname}")
        run_ = op.run
        nxt = run_[op.pos + 1] if op.pos + 1 < len(run_) else None
        _, k = op.level_step()
        if nxt is None or nxt.kind != "op" or nxt.type != "Forward":
            chk.decide("C12.SEQ", op.construct, False if (nxt is not None and nxt.kind == "op") else None,
                       f"{op!r} is followed by {nxt!r}, not by a unit Forward", rel=op.rel, node=op.node)
            continue
        a, z = nxt.span()
        d1, d2 = diff_const(z, a), diff_const(k, z)
        ok = d1 == 1 and d2 == 0
        chk.decide("C12.SEQ", op.construct, True if ok else (False if d1 is not None and d2 is not None else None),
                   f"{op!r} then {nxt!r}: length {d1}, end offset {d2}", rel=op.rel, node=op.node)
