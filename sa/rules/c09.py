"""C09 - schedules conclude, repeat and report exhaustion exactly as documented.

  MULT    number of permitted adjoint calculations read off the loop structure of
          each generator, per configuration (0 / 1 / unbounded) == the documented table
  REPEAT  in a generator permitting further passes nothing produced before the pass
          loop is destroyed inside it: Reverse finds adjoint data in every pass
          (working-storage typestate), no Move of a forward-sweep checkpoint
  EXH     is_exhausted, abstractly evaluated with the facts holding at each yield:
          False at every non-final action, True from the final one on
  RUN     every attribute name tested with hasattr(self, "<literal>") is stored by some
          method; is_running tests the attribute the generator cache stores
  STOP    __next__ resumes the per-instance cached generator
"""
import ast

from .common import *
from . import shared
from ..interp import Interp

TABLE = {
    "NoneCheckpointSchedule": {(): "0"},
    "SingleMemoryStorageSchedule": {(): "inf"},
    "SingleDiskStorageSchedule": {(("self._move_data", "True"),): "1", (("self._move_data", "False"),): "inf"},
    "TwoLevelCheckpointSchedule": {(): "inf"},
    "MultistageCheckpointSchedule": {(): "1"},
    "MixedCheckpointSchedule": {(): "1"},
    "HRevolve": {(): "1"}, "DiskRevolve": {(): "1"}, "PeriodicDiskRevolve": {(): "1"}, "Revolve": {(): "1"},
}


def expected_mult(cname, cfg):
    t = TABLE.get(cname)
    if t is None:
        return None
    for key, v in t.items():
        if all(cfg.get(k) == val for k, val in key):
            return v
    return None


def exh_expr(repo, cname):
    rel, c, f = repo.resolve_method(cname, "is_exhausted")
    rets = [r for r in ast.walk(f) if isinstance(r, ast.Return)]
    raises = [r for r in ast.walk(f) if isinstance(r, ast.Raise)]
    if len(rets) == 1 and not raises:
        return rel, c, f, rets[0].value
    return rel, c, f, None


def tri_val(it, expr, st):
    t = it.assume(expr, st, True)
    f = it.assume(expr, st, False)
    if t and not f:
        return True
    if f and not t:
        return False
    return None


class Retro(ast.NodeTransformer):
    """is_exhausted as of the previous yield: self._n -> n@prev, self._r -> r@prev"""

    def visit_Attribute(self, n):
        if isinstance(n.value, ast.Name) and n.value.id == "self" and n.attr in ("_n", "_r"):
            return ast.copy_location(ast.Name({"_n": "n@prev", "_r": "r@prev"}[n.attr], ast.Load()), n)
        return n


def run(chk, ctx):
    chk.describe("C09.MULT", "permitted adjoint calculations per configuration, from the loop structure == documented table")
    chk.describe("C09.REPEAT", "further passes find what they need: adjoint data present at Reverse, no Move of forward-sweep checkpoints")
    chk.describe("C09.EXH", "is_exhausted is False at every non-final action and True from the final action on")
    chk.describe("C09.RUN", "hasattr(self, <literal>) names an attribute that is stored; is_running follows the generator cache")
    chk.describe("C09.STOP", "__next__ resumes the per-instance cached generator")
    repo = ctx.repo
    for cname_ in ctx.model.concrete_classes():
        shared.rule_observer_attrs(chk, "C09.EXH", repo, cname_, ("is_exhausted", "is_running"))
    for run_ in all_runs(chk, ctx):
        it = run_.interp
        cfg = run_.cfg_text()
        multi = multipass(run_)
        mult = "0" if not has_reverse(run_) else ("inf" if multi else "1")
        ends = any(o.kind in ("end", "return") for o in it.outcomes)
        if mult == "1" and not ends:
            mult = "?"
        exp = expected_mult(run_.cname, run_.config)
        cons = f"{run_.construct}#passes{cfg}" + (f"@{run_.cname}" if run_.owner != run_.cname else "")
        raises_only = mult == "0" and not ends and any(o.kind == "raise" for o in it.outcomes) \
            and not any(rec.kind == "EndForward" for rec in it.yields)
        if exp is None:
            chk.note(f"{run_.cname}{cfg}: {mult} adjoint calculations (class not in the documented table)")
        elif raises_only and not run_.numcase and not run_.config:
            # not a boundary cell and no configuration to blame: on every path the generator raises before the forward
            # calculation is complete - no instance of the class ever concludes
            chk.decide("C09.MULT", cons, False, f"{run_.cname}: every path raises before EndForward; documented: {exp} adjoint "
                       "calculation(s)", rel=run_.rel, node=run_.fn)
        elif raises_only and exp != "0":
            # a cell of the configuration in which the generator fails before the forward calculation is
            # complete is outside the domain the table speaks about (whether it must be rejected earlier
            # is C17's question)
            chk.note(f"{run_.cname}{cfg}: every path raises before EndForward; not a configuration of the documented table")
        else:
            chk.decide("C09.MULT", cons, True if mult == exp else (None if mult == "?" else False),
                       f"{run_.cname}{cfg} permits {mult} adjoint calculation(s); documented: {exp}",
                       rel=run_.rel, node=run_.fn)
        # ---- REPEAT: an adjoint calculation that consists of its EndReverse only (the action before it is EndForward or the
        # previous EndReverse) reverses nothing: it is not a repeat of the first.  Decided on the recorded states,
        # including those of the exactly followed second pass; refutation only.
        for rec in recs(it, ("EndReverse",)):
            if run_.owner == "RevolveCheckpointSchedule":
                break       # the converter's order of actions comes from the operation sequence, not from its shape
            ls = last_set(rec.state)
            if ls and all(y.startswith(("EndReverse", "EndForward")) for y in ls) and rec.state.enum_single("$ef") == "1":
                chk.decide("C09.REPEAT", ycons(run_, rec) + "/empty-pass", False,
                           f"EndReverse directly after {sorted(ls)}: this adjoint calculation contains no Reverse at all"
                           + (f" under {cfg}" if cfg else ""), rel=run_.rel, node=rec.node)
        wrote_after_ef = any(rec.kind == "Forward" and rec.state.enum_single("$ef") == "1" and
                             (rec.arg(2, "write_ics") == TRUE or
                              (rec.arg(3, "write_adj_deps") == TRUE and rec.arg(4, "storage") != WORK))
                             for rec in it.yields)
        for rec in it.yields:
            st, yc = rec.state, ycons(run_, rec)
            if rec.kind == "Reverse" and run_.owner == "RevolveCheckpointSchedule":
                chk.note("C09.REPEAT/working-storage typestate is not decided for the converter (it depends on the "
                         "operation sequence; the Write_Forward/Forward/Backward adjacency is decided under C01.SEQ)")
            elif rec.kind == "Reverse":
                w = st.enum_get("$work")
                vals = set(w[1]) if w and w[0] == "in" else None
                ok = None
                if vals is not None:
                    ok = True if vals <= {"A", "A*"} else (False if not (vals & {"A", "A*"}) else None)
                pas = "a repeated pass" if st.enum_is("$er", "1") == "yes" else "the first pass"
                plan_dep = any(k.startswith("@plan") and k.endswith(".k") for k in st.enums)
                if ok is False and plan_dep:
                    # as in the shared WORK rule: a path that branches on the step kinds a planner returns may be one the
                    # planner never takes (run-time table values)
                    ok = None
                chk.decide("C09.REPEAT", yc + ("/pass2" if st.enum_is("$er", "1") == "yes" else ""), ok,
                           f"working storage is {sorted(vals) if vals else '?'} when Reverse is emitted in {pas}"
                           + ("" if ok is not False else ": the adjoint dependency data were cleared by the previous pass")
                           + (f" under {cfg}" if cfg else ""), rel=run_.rel, node=rec.node)
            if rec.kind == "Move" and multi:
                x = rec.arg(0, "n")
                seeds = [s for s in st.symbols() | set(st.enums) if s.startswith("seed(")]
                if not wrote_after_ef and run_.numcase:
                    continue    # boundary cell without reachable reversal-time writes: the Move is not reachable either
                if not wrote_after_ef:
                    chk.decide("C09.REPEAT", yc, False,
                               "Move inside a repeatable adjoint pass, but no checkpoint is written after EndForward: "
                               "the moved data can only be forward-sweep data needed by the next pass"
                               + (f" under {cfg}" if cfg else ""), rel=run_.rel, node=rec.node)
                elif is_lin(x) and seeds:
                    res = None
                    for s in seeds:
                        d = x - Lin.sym(s)
                        if st.entails_neq(d):
                            res = True
                        elif st.entails_eq(d) == "yes":
                            res = False
                            break
                    chk.decide("C09.REPEAT", yc, res,
                               ("the moved step differs from the block's forward-sweep checkpoint" if res else
                                "the forward-sweep checkpoint of the block is moved (deleted) although further passes need it"
                                if res is False else "cannot relate the moved step to the forward-sweep checkpoint")
                               + (f" under {cfg}" if cfg else ""), rel=run_.rel, node=rec.node)
                else:
                    chk.decide("C09.REPEAT", yc, None, "Move in a repeatable pass with no tracked seed", rel=run_.rel, node=rec.node)
        # ---- EXH
        rel_e, c_e, f_e, expr = exh_expr(repo, run_.cname)
        chk.functions.add(f"{rel_e[:-3]}.{c_e.name}.is_exhausted")
        chk.files.add(rel_e)
        if expr is None:
            chk.decide("C09.EXH", f"{rel_e[:-3]}.{c_e.name}.is_exhausted", None,
                       "is_exhausted is not a single return expression (the base class raises NotImplementedError)",
                       rel=rel_e, node=f_e)
            continue
        retro = Retro().visit(ast.parse(ast.unparse(expr), mode="eval").body)
        ast.fix_missing_locations(retro)
        attrs = {n.attr for n in ast.walk(expr) if isinstance(n, ast.Attribute) and isinstance(n.value, ast.Name)
                 and n.value.id == "self"}
        fin = finality(run_)
        helper = Interp(run_.fn, finalize_havoc=False)
        undecided = {}
        for rec in it.yields:
            st, yc = rec.state, ycons(run_, rec)
            end, follow = fin.get(rec.yid, (False, True))
            val = tri_val(helper, expr, st)
            if end and not follow:
                chk.decide("C09.EXH", yc, val, f"final action {rec.yid}: is_exhausted evaluates to {val}, must be True"
                           + (f" under {cfg}" if cfg else ""), rel=run_.rel, node=rec.node) if val is not False else \
                    chk.decide("C09.EXH", yc, False, f"is_exhausted is False after the final action {rec.yid} has been emitted"
                               + (f" under {cfg}" if cfg else ""), rel=run_.rel, node=rec.node)
            elif not end:
                if val is None:
                    undecided[rec.yid] = (rec, yc)
                else:
                    chk.decide("C09.EXH", yc, not val,
                               f"non-final action {rec.yid}: is_exhausted evaluates to {val}"
                               + ("" if not val else " although actions remain") + (f" under {cfg}" if cfg else ""),
                               rel=run_.rel, node=rec.node)
            else:
                chk.decide("C09.EXH", yc, None, f"{rec.yid} is final on some paths only", rel=run_.rel, node=rec.node)
            # retrospective: was is_exhausted already True when the previous action had been emitted?
            seg = st.may.get("$seg", frozenset())
            if not ((attrs - {"_n", "_r"}) & seg):
                rv = tri_val(helper, retro, st)
                ls = last_set(st) or set()
                for y in ls:
                    if y in undecided or True:
                        if rv is True and y != "entry":
                            prev = [r for r in it.yields if r.yid == y]
                            if prev:
                                chk.decide("C09.EXH", ycons(run_, prev[0]), False,
                                           f"is_exhausted is already True after {y} although {rec.yid} is still to be emitted"
                                           + (f" under {cfg}" if cfg else ""), rel=run_.rel, node=prev[0].node)
        for y, (rec, yc) in undecided.items():
            already = any(o.construct == yc and o.rule == "C09.EXH" for o in chk.obs)
            if not already:
                chk.decide("C09.EXH", yc, None, f"non-final action {y}: is_exhausted not decided by the facts at the yield"
                           + (f" under {cfg}" if cfg else ""), rel=run_.rel, node=rec.node)
    # ---- RUN
    stored = set()
    for rel, q, f in repo.all_functions():
        stored |= attr_stores(f)
    rel, base = repo.find_class("CheckpointSchedule")
    for rel2, q, f in repo.all_functions():
        for n in ast.walk(f):
            if isinstance(n, ast.Call) and isinstance(n.func, ast.Name) and n.func.id in ("hasattr", "getattr") \
                    and len(n.args) >= 2 and isinstance(n.args[0], ast.Name) and n.args[0].id == "self":
                chk.functions.add(f"{rel2[:-3]}.{q}")
                chk.files.add(rel2)
                cons = f"{rel2[:-3].replace('/', '.')}.{q}#{n.func.id}"
                if isinstance(n.args[1], ast.Constant) and isinstance(n.args[1].value, str):
                    a = n.args[1].value
                    ok = a in stored
                    chk.decide("C09.RUN", cons, True if ok else False,
                               f"{ast.unparse(n)}: attribute {a!r} is " + ("stored by some method" if ok else
                               "never stored by any method of the package, the test is constantly False"),
                               rel=rel2, node=n)
                else:
                    chk.decide("C09.RUN", cons, None, "computed attribute name", rel=rel2, node=n)
    # is_running must test the attribute the wrapper stores, and constructors must not store it
    isr = repo.method(rel, "CheckpointSchedule", "is_running")
    sub = repo.method(rel, "CheckpointSchedule", "__init_subclass__")
    chk.functions.add(f"{rel[:-3]}.CheckpointSchedule.is_running")
    chk.functions.add(f"{rel[:-3]}.CheckpointSchedule.__init_subclass__")
    fw = find_cache_wrapper(repo)
    cache_attrs = attr_stores(fw[2]) if fw else attr_stores(sub)
    tested = {n.args[1].value for n in ast.walk(isr) if isinstance(n, ast.Call) and isinstance(n.func, ast.Name)
              and n.func.id == "hasattr" and len(n.args) == 2 and isinstance(n.args[1], ast.Constant)}
    cons = f"{rel[:-3]}.CheckpointSchedule.is_running"
    if not tested or not cache_attrs:
        chk.decide("C09.RUN", cons + "#cache", None, f"is_running tests {sorted(tested)}, generator cache stores {sorted(cache_attrs)}",
                   rel=rel, node=isr)
    else:
        ok = tested <= cache_attrs
        chk.decide("C09.RUN", cons + "#cache", True if ok else False,
                   f"is_running tests {sorted(tested)}; the generator cache created by the first __next__ stores {sorted(cache_attrs)}",
                   rel=rel, node=isr)
        init_stores = set()
        for cname in ["CheckpointSchedule"] + repo.schedule_classes():
            r3, c3 = repo.find_class(cname)
            for f in c3.body:
                if isinstance(f, ast.FunctionDef) and f.name == "__init__":
                    init_stores |= attr_stores(f)
        early = tested & init_stores
        chk.decide("C09.RUN", cons + "#not-early", False if early else True,
                   f"attributes {sorted(early)} tested by is_running are stored by a constructor: is_running would be True before the first action"
                   if early else "no constructor stores the attribute is_running tests", rel=rel, node=isr, nontrivial=False)
    # ---- STOP
    nx = repo.method(rel, "CheckpointSchedule", "__next__")
    chk.functions.add(f"{rel[:-3]}.CheckpointSchedule.__next__")
    src = ast.unparse(nx.body[-1]) if nx.body else ""
    ok = src.replace(" ", "") == "returnnext(self._iterator())"
    chk.decide("C09.STOP", f"{rel[:-3]}.CheckpointSchedule.__next__", True if ok else None,
               f"__next__ body: {src}", rel=rel, node=nx, nontrivial=False)
    # the wrapper returns the cached generator: `if not hasattr(self, A): self.A = cls_iter(self); return self.A`
    cons = f"{rel[:-3]}.CheckpointSchedule.__init_subclass__#wrapper"
    if fw is None:
        chk.decide("C09.STOP", cons, None, "generator-caching wrapper not found", rel=rel, node=sub)
    else:
        w = fw[2]
        st_attrs = attr_stores(w)
        rets = [r for r in ast.walk(w) if isinstance(r, ast.Return)]
        tests = wrapper_tests(w)
        ret_attr = {r.value.attr for r in rets if isinstance(r.value, ast.Attribute) and isinstance(r.value.value, ast.Name)
                    and r.value.value.id == "self"}
        ok = len(st_attrs) == 1 and st_attrs == tests == ret_attr
        definite = bool(st_attrs) and bool(tests) and bool(ret_attr)
        chk.decide("C09.STOP", cons, True if ok else (False if definite else None),
                   f"wrapper tests {sorted(tests)}, stores {sorted(st_attrs)}, returns {sorted(ret_attr)}"
                   + ("" if ok else ": a fresh generator would be created on each __next__ / a different one returned"),
                   rel=rel, node=w)
