"""C18 - actions are well-formed value objects.

  EQ     CheckpointAction.__eq__: the class argument of isinstance/issubclass is
         type-valued (never the instance being compared), the parameters are compared
  ARGS   every action class passes its parameters to super().__init__ in declaration
         order and the accessor named p returns args[position of p]  (so that repr ->
         eval reproduces an equal object); StorageType.__repr__ is a qualified name
  RANGE  __iter__/__len__/__contains__ of Forward and Reverse denote [n0, n1)
         (Reverse descending), decided on symbolic cells
  FLAGS  at every `yield Forward`: storage RAM/DISK => a write flag is True,
         storage NONE => both False (finite value sets per configuration)
  ORDER  n1 > n0 at every `yield Forward` / `yield Reverse` (dataflow facts)
"""
import ast

from .common import *
from ..interp import Interp
from ..karr import State

ACTIONS = ["Forward", "Reverse", "Copy", "Move", "EndForward", "EndReverse"]


def type_valued(node, params):
    """True: certainly a type; False: certainly an instance parameter; None: unknown"""
    if isinstance(node, ast.Call) and isinstance(node.func, ast.Name) and node.func.id == "type":
        return True
    if isinstance(node, ast.Attribute) and node.attr == "__class__":
        return True
    if isinstance(node, ast.Name):
        if node.id in params:
            return False
        if node.id[:1].isupper():
            return True
    if isinstance(node, ast.Tuple):
        r = [type_valued(e, params) for e in node.elts]
        if all(x is True for x in r):
            return True
        if any(x is False for x in r):
            return False
    return None


def check_eq(chk, repo):
    rel, c = repo.find_class("CheckpointAction")
    f = repo.method(rel, "CheckpointAction", "__eq__")
    chk.functions.add(f"{rel[:-3]}.CheckpointAction.__eq__")
    cons = f"{rel[:-3]}.CheckpointAction.__eq__"
    params = [a.arg for a in f.args.args]
    calls = [n for n in ast.walk(f) if isinstance(n, ast.Call) and isinstance(n.func, ast.Name)
             and n.func.id in ("isinstance", "issubclass") and len(n.args) == 2]
    typecmp = [n for n in ast.walk(f) if isinstance(n, ast.Compare) and
               any(isinstance(x, ast.Call) and isinstance(x.func, ast.Name) and x.func.id == "type"
                   for x in [n.left] + n.comparators)]
    if not calls and not typecmp:
        chk.decide("C18.EQ", cons + "#kind", None, "no recognised kind comparison in __eq__", rel=rel, node=f)
    for i, n in enumerate(calls):
        tv = type_valued(n.args[1], params)
        chk.decide("C18.EQ", cons + "#kind", tv,
                   f"{ast.unparse(n)}: second argument is " +
                   ("type-valued" if tv else "the instance parameter: raises TypeError for every operand pair"
                    if tv is False else "of unknown kind"), rel=rel, node=n)
        if n.func.id == "isinstance":
            iv = type_valued(n.args[0], params)
            if iv is True:
                chk.decide("C18.EQ", cons + "#kind", False, f"{ast.unparse(n)}: first argument is a type", rel=rel, node=n)
    for n in typecmp:
        ok = isinstance(n.ops[0], (ast.Is, ast.Eq)) and len(n.ops) == 1
        chk.decide("C18.EQ", cons + "#kind", True if ok else None, f"{ast.unparse(n)}", rel=rel, node=n)
    # the comparison must involve the dynamic class of self: a test against one fixed class that several
    # action classes derive from makes actions of different kinds with equal parameters compare equal
    dynamic = any(isinstance(x, ast.Call) and isinstance(x.func, ast.Name) and x.func.id == "type" and x.args
                  and isinstance(x.args[0], ast.Name) and x.args[0].id == params[0]
                  for n in calls + typecmp for x in ast.walk(n)) or \
        any(isinstance(x, ast.Attribute) and x.attr == "__class__" for n in calls + typecmp for x in ast.walk(n))
    fixed = [n for n in calls if isinstance(n.args[1], ast.Name) and n.args[1].id[:1].isupper()]
    if (calls or typecmp) and not dynamic:
        subs = [c2.name for _, c2 in repo.all_classes() if fixed and fixed[0].args[1].id in repo.bases(c2)]
        chk.decide("C18.EQ", cons + "#same-kind", False if (fixed and len(subs) > 1) else None,
                   f"the kind test `{ast.unparse((calls + typecmp)[0])}` does not involve type(self)" +
                   (f": {subs[:4]} all pass it, so e.g. a Copy equals a Move with the same parameters" if fixed else ""),
                   rel=rel, node=(calls + typecmp)[0])
    elif calls or typecmp:
        chk.decide("C18.EQ", cons + "#same-kind", True, "the kind test involves the dynamic class of self", rel=rel, node=f,
                   nontrivial=False)
    # parameters compared: self.args == other.args
    argcmp = False
    for n in ast.walk(f):
        if isinstance(n, ast.Compare) and len(n.ops) == 1 and isinstance(n.ops[0], ast.Eq):
            sides = [n.left, n.comparators[0]]
            if all(isinstance(s, ast.Attribute) and s.attr == "args" and isinstance(s.value, ast.Name) for s in sides) \
                    and {s.value.id for s in sides} == set(params[:2]):
                argcmp = True
    chk.decide("C18.EQ", cons + "#args", True if argcmp else None,
               "self.args == other.args is part of the result" if argcmp else "parameter comparison not recognised",
               rel=rel, node=f)
    # truth table: with K = "same kind" and A = "equal parameters" standing for the kind test and the parameter comparison,
    # the result must be K and A on all four valuations (guard clauses `if <test>: return <constant>` are followed)
    def abstract(e):
        """expression -> function of (K, A) or None"""
        if isinstance(e, ast.Constant) and isinstance(e.value, bool):
            return lambda K, A, v=e.value: v
        if isinstance(e, ast.Name) and e.id == "NotImplemented":
            return lambda K, A: False      # the other operand is asked: it answers with the same definition
        if any(e is n for n in calls) or any(e is n for n in typecmp):
            neg = any(e is n for n in typecmp) and isinstance(e.ops[0], (ast.IsNot, ast.NotEq))
            return (lambda K, A: not K) if neg else (lambda K, A: K)
        if isinstance(e, ast.Compare) and len(e.ops) == 1 and isinstance(e.ops[0], (ast.Eq, ast.NotEq)):
            sides = [e.left, e.comparators[0]]
            if all(isinstance(s_, ast.Attribute) and s_.attr == "args" and isinstance(s_.value, ast.Name) for s_ in sides) \
                    and {s_.value.id for s_ in sides} == set(params[:2]):
                return (lambda K, A: A) if isinstance(e.ops[0], ast.Eq) else (lambda K, A: not A)
        if isinstance(e, ast.UnaryOp) and isinstance(e.op, ast.Not):
            g = abstract(e.operand)
            return None if g is None else (lambda K, A: not g(K, A))
        if isinstance(e, ast.BoolOp):
            gs = [abstract(v) for v in e.values]
            if any(g is None for g in gs):
                return None
            if isinstance(e.op, ast.And):
                return lambda K, A: all(g(K, A) for g in gs)
            return lambda K, A: any(g(K, A) for g in gs)
        return None

    def run_body(stmts, K, A):
        for s_ in stmts:
            if isinstance(s_, ast.Expr) and isinstance(s_.value, ast.Constant):
                continue
            if isinstance(s_, ast.Return):
                g = abstract(s_.value) if s_.value is not None else None
                return None if g is None else ("ret", g(K, A))
            if isinstance(s_, ast.If):
                g = abstract(s_.test)
                if g is None:
                    return None
                r = run_body(s_.body if g(K, A) else s_.orelse, K, A)
                if r is None:
                    return None
                if r[0] == "ret":
                    return r
                continue
            return None
        return ("fall",)
    table, okt = {}, True
    for K in (True, False):
        for A in (True, False):
            r = run_body(f.body, K, A)
            if r is None or r[0] != "ret":
                okt = None
                break
            table[(K, A)] = r[1]
        if okt is None:
            break
    if okt is not None:
        wrong = [(K, A) for (K, A), v in table.items() if v != (K and A)]
        chk.decide("C18.EQ", cons + "#truth-table", True if not wrong else False,
                   "__eq__ is (same kind) and (equal parameters) on all four cases" if not wrong else
                   f"__eq__ answers {table[wrong[0]]} for same-kind={wrong[0][0]}, equal-parameters={wrong[0][1]}", rel=rel, node=f,
                   nontrivial=False)
    # every return combines both
    rets = [r for r in ast.walk(f) if isinstance(r, ast.Return)]
    chk.decide("C18.EQ", cons + "#returns", True if len(rets) >= 1 and all(r.value is not None for r in rets) else False,
               "__eq__ returns a value on every path", rel=rel, node=f, nontrivial=False)
    # the six action kinds are distinct values: if one action class derives from another, a kind test by isinstance
    # lets the base class's __eq__ accept the derived kind; Python asks the derived operand first, so this shows
    # exactly when the mismatch result is NotImplemented (fall back to the other operand) instead of False
    derived = []
    for a in ACTIONS:
        for _, b in repo.mro(a)[1:]:
            if b.name in ACTIONS:
                derived.append((a, b.name))
    uses_isinstance = any(n.func.id == "isinstance" for n in calls)
    not_impl = any(isinstance(r.value, ast.Name) and r.value.id == "NotImplemented" for r in ast.walk(f) if isinstance(r, ast.Return))
    if derived:
        bad = uses_isinstance and not_impl
        chk.decide("C18.EQ", cons + "#distinct-kinds", False if bad else (True if (typecmp and not uses_isinstance) or uses_isinstance else None),
                   f"action classes derive from one another {derived}: " +
                   (f"`{derived[0][1]}(...) == {derived[0][0]}(...)` first asks {derived[0][0]}.__eq__, which answers NotImplemented, then "
                    f"{derived[0][1]}.__eq__, whose isinstance test accepts the derived kind: the two compare equal" if bad else
                    "the derived operand is asked first and answers False, or kinds are compared exactly"), rel=rel, node=f)
    else:
        chk.decide("C18.EQ", cons + "#distinct-kinds", True, "no action class derives from another action class", rel=rel, node=f,
                   nontrivial=False)
    for cname in ACTIONS:
        r2, c2 = repo.find_class(cname)
        for g in c2.body:
            if isinstance(g, ast.FunctionDef) and g.name in ("__eq__", "__ne__", "__repr__"):
                chk.decide("C18.EQ", f"{r2[:-3]}.{cname}.{g.name}", None,
                           f"{cname} overrides {g.name}; only the base class definition was analysed", rel=r2, node=g)


def check_enums(chk, repo):
    """members of StorageType / StepType have pairwise different values (equal values make one member an alias of the other:
    `StorageType.RAM is StorageType.DISK`)"""
    for ename in ("StorageType", "StepType"):
        try:
            rel, c = repo.find_class(ename)
        except Exception:
            continue
        vals = {}
        for b_ in c.body:
            if isinstance(b_, ast.Assign) and len(b_.targets) == 1 and isinstance(b_.targets[0], ast.Name) and isinstance(b_.value, ast.Constant):
                vals.setdefault(repr(b_.value.value), []).append(b_.targets[0].id)
        dup = [v for v in vals.values() if len(v) > 1]
        chk.decide("C18.FLAGS", f"{rel[:-3]}.{ename}#distinct-members", True if not dup else False,
                   f"{ename}: members have distinct values" if not dup else f"{ename}: {dup[0]} share one value and are the same member",
                   rel=rel, node=c, nontrivial=False)
    # the constructor of the action base class keeps its arguments where the accessors read them
    rel, c = repo.find_class("CheckpointAction")
    init = repo.method(rel, "CheckpointAction", "__init__", required=False)
    if init is not None and init.args.vararg is not None:
        stored = any(isinstance(a, ast.Assign) and any(isinstance(t, ast.Attribute) and t.attr == "args" and isinstance(t.value, ast.Name)
                                                       and t.value.id == "self" for t in a.targets)
                     and isinstance(a.value, ast.Name) and a.value.id == init.args.vararg.arg for a in ast.walk(init))
        chk.decide("C18.ARGS", f"{rel[:-3]}.CheckpointAction.__init__#stores-args", True if stored else False,
                   "the constructor stores its arguments in self.args" if stored else
                   "the constructor does not store its arguments in self.args: every accessor, comparison and repr fails",
                   rel=rel, node=init, nontrivial=False)


def check_args(chk, repo):
    for cname in ACTIONS:
        rel, c = repo.find_class(cname)
        # the constructor and the accessors may be inherited from another action class
        chain = [cc for _, cc in repo.mro(cname) if cc.name != "CheckpointAction"]
        init = None
        for cc in chain:
            for g_ in cc.body:
                if isinstance(g_, ast.FunctionDef) and g_.name == "__init__" and init is None:
                    init = g_
        if init is None:
            chk.decide("C18.ARGS", f"{rel[:-3]}.{cname}.__init__", None, "no constructor of its own or inherited from an action class",
                       rel=rel, node=c)
            continue
        chk.functions.add(f"{rel[:-3]}.{cname}.__init__")
        params = [a.arg for a in init.args.args[1:]]
        sup = None
        for n in ast.walk(init):
            if isinstance(n, ast.Call) and isinstance(n.func, ast.Attribute) and n.func.attr == "__init__" \
                    and isinstance(n.func.value, ast.Call) and isinstance(n.func.value.func, ast.Name) \
                    and n.func.value.func.id == "super":
                sup = n
        cons = f"{rel[:-3]}.{cname}.__init__"
        if sup is None:
            chk.decide("C18.ARGS", cons, None, "no super().__init__ call", rel=rel, node=init)
            continue
        passed = [a.id if isinstance(a, ast.Name) else None for a in sup.args]
        if sup.keywords or None in passed:
            chk.decide("C18.ARGS", cons, None, f"unrecognised argument list {ast.unparse(sup)}", rel=rel, node=sup)
            continue
        ok = passed == params
        chk.decide("C18.ARGS", cons, True if ok else False,
                   f"parameters {params} stored as args {passed}" + ("" if ok else
                   ": repr() prints args in stored order, eval(repr(a)) would rebuild a different action"),
                   rel=rel, node=sup, nontrivial=False)
        # accessors
        members, seen_m = [], set()
        for cc in chain:
            for g_ in cc.body:
                if isinstance(g_, ast.FunctionDef) and g_.name not in seen_m:
                    seen_m.add(g_.name)
                    members.append(g_)
        for g in members:
            if not isinstance(g, ast.FunctionDef) or g.name.startswith("__"):
                continue
            is_prop = any(isinstance(d, ast.Name) and d.id == "property" for d in g.decorator_list)
            if not is_prop:
                continue
            chk.functions.add(f"{rel[:-3]}.{cname}.{g.name}")
            rets = [r for r in ast.walk(g) if isinstance(r, ast.Return)]
            acons = f"{rel[:-3]}.{cname}.{g.name}"
            idx = None
            if len(rets) == 1 and isinstance(rets[0].value, ast.Subscript) and \
                    isinstance(rets[0].value.value, ast.Attribute) and rets[0].value.value.attr == "args" and \
                    isinstance(rets[0].value.slice, ast.Constant) and isinstance(rets[0].value.slice.value, int):
                idx = rets[0].value.slice.value
            if g.name in params:
                if idx is None:
                    chk.decide("C18.ARGS", acons, None, "accessor body not of the form `return self.args[i]`", rel=rel, node=g)
                else:
                    want = passed.index(g.name) if g.name in passed else None
                    norm = idx if idx >= 0 else idx + len(passed)
                    chk.decide("C18.ARGS", acons, True if norm == want else False,
                               f"accessor {g.name} returns args[{idx}], parameter {g.name} is stored at position {want}",
                               rel=rel, node=g)
        for p in params:
            if not any(isinstance(g, ast.FunctionDef) and g.name == p for g in members):
                chk.decide("C18.ARGS", f"{rel[:-3]}.{cname}.{p}", None, f"no accessor for parameter {p}", rel=rel, node=c)
    # StorageType.__repr__ must yield a qualified name that evaluates back
    rel, c = repo.find_class("StorageType")
    r = repo.method(rel, "StorageType", "__repr__", required=False)
    cons = f"{rel[:-3]}.StorageType.__repr__"
    if r is None:
        chk.decide("C18.ARGS", cons, False, "StorageType has no __repr__: the default <StorageType.RAM: 0> does not evaluate", rel=rel, node=c)
    else:
        rets = [x for x in ast.walk(r) if isinstance(x, ast.Return)]
        src = ast.unparse(rets[0].value) if len(rets) == 1 and rets[0].value is not None else ""
        has_name = "self.name" in src or "self._name_" in src
        has_cls = "__name__" in src or "StorageType" in src or "__qualname__" in src
        has_dot = '"."' in src or "'.'" in src or "." in "".join(
            n.value for n in ast.walk(rets[0].value) if isinstance(n, ast.Constant) and isinstance(n.value, str)) if rets else False
        if has_name and has_cls and has_dot:
            chk.decide("C18.ARGS", cons, True, f"returns {src}", rel=rel, node=r, nontrivial=False)
        elif src in ("self.name", "self._name_", "str(self.name)"):
            chk.decide("C18.ARGS", cons, False, f"returns {src}: a bare member name does not evaluate back", rel=rel, node=r)
        else:
            chk.decide("C18.ARGS", cons, None, f"unrecognised repr {src}", rel=rel, node=r)
    # CheckpointAction.__repr__ prints type name and args in order
    rel, c = repo.find_class("CheckpointAction")
    r = repo.method(rel, "CheckpointAction", "__repr__")
    src = ast.unparse(r)
    ok = "type(self).__name__" in src and "self.args" in src and "reversed" not in src and "sorted" not in src
    chk.decide("C18.ARGS", f"{rel[:-3]}.CheckpointAction.__repr__", True if ok else None,
               "repr is <class name>(<args in stored order>)", rel=rel, node=r, nontrivial=False)


def cell_states(extra=None):
    """cells for a symbolic step s against n0 < n1"""
    n0, n1, s = Lin.sym("self.n0"), Lin.sym("self.n1"), Lin.sym("step")
    out = []
    for name, cons, expect in (("step<=n0-1", [n0 - s - ONE], False),
                               ("step==n0", [("eq", s - n0)], True),
                               ("n0<step<n1-1", [s - n0 - ONE, n1 - s - Lin.const(2)], True),
                               ("step==n1-1", [("eq", s - n1 + ONE)], True),
                               ("step==n1", [("eq", s - n1)], False),
                               ("step>=n1+1", [s - n1 - ONE], False)):
        st = State()
        st.add_ineq(n1 - n0 - ONE)
        for c in cons:
            if isinstance(c, tuple):
                st.add_eq(c[1])
            else:
                st.add_ineq(c)
        if not st.bottom:
            out.append((name, st, expect))
    return out


def attr_lin(node):
    """Lin over self.n0/self.n1 of a simple arithmetic expression"""
    if isinstance(node, ast.Constant) and isinstance(node.value, int) and not isinstance(node.value, bool):
        return Lin.const(node.value)
    if isinstance(node, ast.Attribute) and isinstance(node.value, ast.Name) and node.value.id == "self":
        return Lin.sym("self." + node.attr)
    if isinstance(node, ast.UnaryOp) and isinstance(node.op, ast.USub):
        v = attr_lin(node.operand)
        return None if v is None else -v
    if isinstance(node, ast.BinOp) and isinstance(node.op, (ast.Add, ast.Sub)):
        a, b = attr_lin(node.left), attr_lin(node.right)
        if a is None or b is None:
            return None
        return a + b if isinstance(node.op, ast.Add) else a - b
    return None


def accessor_table(repo, cname):
    """index -> accessor name, from the properties of the class of the form `return self.args[k]`"""
    out = {}
    for _, c in repo.mro(cname):
        for f in c.body:
            if isinstance(f, ast.FunctionDef) and any(ast.unparse(d) == "property" for d in f.decorator_list):
                body = [b for b in f.body if not (isinstance(b, ast.Expr) and isinstance(b.value, ast.Constant))]
                if len(body) == 1 and isinstance(body[0], ast.Return) and isinstance(body[0].value, ast.Subscript):
                    v = body[0].value
                    if ast.unparse(v.value) == "self.args" and isinstance(v.slice, ast.Constant) and isinstance(v.slice.value, int):
                        out.setdefault(v.slice.value, f.name)
    return out


class _FoldArgs(ast.NodeTransformer):
    """self.args[k] -> self.<accessor of index k> (which accessor names which index is decided by C18.ARGS)"""

    def __init__(self, table):
        self.table = table

    def visit_Subscript(self, node):
        self.generic_visit(node)
        if ast.unparse(node.value) == "self.args" and isinstance(node.slice, ast.Constant) and node.slice.value in self.table \
                and isinstance(node.ctx, ast.Load):
            return ast.copy_location(ast.Attribute(ast.Name("self", ast.Load()), self.table[node.slice.value], ast.Load()), node)
        return node


def check_range(chk, repo):
    import copy
    n0, n1 = Lin.sym("self.n0"), Lin.sym("self.n1")
    for cname, desc in (("Forward", False), ("Reverse", True)):
        rel, c = repo.find_class(cname)
        base = f"{rel[:-3]}.{cname}"
        table = accessor_table(repo, cname)
        _method = repo.method

        class _R:      # the three methods with self.args[k] folded back into the accessor names
            @staticmethod
            def method(rel_, cname_, mname):
                f_ = copy.deepcopy(repo.resolve_method(cname_, mname)[2])      # own or inherited (mixin)
                f_ = ast.fix_missing_locations(_FoldArgs(table).visit(f_))
                return f_
        repo_ = _R
        # __len__
        f = repo_.method(rel, cname, "__len__")
        chk.functions.add(base + ".__len__")
        rets = [r for r in ast.walk(f) if isinstance(r, ast.Return)]
        v = attr_lin(rets[0].value) if len(rets) == 1 else None
        if v is None:
            chk.decide("C18.RANGE", base + ".__len__", None, "unrecognised length expression", rel=rel, node=f)
        else:
            d = v - (n1 - n0)
            chk.decide("C18.RANGE", base + ".__len__", True if (d.is_const() and d.c == 0) else
                       (False if d.is_const() else None),
                       f"len is {ast.unparse(rets[0].value)}; n1 - n0 differs by {d}", rel=rel, node=f)
        # __contains__
        f = repo_.method(rel, cname, "__contains__")
        chk.functions.add(base + ".__contains__")
        rets = [r for r in ast.walk(f) if isinstance(r, ast.Return)]
        pname = f.args.args[1].arg if len(f.args.args) > 1 else "step"
        if len(rets) != 1:
            chk.decide("C18.RANGE", base + ".__contains__", None, "more than one return", rel=rel, node=f)
        else:
            test = rets[0].value
            it = Interp(f, finalize_havoc=False)
            for name, st, expect in cell_states():
                if pname != "step":
                    st.add_eq(Lin.sym(pname) - Lin.sym("step"))
                t = it.assume(test, st, True)
                fl = it.assume(test, st, False)
                val = True if (t and not fl) else (False if (fl and not t) else None)
                chk.decide("C18.RANGE", base + f".__contains__#cell[{name}]",
                           None if val is None else (val == expect),
                           f"membership evaluates to {val}, the covered steps [n0, n1) give {expect}", rel=rel, node=f)
        # __iter__
        f = repo_.method(rel, cname, "__iter__")
        chk.functions.add(base + ".__iter__")
        rng = [n for n in ast.walk(f) if isinstance(n, ast.Call) and isinstance(n.func, ast.Name) and n.func.id == "range"]
        cons = base + ".__iter__"
        # reversed(range(a, b)) with unit step enumerates the same steps in the opposite order
        flips = [n for n in ast.walk(f) if isinstance(n, ast.Call) and isinstance(n.func, ast.Name) and n.func.id == "reversed"
                 and len(n.args) == 1 and rng and n.args[0] is rng[0] and len(rng[0].args) <= 2]
        flipped = len(flips) == 1
        if len(rng) != 1 or any(isinstance(n, ast.Call) and isinstance(n.func, ast.Name) and n.func.id in ("reversed", "sorted")
                                and n not in flips for n in ast.walk(f)):
            chk.decide("C18.RANGE", cons, None, "iteration is not a single range(...)", rel=rel, node=f)
            continue
        args = [attr_lin(a) for a in rng[0].args]
        if any(a is None for a in args):
            chk.decide("C18.RANGE", cons, None, "unrecognised range bounds", rel=rel, node=f)
            continue
        if len(args) == 1:
            args = [Lin.const(0), args[0]]
        step = args[2] if len(args) == 3 else Lin.const(1)
        if not step.is_const() or step.c not in (1, -1):
            chk.decide("C18.RANGE", cons, None if not step.is_const() else False,
                       f"range step {step}: does not enumerate each covered step once", rel=rel, node=f)
            continue
        if step.c == 1:
            lo, hi, is_desc = args[0], args[1], False       # [a, b)
        else:
            lo, hi, is_desc = args[1] + ONE, args[0] + ONE, True   # a, a-1, ..., b+1
        if flipped:
            is_desc = not is_desc
        d1, d2 = lo - n0, hi - n1
        ok = d1.is_const() and d2.is_const() and d1.c == 0 and d2.c == 0 and is_desc == desc
        definite = d1.is_const() and d2.is_const()
        chk.decide("C18.RANGE", cons, True if ok else (False if definite else None),
                   f"{'reversed(' if flipped else ''}{ast.unparse(rng[0])}{')' if flipped else ''} enumerates [{lo}, {hi}) {'descending' if is_desc else 'ascending'}; "
                   f"required [n0, n1) {'descending' if desc else 'ascending'}", rel=rel, node=f)


def check_yields(chk, ctx):
    for run_ in all_runs(chk, ctx):
        cfg = run_.cfg_text()
        for rec in run_.interp.yields:
            st, cons = rec.state, ycons(run_, rec)
            if rec.kind == "Forward":
                a, b = rec.arg(0, "n0"), rec.arg(1, "n1")
                if is_lin(a) and is_lin(b):
                    res = prove_ge(st, b - a - ONE)
                    if res[0] is None and run_.owner == "RevolveCheckpointSchedule":
                        chk.note("C18.ORDER for the converter relies on _convert_action's `n_1 <= n_0 -> raise` guard "
                                 "(checked structurally) and on C02.UNIT")
                    else:
                        tri(chk, "C18.ORDER", cons, res, run_, rec, "n1 - n0 >= 1")
                    tri(chk, "C18.ORDER", cons + "/nonneg", prove_ge(st, a), run_, rec, "n0 >= 0") \
                        if st.entails_ineq(a) else None
                wi, wa, sto = rec.arg(2, "write_ics"), rec.arg(3, "write_adj_deps"), rec.arg(4, "storage")
                fl = []
                for v in (wi, wa):
                    if v == TRUE:
                        fl.append({True})
                    elif v == FALSE:
                        fl.append({False})
                    else:
                        s = pure_sym(v)
                        e = st.enum_get(s) if s else None
                        if e and e[0] == "in" and e[1] <= {"True", "False"}:
                            fl.append({x == "True" for x in e[1]})
                        else:
                            fl.append(None)
                sv = storage_values(st, sto)
                if sv is None and isinstance(sto, Val) and sto.kind == "label":
                    sv = {"StorageType.RAM", "StorageType.DISK"} if sto.data[0] == "self._storage" else None
                if sv is None and pure_sym(sto) and run_.owner == "MultistageCheckpointSchedule":
                    sv = {"StorageType.RAM", "StorageType.DISK"}
                unresolved = None in fl
                fl = [x if x is not None else {True, False} for x in fl]
                if sv is None:
                    if run_.owner == "RevolveCheckpointSchedule":
                        continue
                    chk.decide("C18.FLAGS", cons, None, f"flags {wi},{wa} storage {sto} not resolved to finite sets",
                               rel=run_.rel, node=rec.node)
                    continue
                bad = None
                combos = nbad = 0
                for w1 in fl[0]:
                    for w2 in fl[1]:
                        for s_ in sv:
                            if s_ in ("StorageType.RAM", "StorageType.DISK") and not (w1 or w2):
                                bad = f"Forward(.., {w1}, {w2}, {s_}) names a checkpoint storage but writes nothing"
                            if s_ == "StorageType.NONE" and (w1 or w2):
                                bad = f"Forward(.., {w1}, {w2}, {s_}) writes data to no storage"
                            if w1 and w2:
                                bad = f"Forward(.., {w1}, {w2}, {s_}) stores restart data and adjoint dependencies in one checkpoint"
                            combos += 1
                            isbad = (s_ in ("StorageType.RAM", "StorageType.DISK") and not (w1 or w2)) or \
                                (s_ == "StorageType.NONE" and (w1 or w2)) or (w1 and w2)
                            nbad += 1 if isbad else 0
                single = (all(len(x) == 1 for x in fl) and len(sv) == 1) or (combos and nbad == combos)
                if bad is not None and unresolved and not (combos and nbad == combos):
                    single = False
                chk.decide("C18.FLAGS", cons, True if bad is None else (False if single else None),
                           (bad or f"flags/storage consistent: {fl} {sorted(sv)}") + (f" under {cfg}" if cfg else ""),
                           rel=run_.rel, node=rec.node)
            elif rec.kind == "Reverse":
                hi, lo = rec.arg(0, "n1"), rec.arg(1, "n0")
                if is_lin(hi) and is_lin(lo):
                    res = prove_ge(st, hi - lo - ONE)
                    if res[0] is None and run_.owner == "RevolveCheckpointSchedule":
                        continue
                    tri(chk, "C18.ORDER", cons, res, run_, rec, "Reverse n1 - n0 >= 1")
            elif rec.kind in ("Copy", "Move"):
                src, dst = rec.arg(1, "from_storage"), rec.arg(2, "to_storage")
                sv = storage_values(st, src)
                a_ = alias_attr(st, src) if is_lin(src) else None
                if a_ and a_[6:] in ("snapshots", "snapshots_in_ram", "snapshots_on_disk", "binomial_snapshots", "period", "max_n", "n", "r"):
                    chk.decide("C18.FLAGS", cons, False,
                               f"{rec.kind} names {a_} (an integer attribute) as its source storage" + (f" under {cfg}" if cfg else ""),
                               rel=run_.rel, node=rec.node)
                    continue
                if sv is None and isinstance(src, Val) and src.kind == "label":
                    sv = {"StorageType.RAM", "StorageType.DISK"}
                if sv is None and run_.owner in ("RevolveCheckpointSchedule", "MultistageCheckpointSchedule"):
                    continue
                ok = sv is not None and sv <= {"StorageType.RAM", "StorageType.DISK"}
                chk.decide("C18.FLAGS", cons, True if ok else (False if sv is not None and len(sv) == 1 else None),
                           f"{rec.kind} source storage {sorted(sv) if sv else src} must be RAM or DISK"
                           + (f" under {cfg}" if cfg else ""), rel=run_.rel, node=rec.node)


def run(chk, ctx):
    chk.describe("C18.EQ", "__eq__ compares kind through a type-valued argument and the parameters; never raises")
    chk.describe("C18.ARGS", "constructor parameters, stored args and accessors agree position by position")
    chk.describe("C18.RANGE", "len / iteration / membership of Forward and Reverse all denote [n0, n1)")
    chk.describe("C18.FLAGS", "storage RAM/DISK iff something is written, NONE iff nothing, at every yield Forward")
    chk.describe("C18.ORDER", "n1 > n0 at every yield Forward / Reverse")
    repo = ctx.repo
    chk.files.add("schedule.py")
    check_eq(chk, repo)
    check_args(chk, repo)
    check_enums(chk, repo)
    check_range(chk, repo)
    check_yields(chk, ctx)
