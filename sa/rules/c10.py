"""C10 - finalize() accepts exactly the true end of the forward and nothing else.

  TABLE  CheckpointSchedule.finalize is abstractly evaluated on every cell of the
         arrangement  n in {<=-1, 0, 1, >=2}  x  _max_n in {None, <=n-2, n-1, n, n+1, >=n+2}
         x  _n in {<=n-2, n-1, n, n+1, >=n+2}  (the values are only touched through
         comparisons, so the outcome is constant on each cell) and compared with the
         decision table of the property
  CLEAN  no attribute store precedes a raise on any path (a rejected call has no effect)
  POLL   in every online generator the only action reachable once max_n is known and
         EndForward has not been emitted is EndForward; no subclass overrides finalize
"""
import ast

from .common import *
from ..interp import Interp
from ..karr import State

REL = [("<=n-2", "lt"), ("==n-1", "lt"), ("==n", "eq"), ("==n+1", "gt"), (">=n+2", "gt")]


def constrain(st, sym, rel, n):
    x = Lin.sym(sym)
    if rel == "<=n-2":
        st.add_ineq(n - x - Lin.const(2))
    elif rel == "==n-1":
        st.add_eq(x - n + ONE)
    elif rel == "==n":
        st.add_eq(x - n)
    elif rel == "==n+1":
        st.add_eq(x - n - ONE)
    elif rel == ">=n+2":
        st.add_ineq(x - n - Lin.const(2))


def expected(ncls, mrel, nrel):
    if ncls in ("<=-1", "==0"):
        return ("raise", "ValueError")
    if mrel is None:
        return ("set",) if nrel in ("eq", "gt") else ("raise", "RuntimeError")
    if mrel == "eq" and nrel == "eq":
        return ("noop",)
    return ("raise", "RuntimeError")


def run(chk, ctx):
    chk.describe("C10.TABLE", "abstract evaluation of finalize() on every cell of the comparison arrangement == decision table")
    chk.describe("C10.CLEAN", "no store to self precedes a raise in finalize()")
    chk.describe("C10.POLL", "online generators: once max_n is known the next action is EndForward; finalize is not overridden")
    repo = ctx.repo
    rel, cdef = repo.find_class("CheckpointSchedule")
    fn = repo.method(rel, "CheckpointSchedule", "finalize")
    chk.files.add(rel)
    chk.functions.add(f"{rel[:-3]}.CheckpointSchedule.finalize")
    # the decision table reads `is` / `is not` as equality, which is what they mean for None, True/False and enum members
    # only: two equal integers are in general distinct objects (outside CPython's small-integer cache), so a guard that
    # compares numbers by identity rejects (or accepts) calls depending on object identity
    k_id = 0
    for x in ast.walk(fn):
        if isinstance(x, ast.Compare) and any(isinstance(o, (ast.Is, ast.IsNot)) for o in x.ops):
            operands = [x.left] + list(x.comparators)

            def singleton(e):
                return (isinstance(e, ast.Constant) and (e.value is None or isinstance(e.value, bool))) or \
                    (isinstance(e, ast.Attribute) and isinstance(e.value, ast.Name) and e.value.id[:1].isupper())
            if not any(singleton(e) for e in operands):
                chk.decide("C10.TABLE", f"schedule.CheckpointSchedule.finalize#identity[{k_id}]", False,
                           f"`{ast.unparse(x)}` compares numbers by identity: equal step counts that are distinct int objects "
                           "(values above the small-integer cache) are treated as different", rel=rel, node=x, nontrivial=False)
                k_id += 1
    params = [a.arg for a in fn.args.args]
    if len(params) != 2:
        chk.decide("C10.TABLE", "schedule.CheckpointSchedule.finalize", None, f"unexpected signature {params}", rel=rel, node=fn)
        return
    p = params[1]
    n = Lin.sym(p)
    cells = 0
    for ncls in ("<=-1", "==0", "==1", ">=2"):
        for mname, mrel in [("None", None)] + REL:
            for nname, nrel in REL:
                st = State()
                if ncls == "<=-1":
                    st.add_ineq(-n - ONE)
                elif ncls == "==0":
                    st.add_eq(n)
                elif ncls == "==1":
                    st.add_eq(n - ONE)
                else:
                    st.add_ineq(n - Lin.const(2))
                if mrel is None:
                    st.enum_set("self._max_n", "None")
                else:
                    st.enum_meet("self._max_n", "notin", ["None"])
                    constrain(st, "self._max_n", mname, n)
                constrain(st, "self._n", nname, n)
                st.add_eq(Lin.sym("$old_n") - N)
                st.add_eq(Lin.sym("$old_max") - M)
                if st.bottom:
                    continue
                cells += 1
                it = Interp(fn, entry=st, finalize_havoc=False)
                it.DEFAULT_PART = ()
                it.run()
                outs = [o for o in it.outcomes if not o.state.bottom]
                exp = expected(ncls, mrel, nrel)
                cell = f"n{ncls}, _max_n{'=None' if mrel is None else mname.replace('n', p)}, _n{nname.replace('n', p)}"
                cons = f"schedule.CheckpointSchedule.finalize#cell[{cell}]"
                got = set()
                detail = []
                for o in outs:
                    if o.kind == "raise":
                        got.add(("raise", o.what))
                        stores = o.state.may.get("$stores", frozenset())
                        chk.decide("C10.CLEAN", f"schedule.CheckpointSchedule.finalize#raise@{cell}",
                                   True if not stores else False,
                                   "no store before the raise" if not stores else
                                   f"attributes {sorted(stores)} are stored before raising {o.what}",
                                   rel=rel, node=o.node)
                    else:
                        s = o.state
                        stores = s.may.get("$stores", frozenset())
                        same_n = s.entails_eq(N - Lin.sym("$old_n")) == "yes"
                        same_m = (mrel is None and s.enum_is("self._max_n", "None") == "yes") or \
                            (mrel is not None and s.entails_eq(M - Lin.sym("$old_max")) == "yes"
                             and s.enum_is("self._max_n", "None") == "no")
                        set_n = s.entails_eq(N - n) == "yes"
                        set_m = s.entails_eq(M - n) == "yes" and s.enum_is("self._max_n", "None") == "no"
                        if set_n and set_m and mrel is None:
                            got.add(("set",))
                        elif same_n and same_m:
                            got.add(("noop",))
                        else:
                            definite = any(isinstance(s.entails_eq(t), tuple) for t in
                                           ((N - n, M - n) if exp == ("set",) else (N - Lin.sym("$old_n"),)))
                            got.add(("other" if definite else "undecided",
                                     f"_n={s.reduce(N)}, _max_n={s.reduce(M)}, stores={sorted(stores)}"))
                if len(got) == 1:
                    g = next(iter(got))
                    ok = g == exp
                    # a successful "set" on an already matching state is the no-op
                    chk.decide("C10.TABLE", cons, True if ok else (None if g[0] == "undecided" else False),
                               f"outcome {g}, decision table {exp}", rel=rel, node=fn)
                else:
                    chk.decide("C10.TABLE", cons, None, f"outcome not constant on the cell: {sorted(map(str, got))}, expected {exp}",
                               rel=rel, node=fn)
    chk.extra["cells_evaluated"] = cells
    # ---- POLL
    for cname in repo.schedule_classes():
        r2, c = repo.find_class(cname)
        for f in c.body:
            if isinstance(f, ast.FunctionDef) and f.name == "finalize":
                chk.decide("C10.POLL", f"{r2[:-3]}.{cname}.finalize", None,
                           f"{cname} overrides finalize(); the decision table was evaluated on the base class only",
                           rel=r2, node=f)
    for run_ in all_runs(chk, ctx):
        online = all(e.enum_is("self._max_n", "None") == "yes" for e in run_.entry)
        if not online:
            continue
        for rec in run_.interp.yields:
            st = rec.state
            if st.enum_single("$ef") == "0" and st.enum_is("self._max_n", "None") == "no":
                ok = rec.kind == "EndForward"
                chk.decide("C10.POLL", ycons(run_, rec), True if ok else False,
                           f"{rec.kind} is reachable with max_n known and EndForward not yet emitted"
                           + (f" under {run_.cfg_text()}" if run_.cfg_text() else ""), rel=run_.rel, node=rec.node)
            if rec.kind == "EndForward":
                ok = st.enum_is("self._max_n", "None") == "no"
                chk.decide("C10.POLL", ycons(run_, rec) + "/known", True if ok else False,
                           "EndForward only once max_n is known", rel=run_.rel, node=rec.node)
