"""C14 - Multistage RAM/disk split changes only labels and minimises disk traffic.

  NI       non-interference in Multistage._iterator: the label table self._storage flows
           only into storage-label argument positions, and the two unit counts occur only
           as their sum (invariant under moving units between RAM and disk)
  SLOT     one storage per stack position: label index == depth - 1 at write and read,
           self._storage is assigned once, in the constructor, from an immutable tuple
  BOUND    at most the declared number of positions is labelled RAM (= C03.SLICE)
  TOPK     the RAM positions are the first k positions ordered by weight, descending
  WEIGHTS  the dry run's singledispatch registry handles all six action classes; the
           write handler advances the slot cursor exactly when write_ics, the Move
           handler retreats it, and every read/write adds one weight at the cursor
"""
import ast

from ..interp import Interp
from ..karr import State
from ..poly import PolyBuilder, padd, patom, pconst, pkey, pmul
from .common import *
from . import shared
from .c01 import rule_label
from .c03 import slice_rules

REL = "multistage.py"
CLS = "MultistageCheckpointSchedule"
ACTIONS = {"Forward", "Reverse", "Copy", "Move", "EndForward", "EndReverse"}


def ni_rules(chk, ctx):
    repo = ctx.repo
    fn = repo.method(REL, CLS, "_iterator")
    chk.functions.add(f"multistage.{CLS}._iterator")
    base = f"multistage.{CLS}._iterator"
    pa = shared.param_attrs(repo, CLS)
    RAM_A, DISK_A = pa.get("snapshots_in_ram", "self._snapshots_in_ram"), pa.get("snapshots_on_disk", "self._snapshots_on_disk")
    UNIT_ATTRS = (RAM_A[5:], DISK_A[5:])
    # the generator together with the private helper methods it calls
    _, cdef = repo.find_class(CLS)
    meths = {f.name: f for f in cdef.body if isinstance(f, ast.FunctionDef)}
    scope, todo = [fn], [fn]
    while todo:
        g_ = todo.pop()
        for c_ in ast.walk(g_):
            if isinstance(c_, ast.Call) and isinstance(c_.func, ast.Attribute) and isinstance(c_.func.value, ast.Name) \
                    and c_.func.value.id == "self" and c_.func.attr in meths and meths[c_.func.attr] not in scope \
                    and c_.func.attr.startswith("_") and not c_.func.attr.startswith("__"):
                scope.append(meths[c_.func.attr])
                todo.append(meths[c_.func.attr])

    def atom(node, pb):
        if isinstance(node, ast.Attribute) and isinstance(node.value, ast.Name) and node.value.id == "self":
            return patom("self." + node.attr)
        return None
    # (a) unit counts only as their sum: every maximal arithmetic/comparison expression mentioning one of them
    exprs = []

    def maximal(n, parent_arith=False):
        arith = isinstance(n, (ast.BinOp, ast.UnaryOp, ast.Compare))
        if arith and not parent_arith:
            if any(isinstance(x, ast.Attribute) and x.attr in UNIT_ATTRS for x in ast.walk(n)):
                exprs.append(n)
            return
        if isinstance(n, ast.Attribute) and n.attr in UNIT_ATTRS and not parent_arith:
            exprs.append(n)
            return
        for ch in ast.iter_child_nodes(n):
            maximal(ch, arith)
    for g_ in scope:
        maximal(g_)
    for k, e in enumerate(sorted(exprs, key=lambda x: (x.lineno, x.col_offset))):
        cons = f"{base}#units-expr[{k}]"
        pb = PolyBuilder(atom)
        if isinstance(e, ast.Compare) and len(e.ops) == 1:
            p = pb.poly(ast.BinOp(e.left, ast.Sub(), e.comparators[0]))
        elif isinstance(e, ast.Compare):
            chk.decide("C14.NI", cons, None, f"chained comparison {ast.unparse(e)}", rel=REL, node=e)
            continue
        else:
            p = pb.poly(e)
        # invariance under (ram, disk) -> (ram + T, disk - T)
        def subst(poly):
            out = {}
            for mono, c in poly.items():
                term = {(): c}
                for a in mono:
                    if a == RAM_A:
                        f = padd(patom(RAM_A), patom("T"))
                    elif a == DISK_A:
                        f = padd(patom(DISK_A), patom("T"), -1)
                    else:
                        f = patom(a)
                    term = pmul(term, f)
                out = padd(out, term)
            return out
        inv = pkey(subst(p)) == pkey(p)
        chk.decide("C14.NI", cons, True if inv else False,
                   f"`{' '.join(ast.unparse(e).split())[:90]}` " + ("depends on the unit counts only through their sum" if inv else
                   "changes when a unit is moved between RAM and disk: the split influences more than labels"),
                   rel=REL, node=e)
    # (b) label taint: names holding a label may only be used as storage arguments of actions
    tainted = set()
    label_funcs = set()
    label_tuple_funcs = {}      # nested function -> positions of its returned tuple that carry a label

    def is_label_expr(e):
        if isinstance(e, ast.Subscript) and isinstance(e.value, ast.Attribute) and e.value.attr == "_storage":
            return True
        if isinstance(e, ast.Call) and isinstance(e.func, ast.Name) and e.func.id in label_funcs:
            return True
        return isinstance(e, ast.Name) and e.id in tainted
    changed = True
    while changed:
        changed = False
        for n in ast.walk(fn):
            if isinstance(n, ast.Assign) and len(n.targets) == 1 and isinstance(n.targets[0], ast.Name) and is_label_expr(n.value):
                if n.targets[0].id not in tainted:
                    tainted.add(n.targets[0].id)
                    changed = True
            # a, b, c = helper()  where helper returns a tuple with a label at some positions
            if isinstance(n, ast.Assign) and len(n.targets) == 1 and isinstance(n.targets[0], ast.Tuple) \
                    and isinstance(n.value, ast.Call) and isinstance(n.value.func, ast.Name) and n.value.func.id in label_tuple_funcs:
                for k in label_tuple_funcs[n.value.func.id]:
                    if k < len(n.targets[0].elts) and isinstance(n.targets[0].elts[k], ast.Name) \
                            and n.targets[0].elts[k].id not in tainted:
                        tainted.add(n.targets[0].elts[k].id)
                        changed = True
        # nested functions that return a label, alone or inside a tuple
        for d in ast.walk(fn):
            if isinstance(d, ast.FunctionDef) and d is not fn:
                for r in ast.walk(d):
                    if isinstance(r, ast.Return) and r.value is not None:
                        if isinstance(r.value, ast.Tuple):
                            pos = {k for k, e in enumerate(r.value.elts) if is_label_expr(e)}
                            if pos - label_tuple_funcs.get(d.name, set()):
                                label_tuple_funcs[d.name] = label_tuple_funcs.get(d.name, set()) | pos
                                changed = True
                        elif is_label_expr(r.value) and d.name not in label_funcs:
                            label_funcs.add(d.name)
                            changed = True
    allowed = set()
    for n in ast.walk(fn):
        if isinstance(n, ast.Yield) and isinstance(n.value, ast.Call) and isinstance(n.value.func, ast.Name):
            kind, args = n.value.func.id, n.value.args
            if kind == "Forward" and len(args) == 5:
                allowed.add(id(args[4]))
            if kind in ("Copy", "Move") and len(args) == 3:
                allowed.add(id(args[1]))
    uses = 0
    for n in ast.walk(fn):
        is_use = (isinstance(n, ast.Name) and n.id in tainted and isinstance(n.ctx, ast.Load)) or \
            (isinstance(n, ast.Subscript) and isinstance(n.value, ast.Attribute) and n.value.attr == "_storage")
        if not is_use:
            continue
        ok = id(n) in allowed
        if not ok:
            # defining occurrences: RHS of an assignment to a tainted name / return of a label function
            ok = any(isinstance(p, ast.Assign) and p.value is n and isinstance(p.targets[0], ast.Name) for p in ast.walk(fn)) or \
                any(isinstance(p, ast.Return) and (p.value is n or (isinstance(p.value, ast.Tuple) and any(e is n for e in p.value.elts)))
                    for p in ast.walk(fn))
        uses += 1
        cons = f"{base}#label-use[{uses - 1}]"
        chk.decide("C14.NI", cons, True if ok else False,
                   f"label `{ast.unparse(n)}` at line {n.lineno} " + ("flows into a storage argument" if ok else
                   "is used outside a storage argument: the split influences control flow or step arguments"),
                   rel=REL, node=n, nontrivial=False)
    # bare self._storage (not subscripted) anywhere in the generator
    for n in ast.walk(fn):
        if isinstance(n, ast.Attribute) and n.attr == "_storage":
            sub = any(isinstance(p, ast.Subscript) and p.value is n for p in ast.walk(fn))
            if not sub:
                # its length is the total number of units (the sum, which the split does not change)
                length = any(isinstance(p, ast.Call) and isinstance(p.func, ast.Name) and p.func.id == "len" and len(p.args) == 1
                             and p.args[0] is n for p in ast.walk(fn))
                chk.decide("C14.NI", f"{base}#label-table-use", True if length else None,
                           f"self._storage used as a whole at line {n.lineno}" + (": only its length (the unit total)" if length else
                           ": whether the split influences the stream through this use is not followed"), rel=REL, node=n,
                           nontrivial=False)


def slot_rules(chk, ctx):
    repo = ctx.repo
    stores = []
    for rel, q, f in repo.all_functions():
        if q.startswith(CLS + "."):
            for n in ast.walk(f):
                if isinstance(n, ast.Attribute) and n.attr == "_storage" and isinstance(n.ctx, (ast.Store, ast.Del)) \
                        and isinstance(n.value, ast.Name) and n.value.id == "self":
                    stores.append((q, n))
            for n in ast.walk(f):
                if isinstance(n, ast.Subscript) and isinstance(n.ctx, (ast.Store, ast.Del)) and \
                        isinstance(n.value, ast.Attribute) and n.value.attr == "_storage":
                    stores.append((q + "[item]", n))
    ok = len(stores) == 1 and stores[0][0] == CLS + ".__init__"
    chk.decide("C14.SLOT", f"multistage.{CLS}#storage-writers", True if ok else False,
               f"self._storage is written by {[q for q, _ in stores]}", rel=REL, node=stores[0][1] if stores else None,
               nontrivial=False)
    init = repo.method(REL, CLS, "__init__")
    # the value stored is a tuple on every branch
    src = None
    for n in ast.walk(init):
        if isinstance(n, ast.Assign) and isinstance(n.targets[0], ast.Attribute) and n.targets[0].attr == "_storage":
            src = n.value.id if isinstance(n.value, ast.Name) else None
    defs = []
    for n in ast.walk(init):
        if isinstance(n, ast.Assign):
            for t in n.targets:
                if isinstance(t, ast.Name) and t.id == src:
                    defs.append(n.value)
                if isinstance(t, ast.Tuple) and any(isinstance(e, ast.Name) and e.id == src for e in t.elts):
                    defs.append(n.value)
    alloc = repo.func(REL, "allocate_snapshots")
    ret = [r for r in ast.walk(alloc) if isinstance(r, ast.Return)]
    alloc_tuple = len(ret) == 1 and isinstance(ret[0].value, ast.Tuple) and len(ret[0].value.elts) == 2 and \
        isinstance(ret[0].value.elts[1], ast.Call) and getattr(ret[0].value.elts[1].func, "id", None) == "tuple"
    imm = bool(defs) and all((isinstance(d, ast.Call) and getattr(d.func, "id", None) == "tuple") or
                             (isinstance(d, ast.Call) and getattr(d.func, "id", None) == "allocate_snapshots" and alloc_tuple)
                             for d in defs)
    chk.decide("C14.SLOT", f"multistage.{CLS}.__init__#immutable", True if imm else None,
               f"self._storage = {src}: a tuple on all {len(defs)} defining branches", rel=REL, node=init, nontrivial=False)


def topk_rule(chk, ctx):
    repo = ctx.repo
    fn = repo.func(REL, "allocate_snapshots")
    chk.functions.add("multistage.allocate_snapshots")
    cons = "multistage.allocate_snapshots#top-k"
    site = None
    for n in ast.walk(fn):
        if isinstance(n, ast.For) and any(isinstance(a, ast.Assign) and isinstance(a.value, ast.Attribute)
                                          and a.value.attr == "RAM" for a in ast.walk(n)):
            site = n
    if site is None:
        chk.decide("C14.TOPK", cons, None, "RAM assignment loop not found", rel=REL, node=fn)
        return
    it = site.iter
    seq = it.value if isinstance(it, ast.Subscript) else it
    if isinstance(seq, ast.Name):
        # a local holding the ranking: its single definition
        defs = [a.value for a in ast.walk(fn) if isinstance(a, ast.Assign) and any(isinstance(t, ast.Name) and t.id == seq.id
                                                                                  for t in a.targets)]
        if len(defs) == 1:
            seq = defs[0]
    verdict, why = None, f"unrecognised ranking idiom {ast.unparse(seq)[:80]}"
    src = seq.args[0] if isinstance(seq, ast.Call) and getattr(seq.func, "id", None) == "sorted" and seq.args else None
    idx_src = isinstance(src, ast.Call) and getattr(src.func, "id", None) == "range" and len(src.args) == 1 and (
        ast.unparse(src.args[0]) in ("snapshots", "len(weights)"))
    if idx_src:
        # sorted(range(snapshots), key=lambda i: +-weights[i] [, reverse=...]): positions ranked by their weight
        kw = {k.arg: k.value for k in seq.keywords}
        key, rev = kw.get("key"), kw.get("reverse")
        sign = None
        if isinstance(key, ast.Lambda) and len(key.args.args) == 1:
            b, sg = key.body, 1
            if isinstance(b, ast.UnaryOp) and isinstance(b.op, ast.USub):
                sg, b = -1, b.operand
            if isinstance(b, ast.Subscript) and isinstance(b.value, ast.Name) and b.value.id == "weights" \
                    and isinstance(b.slice, ast.Name) and b.slice.id == key.args.args[0].arg:
                sign = sg
        elif isinstance(key, ast.Attribute) and ast.unparse(key) == "weights.__getitem__":
            sign = 1
        rev_known = rev is None or isinstance(rev, ast.Constant)
        desc_flag = isinstance(rev, ast.Constant) and rev.value is True
        labelled = [a for a in ast.walk(site) if isinstance(a, ast.Assign) and isinstance(a.targets[0], ast.Subscript)]
        idx_ok = isinstance(site.target, ast.Name) and all(isinstance(a.targets[0].slice, ast.Name) and a.targets[0].slice.id == site.target.id
                                                            for a in labelled)
        if sign is None or not rev_known:
            verdict, why = None, "ranking key is not +-weights[i] / reverse= is not a literal"
        elif not idx_ok:
            verdict, why = None, "labelled index is not the ranked position"
        elif (desc_flag and sign == 1) or (not desc_flag and sign == -1):
            verdict, why = True, "positions ranked by their weight, descending; RAM goes to the first k"
        else:
            verdict, why = False, "positions are ranked by weight ascending: RAM goes to the least-used positions"
    elif isinstance(seq, ast.Call) and getattr(seq.func, "id", None) == "sorted" and seq.args:
        src = seq.args[0]
        enum_ok = isinstance(src, ast.Call) and getattr(src.func, "id", None) == "enumerate" and len(src.args) == 1 \
            and isinstance(src.args[0], ast.Name) and src.args[0].id == "weights"
        kw = {k.arg: k.value for k in seq.keywords}
        key, rev = kw.get("key"), kw.get("reverse")
        by = None
        if isinstance(key, ast.Call) and getattr(key.func, "id", None) == "itemgetter" and len(key.args) == 1 \
                and isinstance(key.args[0], ast.Constant):
            by = ("pos", key.args[0].value, 1)
        elif isinstance(key, ast.Lambda):
            b = key.body
            sign = 1
            if isinstance(b, ast.UnaryOp) and isinstance(b.op, ast.USub):
                sign, b = -1, b.operand
            if isinstance(b, ast.Subscript) and isinstance(b.slice, ast.Constant):
                by = ("pos", b.slice.value, sign)
        if enum_ok and by is not None:
            desc_flag = isinstance(rev, ast.Constant) and rev.value is True
            rev_known = rev is None or isinstance(rev, ast.Constant)
            descending = (desc_flag and by[2] == 1) or ((not desc_flag) and by[2] == -1)
            if not rev_known:
                verdict, why = None, "reverse= is not a literal"
            elif by[1] != 1:
                verdict, why = False, f"positions are ranked by component {by[1]} of (index, weight): not by weight"
            elif not descending:
                verdict, why = False, "positions are ranked by weight ascending: RAM goes to the least-used positions"
            else:
                verdict, why = True, "positions ranked by weight, descending; RAM goes to the first k"
            # the index component must be what is labelled
            tgt = site.target
            first = tgt.elts[0].id if isinstance(tgt, ast.Tuple) and isinstance(tgt.elts[0], ast.Name) else None
            labelled = [a for a in ast.walk(site) if isinstance(a, ast.Assign) and isinstance(a.targets[0], ast.Subscript)]
            idx_ok = first is not None and all(isinstance(a.targets[0].slice, ast.Name) and a.targets[0].slice.id == first
                                               for a in labelled)
            if verdict is True and not idx_ok:
                verdict, why = None, "labelled index is not the position component"
    elif isinstance(seq, ast.Call) and isinstance(seq.func, ast.Attribute) and seq.func.attr == "nlargest":
        verdict, why = None, "heapq.nlargest idiom: not decided"
    chk.decide("C14.TOPK", cons, verdict, why, rel=REL, node=site)


def weights_rules(chk, ctx):
    repo = ctx.repo
    fn = repo.func(REL, "allocate_snapshots")
    base = "multistage.allocate_snapshots"
    import copy
    handlers = {}
    for n in fn.body:
        if isinstance(n, ast.FunctionDef):
            for d in n.decorator_list:
                if isinstance(d, ast.Call) and isinstance(d.func, ast.Attribute) and d.func.attr == "register" and d.args \
                        and isinstance(d.args[0], ast.Name):
                    handlers[d.args[0].id] = n
    cursor = None
    for n in ast.walk(fn):
        if isinstance(n, ast.Nonlocal):
            cursor = n.names[0]
    form = "singledispatch registry"
    if handlers:
        # one function registered for several kinds tests the kind itself: specialise it per kind
        def _kinds_of(e):
            if isinstance(e, ast.Name):
                return {e.id}
            if isinstance(e, ast.Tuple):
                return {x.id for x in e.elts if isinstance(x, ast.Name)}
            return set()

        class _Spec(ast.NodeTransformer):
            def __init__(self, kind, var):
                self.kind, self.var = kind, var

            def visit_Call(self, node):
                self.generic_visit(node)
                if getattr(node.func, "id", None) == "isinstance" and len(node.args) == 2 and isinstance(node.args[0], ast.Name) \
                        and node.args[0].id == self.var:
                    return ast.copy_location(ast.Constant(self.kind in _kinds_of(node.args[1])), node)
                return node
        for kind_, h_ in list(handlers.items()):
            if h_.args.args and any(isinstance(x, ast.Call) and getattr(x.func, "id", None) == "isinstance" for x in ast.walk(h_)):
                h2 = _Spec(kind_, h_.args.args[0].arg).visit(copy.deepcopy(h_))
                h2.decorator_list = []
                ast.fix_missing_locations(h2)
                handlers[kind_] = h2
    if not handlers:
        # second form: the actions of the dry run are dispatched by an isinstance chain inside the loop that walks the
        # scratch schedule; the handler of a kind is the loop body specialised to that kind
        loop, var = None, None
        for n in ast.walk(fn):
            if isinstance(n, (ast.For, ast.While)):
                tested = {x.args[0].id for x in ast.walk(n) if isinstance(x, ast.Call) and getattr(x.func, "id", None) == "isinstance"
                          and len(x.args) == 2 and isinstance(x.args[0], ast.Name)}
                if len(tested) == 1:
                    loop, var = n, tested.pop()
        if loop is not None:
            def kinds_of(e):
                if isinstance(e, ast.Name):
                    return {e.id}
                if isinstance(e, ast.Tuple):
                    return {x.id for x in e.elts if isinstance(x, ast.Name)}
                return set()

            class Spec(ast.NodeTransformer):
                def __init__(self, kind):
                    self.kind = kind

                def visit_Call(self, node):
                    self.generic_visit(node)
                    if getattr(node.func, "id", None) == "isinstance" and len(node.args) == 2 and isinstance(node.args[0], ast.Name) \
                            and node.args[0].id == var:
                        return ast.copy_location(ast.Constant(self.kind in kinds_of(node.args[1])), node)
                    return node

                def visit_Break(self, node):
                    return ast.copy_location(ast.Return(None), node)
            body = [b for b in loop.body if not (isinstance(b, ast.Assign) and isinstance(b.value, ast.Call)
                                                 and getattr(b.value.func, "id", None) == "next")]
            for kind in sorted(ACTIONS):
                sb = [Spec(kind).visit(copy.deepcopy(b)) for b in body]
                h = ast.FunctionDef(name=f"on_{kind}", args=ast.arguments(posonlyargs=[], args=[ast.arg(var)], kwonlyargs=[],
                                                                            kw_defaults=[], defaults=[]),
                                    body=sb or [ast.Pass()], decorator_list=[], returns=None, type_comment=None, type_params=[])
                ast.copy_location(h, loop)
                ast.fix_missing_locations(h)
                handlers[kind] = h
            incs = [a.target.id for a in ast.walk(loop) if isinstance(a, ast.AugAssign) and isinstance(a.target, ast.Name)
                    and isinstance(a.value, ast.Constant) and a.value.value == 1]
            cursor = incs[0] if incs and len(set(incs)) == 1 else None
            form = "isinstance chain in the dry-run loop"
    if not handlers:
        chk.decide("C14.WEIGHTS", base + "#registry", None, "no dispatch of the dry-run actions recognised (singledispatch registry or "
                   "isinstance chain)", rel=REL, node=fn)
        return
    missing = ACTIONS - set(handlers)
    chk.decide("C14.WEIGHTS", base + "#registry", True if not missing else False,
               f"{form}: handlers for {sorted(handlers)}" + (f"; missing {sorted(missing)}: the dry run raises TypeError" if missing else ""),
               rel=REL, node=fn, nontrivial=False)
    if cursor is None:
        chk.decide("C14.WEIGHTS", base + "#cursor", None, "slot cursor not found", rel=REL, node=fn)
        return
    C = Lin.sym(cursor)
    OLD = Lin.sym("$old")
    expect = {"Forward": [({"cp_action.write_ics": "True"}, 1, 1, 1), ({"cp_action.write_ics": "False"}, 0, 0, None)],
              "Copy": [({}, 0, 1, 0)], "Move": [({"cp_action.to_storage": "StorageType.WORK"}, -1, None, 0)],
              "Reverse": [({}, 0, 0, None)], "EndForward": [({}, 0, 0, None)], "EndReverse": [({}, 0, 0, None)]}
    for act, h in sorted(handlers.items()):
        if act not in expect:
            continue
        pname = h.args.args[0].arg if h.args.args else "cp_action"
        for cond, dcur, nadd, off in expect[act]:
            cond = {k.replace("cp_action.", pname + "."): v for k, v in cond.items()}
            st = State()
            st.add_eq(OLD - C)
            st.add_ineq(C + ONE)          # cursor >= -1
            for k, v in cond.items():
                st.enum_set(k, v)
            it = Interp(h, entry=st, finalize_havoc=False)
            it.DEFAULT_PART = ()
            it.run()
            ends = [o for o in it.outcomes if o.kind in ("end", "return") and not o.state.bottom]
            ctext = ",".join(f"{k.split('.')[-1]}={v.split('.')[-1]}" for k, v in cond.items())
            cons = f"{base}.{h.name}#{act}" + (f"[{ctext}]" if ctext else "")
            if not ends:
                chk.decide("C14.WEIGHTS", cons, None, "handler never returns normally", rel=REL, node=h)
                continue
            deltas = set()
            for o in ends:
                r = o.state.reduce(C - OLD)
                deltas.add(r.c if r.is_const() else None)
            if deltas == {dcur}:
                chk.decide("C14.WEIGHTS", cons + "/cursor", True, f"slot cursor moves by {dcur}", rel=REL, node=h)
            else:
                chk.decide("C14.WEIGHTS", cons + "/cursor", False if None not in deltas else None,
                           f"slot cursor moves by {sorted(map(str, deltas))}, the checkpoint stack of _iterator moves by {dcur}",
                           rel=REL, node=h)
            adds = [(t, s) for t, s in it.substores if isinstance(t.value, ast.Name) and t.value.id == "weights"
                    and not s.bottom]
            # which weight is added: the AugAssign statements of the handler on `weights[...]`
            reached = {id(t) for t, _ in adds}
            added = [a.value.id for a in ast.walk(h) if isinstance(a, ast.AugAssign) and isinstance(a.target, ast.Subscript)
                     and isinstance(a.target.value, ast.Name) and a.target.value.id == "weights" and isinstance(a.value, ast.Name)
                     and id(a.target) in reached]      # only the updates reached under the condition considered
            want_w = {"Forward": "write_weight", "Copy": "read_weight", "Move": "read_weight"}.get(act)
            if want_w and (nadd is None or nadd >= 1) and adds:
                chk.decide("C14.WEIGHTS", cons + "/kind", True if want_w in added else False,
                           f"{act} handler adds {added}; every {'load' if act != 'Forward' else 'write'} of a position must add {want_w}",
                           rel=REL, node=h)
            elif want_w and (nadd is None or nadd >= 1) and not adds and act == "Move":
                chk.decide("C14.WEIGHTS", cons + "/kind", False, "Move handler adds no weight at all", rel=REL, node=h)
            if nadd is not None:
                # weight additions that are not the delete weight
                main = [(t, s) for t, s in adds]
                lines = sorted({t.lineno for t, _ in main})
                cnt = len(lines)
                if act == "Move":
                    pass
                else:
                    chk.decide("C14.WEIGHTS", cons + "/count", True if cnt == nadd else False,
                               f"{cnt} weight update(s) per action, expected {nadd}", rel=REL, node=h)
            if act in ("Copy", "Move"):
                # a load happens with at least one checkpoint on the stack (cursor >= 0): the handler must accept every
                # such state - a guard that raises for cursor == 0 rejects the load of the bottom checkpoint
                st0 = State()
                st0.add_eq(OLD - C)
                st0.add_ineq(C)
                for k, v in cond.items():
                    st0.enum_set(k, v)
                it0 = Interp(h, entry=st0, finalize_havoc=False)
                it0.DEFAULT_PART = ()
                it0.run()
                raises = [o for o in it0.outcomes if o.kind == "raise" and not (o.state.bottom or o.state.dead())]
                chk.decide("C14.WEIGHTS", cons + "/accepts", True if not raises else False,
                           "the handler accepts every stack with a checkpoint on it (cursor >= 0)" if not raises else
                           "the handler raises for a stack that holds a checkpoint (cursor >= 0): valid RAM+DISK configurations "
                           "fail at construction", rel=REL, node=h, nontrivial=False)
            if off is not None:
                for t, s in adds:
                    idx = Interp(h, finalize_havoc=False).ev(t.slice, s.copy())
                    if is_lin(idx):
                        res = prove_eq(s, idx - (OLD + Lin.const(off)))
                        ln = sorted({x.lineno for x, _ in adds}).index(t.lineno)
                        chk.decide("C14.WEIGHTS", cons + f"/index[{ln}]", res[0],
                                   f"weight index {ast.unparse(t.slice)} vs cursor {'+1' if off else ''}: {res[1]}", rel=REL, node=t)
            if act == "Move":
                lines = sorted({t.lineno for t, _ in adds})
                chk.decide("C14.WEIGHTS", cons + "/count", True if len(lines) >= 1 else False,
                           f"{len(lines)} weight update(s) for a Move (read weight, delete weight)", rel=REL, node=h)
    # the dry run iterates an all-RAM schedule with the same total and trajectory
    calls = [n for n in ast.walk(fn) if isinstance(n, ast.Call) and getattr(n.func, "id", None) == CLS]
    if len(calls) == 1:
        c = calls[0]
        args = [ast.unparse(a) for a in c.args]
        kw = {k.arg: ast.unparse(k.value) for k in c.keywords}
        ok = len(args) == 3 and args[0] == "max_n" and args[1] == "snapshots" and args[2] == "0" and kw.get("trajectory") == "trajectory"
        # the number of positions ranked is min(total units, max_n - 1): `max` (or another bound) ranks positions that do not
        # exist or drops positions that do
        tot = [a for a in ast.walk(fn) if isinstance(a, ast.Assign) and len(a.targets) == 1 and isinstance(a.targets[0], ast.Name)
               and len(c.args) >= 2 and isinstance(c.args[1], ast.Name) and a.targets[0].id == c.args[1].id]
        if len(tot) == 1 and isinstance(tot[0].value, ast.Call) and getattr(tot[0].value.func, "id", None) in ("min", "max") \
                and len(tot[0].value.args) == 2:
            from ..gram import lin_of as _lin
            a0, a1 = [_lin(x) for x in tot[0].value.args]
            want = {str(Lin.sym("snapshots_in_ram") + Lin.sym("snapshots_on_disk")), str(Lin.sym("max_n") - ONE)}
            got = {str(a0), str(a1)} if a0 is not None and a1 is not None else None
            is_min = tot[0].value.func.id == "min"
            chk.decide("C14.BOUND", base + "#total", True if (is_min and got == want) else (False if got == want or (got and is_min) else None),
                       f"positions ranked by the dry run: `{ast.unparse(tot[0].value)}`; required min(snapshots_in_ram + snapshots_on_disk, max_n - 1)",
                       rel=REL, node=tot[0], nontrivial=False)
        # a scratch schedule with disk units is not the all-RAM dry run (and would call allocate_snapshots again)
        wrong_disk = len(c.args) == 3 and isinstance(c.args[2], ast.Constant) and c.args[2].value != 0
        chk.decide("C14.WEIGHTS", base + "#dry-run", True if ok else (False if wrong_disk else None),
                   f"dry run: {CLS}({', '.join(args)}, {kw})", rel=REL, node=c, nontrivial=False)


def clamp_rule(chk, ctx):
    """the unit counts may only be clamped to the number of positions that can ever be used (max_n - 1):
    a tighter clamp labels fewer positions RAM than declared and possible, so DISK traffic is not minimal"""
    from ..gram import lin_of
    repo = ctx.repo
    for q, fn in (("allocate_snapshots", repo.func(REL, "allocate_snapshots")),
                  (CLS + ".__init__", repo.method(REL, CLS, "__init__"))):
        k = 0
        for a in sorted((x for x in ast.walk(fn) if isinstance(x, ast.Assign)), key=lambda x: x.lineno):
            t = a.targets[0]
            if not (isinstance(t, ast.Name) and t.id in ("snapshots_in_ram", "snapshots_on_disk")):
                continue
            v = a.value
            cons = f"multistage.{q}#clamp-{t.id}[{k}]"
            k += 1
            if isinstance(v, ast.Call) and getattr(v.func, "id", None) == "min" and len(v.args) == 2:
                other = [x for x in v.args if not (isinstance(x, ast.Name) and x.id == t.id)]
                if len(other) == 1:
                    d = lin_of(other[0])
                    if d is not None:
                        dd = d - (Lin.sym("max_n") - ONE)
                        if dd.is_const() and dd.c >= 0:
                            chk.decide("C14.BOUND", cons, True, f"{t.id} clamped to {ast.unparse(other[0])}", rel=REL, node=a,
                                       nontrivial=False)
                        elif dd.is_const() or all(c < 0 for c in dd.t.values()) and dd.c <= 0:
                            chk.decide("C14.BOUND", cons, False,
                                       f"{t.id} is clamped to {ast.unparse(other[0])}, tighter than max_n - 1 by {-dd}: fewer positions "
                                       "are labelled RAM than declared and usable, so the DISK traffic is not minimal", rel=REL, node=a)
                        else:
                            chk.decide("C14.BOUND", cons, None, f"clamp {ast.unparse(v)} not comparable with max_n - 1", rel=REL, node=a)
                        continue
            if isinstance(v, ast.Call) and isinstance(v.func, ast.Attribute) and v.func.attr == "count":
                continue    # the recorded counts of the label tuple
            chk.decide("C14.BOUND", cons, None, f"unrecognised re-assignment {ast.unparse(a)[:80]}", rel=REL, node=a)


def dry_rule(chk, ctx):
    """the dry run that ranks the stack positions is a run of *this* schedule: wherever the constructor calls
    allocate_snapshots, and wherever allocate_snapshots builds its scratch schedule, every parameter of the callee that
    the caller also has (steps, units, trajectory) receives the caller's own value - an omitted one silently falls back
    to the callee's default and the weights are those of another stream"""
    repo = ctx.repo
    init = repo.method(REL, CLS, "__init__")
    alloc = repo.func(REL, "allocate_snapshots")

    def signature(fn, skip_self):
        a = fn.args
        pos = [x.arg for x in a.args][1 if skip_self else 0:]
        defaults = dict(zip([x.arg for x in a.args][len(a.args) - len(a.defaults):], a.defaults))
        for x, d in zip(a.kwonlyargs, a.kw_defaults):
            if d is not None:
                defaults[x.arg] = d
        return pos, [x.arg for x in a.kwonlyargs], defaults

    # every call edge on a chain  __init__ -> ... -> allocate_snapshots  and  allocate_snapshots -> ... -> CLS(...)
    # (helpers extracted in between are part of the chain)
    modfns = {f.name: f for f in repo.module(REL).tree.body if isinstance(f, ast.FunctionDef)}

    def callees(fn):
        return [n for n in ast.walk(fn) if isinstance(n, ast.Call) and isinstance(n.func, ast.Name)
                and (n.func.id in modfns or n.func.id == CLS)]

    def reaches(name, target, seen=()):
        if name == target:
            return True
        if name in seen or name not in modfns:
            return False
        return any(reaches(c.func.id, target, seen + (name,)) for c in callees(modfns[name]))
    edges = []
    todo, seen = [(init, CLS + ".__init__", "allocate_snapshots")], set()
    todo.append((alloc, "allocate_snapshots", CLS))
    while todo:
        caller, cname_, target = todo.pop()
        if (cname_, target) in seen:
            continue
        seen.add((cname_, target))
        for call in callees(caller):
            nm = call.func.id
            if nm == cname_ or not reaches(nm, target):
                continue
            callee = init if nm == CLS else modfns[nm]
            edges.append((caller, cname_, callee, nm, nm == CLS, call))
            if nm != target and nm in modfns:
                todo.append((modfns[nm], nm, target))
    counts = {}
    for caller, cname_, callee, callee_name, skip, call in edges:
        own = {x.arg for x in caller.args.args + caller.args.kwonlyargs} - {"self"}
        pos, kwonly, defaults = signature(callee, skip)
        k = counts.get((cname_, callee_name), 0)
        counts[(cname_, callee_name)] = k + 1
        if True:
            bound = dict(zip(pos, call.args))
            for kw in call.keywords:
                if kw.arg:
                    bound[kw.arg] = kw.value
            has_star = any(kw.arg is None for kw in call.keywords) or any(isinstance(a, ast.Starred) for a in call.args)
            for q in pos + kwonly:
                # crossed arguments: the callee's parameter q receives another of the caller's own parameters
                v_ = bound.get(q)
                if q in own and isinstance(v_, ast.Name) and v_.id in own and v_.id != q and (v_.id in pos or v_.id in kwonly):
                    chk.decide("C14.WEIGHTS", f"multistage.{cname_}#dry-run->{callee_name}[{k}]/{q}/crossed", False,
                               f"{callee_name}(...) receives the caller's `{v_.id}` as `{q}`: the dry run is that of a schedule with "
                               "other parameters", rel=REL, node=call)
                    continue
                if q not in own or q not in defaults:
                    continue       # only parameters both sides have, and that can be left out
                cons = f"multistage.{cname_}#dry-run[{k}]/{q}" if callee_name in ("allocate_snapshots", CLS) else \
                    f"multistage.{cname_}#dry-run->{callee_name}[{k}]/{q}"
                if q not in bound:
                    chk.decide("C14.WEIGHTS", cons, None if has_star else False,
                               f"{callee_name}(...) is called without `{q}`: the callee's default `{ast.unparse(defaults[q])}` is used, "
                               f"whatever {q} this schedule was given - the weights are those of a different stream", rel=REL, node=call)
                else:
                    v = bound[q]
                    same = isinstance(v, ast.Name) and v.id == q
                    chk.decide("C14.WEIGHTS", cons, True if same else None,
                               f"{callee_name}(..., {q}={ast.unparse(v)})" + ("" if same else ": not the caller's own parameter"),
                               rel=REL, node=call, nontrivial=False)


def run(chk, ctx):
    chk.describe("C14.NI", "the RAM/disk split influences labels only (non-interference)")
    chk.describe("C14.SLOT", "one storage per stack position, fixed for the whole run")
    chk.describe("C14.TOPK", "RAM goes to the k positions with the largest access weight")
    chk.describe("C14.WEIGHTS", "the dry run mirrors the checkpoint stack and counts every access once")
    chk.files.add(REL)
    ni_rules(chk, ctx)
    slot_rules(chk, ctx)
    runs = ctx.model.runs(CLS)
    for r in runs:
        register(chk, r)
    rule_label(chk, "C14.SLOT", runs)
    chk.describe("C14.SLOT", "one storage per stack position (label index == depth - 1), fixed for the whole run")
    slice_rules(chk, ctx)
    # re-label C03.SLICE obligations as C14.BOUND
    for o in chk.obs:
        if o.rule == "C03.SLICE":
            o.rule = "C14.BOUND"
    chk.describe("C14.BOUND", "at most the declared number of positions is labelled RAM")
    shared.rule_config(chk, "C14.CONFIG", ctx, classes=[CLS])
    clamp_rule(chk, ctx)
    topk_rule(chk, ctx)
    weights_rules(chk, ctx)
    dry_rule(chk, ctx)
    chk.note("not decided: the closed arithmetic identity len(storage) == min(ram + disk, n - 1), and minimality of the "
             "disk traffic beyond 'RAM goes to the most-accessed positions'")
