"""C16 - Mixed schedules are identical with and without numba.

  REC   the memoised planner and the tabulated planner are the same recurrence: both are
        translated into one canonical case list (guards, result triples, candidate ranges,
        cost expressions as polynomial normal forms, acceptance operators) and compared
        leaf by leaf; the module constants _WRITE_ICS... resolve to the StepType members;
        the row-1 prelude of the table equals the n == 1 case; results for s > n - 1 do not
        depend on s (the cache_step clamp)
  ARMS  at both selection sites of _iterator the memoised arm and the table arm receive
        polynomially equal arguments and bind the same targets
  COST  (information for C06) optimal_steps_mixed uses the same cost recurrence
"""
import ast
import copy

from ..poly import PolyBuilder, padd, patom, pconst, pkey, pstr
from .common import *

REL = "mixed.py"
MEMO, TAB = "mixed_step_memoization", "mixed_steps_tabulation"
NEG = {ast.Lt: ast.GtE, ast.GtE: ast.Lt, ast.Gt: ast.LtE, ast.LtE: ast.Gt, ast.Eq: ast.NotEq, ast.NotEq: ast.Eq}
OPN = {ast.Lt: "<", ast.LtE: "<=", ast.Gt: ">", ast.GtE: ">=", ast.Eq: "==", ast.NotEq: "!="}


class Canon:
    """one planner -> canonical nested tuples"""

    def __init__(self, kind, consts):
        self.kind, self.consts = kind, consts
        self.skeleton_ok = True
        self.why = ""

    # ---- leaves
    def atom(self, node, pb):
        if self.kind == "memo":
            if isinstance(node, ast.Subscript) and isinstance(node.value, ast.Call) and \
                    getattr(node.value.func, "id", None) == MEMO and isinstance(node.slice, ast.Constant) \
                    and node.slice.value == 2 and len(node.value.args) == 2:
                return patom(("COST", pkey(pb.poly(node.value.args[0])), pkey(pb.poly(node.value.args[1]))))
            if isinstance(node, ast.Subscript) and isinstance(node.value, ast.Name) and node.value.id == "m" \
                    and isinstance(node.slice, ast.Constant) and node.slice.value == 2:
                return patom("RES_COST")
        else:
            if isinstance(node, ast.Subscript) and isinstance(node.value, ast.Name) and node.value.id == "schedule" \
                    and isinstance(node.slice, ast.Tuple) and len(node.slice.elts) == 3:
                a, b, c = node.slice.elts
                if isinstance(c, ast.Constant) and c.value == 2:
                    pa, pb_ = pb.poly(a), pb.poly(b)
                    if pkey(pa) == pkey(patom("n")) and pkey(pb_) == pkey(patom("s")):
                        return patom("RES_COST")
                    return patom(("COST", pkey(pa), pkey(pb_)))
            if isinstance(node, ast.Name) and node.id in self.consts:
                return patom(self.consts[node.id])
        if isinstance(node, ast.Attribute) and isinstance(node.value, ast.Name) and node.value.id == "StepType":
            return patom("StepType." + node.attr)
        return None

    def pb(self):
        ren = {"n_i": "n", "s_i": "s"} if self.kind == "tab" else {}
        return PolyBuilder(self.atom, ren)

    def expr(self, node):
        return pkey(self.pb().poly(node))

    def triple(self, node):
        if isinstance(node, ast.Tuple) and len(node.elts) == 3:
            return ("triple",) + tuple(self.expr(e) for e in node.elts)
        self.skeleton_ok, self.why = False, f"result is not a triple: {ast.unparse(node)}"
        return ("?",)

    def test(self, t):
        if isinstance(t, ast.BoolOp):
            return ("or" if isinstance(t.op, ast.Or) else "and",) + tuple(self.test(v) for v in t.values)
        if isinstance(t, ast.Compare) and len(t.ops) == 1:
            l, r, op = t.left, t.comparators[0], type(t.ops[0])
            # result-unset tests
            if self.kind == "memo" and isinstance(l, ast.Name) and l.id == "m" and op in (ast.Is, ast.Eq) \
                    and isinstance(r, ast.Constant) and r.value is None:
                return ("RES_UNSET",)
            if self.kind == "tab" and op is ast.Lt and isinstance(r, ast.Constant) and r.value == 0 and \
                    pkey(self.pb().poly(l)) == pkey(patom("RES_COST")):
                return ("RES_UNSET",)
            if op in OPN:
                # normalise to  (op, left - right)  with op in {<, <=, ==, !=}
                p = self.pb().poly(ast.BinOp(l, ast.Sub(), r))
                if op in (ast.Gt, ast.GtE):
                    p = padd({}, p, -1)
                    op = {ast.Gt: ast.Lt, ast.GtE: ast.LtE}[op]
                return (OPN[op], pkey(p))
        self.skeleton_ok, self.why = False, f"unrecognised test {ast.unparse(t)}"
        return ("?",)

    def is_guard(self, s):
        return isinstance(s, ast.If) and not s.orelse and len(s.body) == 1 and isinstance(s.body[0], ast.Raise)

    def stmts(self, body):
        out = []
        for s in body:
            if isinstance(s, ast.Expr) and isinstance(s.value, ast.Constant):
                continue
            if isinstance(s, ast.Assert) or self.is_guard(s):
                continue        # never-firing internal guards / validation
            if isinstance(s, ast.If):
                out.append(("if", self.test(s.test), self.stmts(s.body), self.stmts(s.orelse)))
            elif isinstance(s, ast.For):
                it = s.iter
                if isinstance(it, ast.Call) and getattr(it.func, "id", None) == "range" and isinstance(s.target, ast.Name):
                    args = [self.expr(a) for a in it.args]
                    out.append(("for", s.target.id, tuple(args), self.stmts(s.body)))
                else:
                    self.skeleton_ok, self.why = False, f"unrecognised loop {ast.unparse(s.iter)}"
            elif isinstance(s, ast.Return):
                if self.kind == "memo":
                    if isinstance(s.value, ast.Name) and s.value.id == "m":
                        continue
                    out.append(("res", self.triple(s.value)))
                else:
                    continue
            elif isinstance(s, ast.Assign) and len(s.targets) == 1:
                t = s.targets[0]
                if self.kind == "memo" and isinstance(t, ast.Name) and t.id == "m":
                    if isinstance(s.value, ast.Constant) and s.value.value is None:
                        continue
                    out.append(("res", self.triple(s.value)))
                elif self.kind == "tab" and isinstance(t, ast.Subscript) and isinstance(t.value, ast.Name) \
                        and t.value.id == "schedule" and isinstance(t.slice, ast.Tuple) and len(t.slice.elts) == 3 \
                        and isinstance(t.slice.elts[2], ast.Slice):
                    key = (self.expr(t.slice.elts[0]), self.expr(t.slice.elts[1]))
                    if key == (pkey(patom("n")), pkey(patom("s"))):
                        out.append(("res", self.triple(s.value)))
                    else:
                        out.append(("store", key, self.triple(s.value)))
                elif isinstance(t, ast.Name):
                    out.append(("let", t.id, self.expr(s.value)))
                else:
                    self.skeleton_ok, self.why = False, f"unrecognised store {ast.unparse(s)}"
            else:
                self.skeleton_ok, self.why = False, f"unrecognised statement {type(s).__name__}"
        return tuple(out)


def show(x, depth=0):
    if isinstance(x, tuple) and x and isinstance(x[0], str):
        return x[0] + "(" + ", ".join(show(y, depth + 1) for y in x[1:]) + ")"
    if isinstance(x, tuple) and x and isinstance(x[0], tuple) and len(x[0]) == 2 and isinstance(x[0][0], tuple):
        try:
            return pstr(dict(x))
        except Exception:
            pass
    if isinstance(x, tuple):
        return "[" + ", ".join(show(y, depth + 1) for y in x) + "]"
    return str(x)


def diff(a, b, path=""):
    """-> list of (path, a, b, kind) ; kind 'leaf' for differences inside the same skeleton"""
    if a == b:
        return []
    if isinstance(a, tuple) and isinstance(b, tuple) and a and b and isinstance(a[0], str) and isinstance(b[0], str):
        if a[0] != b[0] or len(a) != len(b):
            both_ops = a[0] in OPN.values() and b[0] in OPN.values() and len(a) == len(b)
            return [(path, a, b, "leaf" if both_ops else "skeleton")]
        out = []
        for i, (x, y) in enumerate(zip(a[1:], b[1:])):
            out += diff(x, y, f"{path}/{a[0]}[{i}]")
        return out
    if isinstance(a, tuple) and isinstance(b, tuple) and (not a or not isinstance(a[0], str)) \
            and (not b or not isinstance(b[0], str)):
        # statement lists / polynomial keys
        is_poly = all(isinstance(x, tuple) and len(x) == 2 and isinstance(x[0], tuple) for x in a + b) and (a or b)
        if is_poly:
            return [(path, a, b, "leaf")]
        if len(a) != len(b):
            return [(path, a, b, "skeleton")]
        out = []
        for i, (x, y) in enumerate(zip(a, b)):
            out += diff(x, y, f"{path}[{i}]")
        return out
    return [(path, a, b, "leaf")]


def run(chk, ctx):
    chk.describe("C16.REC", "memoised and tabulated planner are the same recurrence (canonical case lists agree leaf by leaf)")
    chk.describe("C16.ARMS", "both arms of every planner selection site receive equal arguments and bind the same targets")
    chk.describe("C16.COST", "optimal_steps_mixed has the same cost recurrence (information for C06)")
    repo = ctx.repo
    chk.files.add(REL)
    memo = repo.func(REL, MEMO)
    tab = repo.func(REL, TAB)
    chk.functions.add(f"mixed.{MEMO}")
    chk.functions.add(f"mixed.{TAB}")
    mod = repo.module(REL).tree
    consts = {}
    for n in mod.body:
        if isinstance(n, ast.Assign) and isinstance(n.targets[0], ast.Name) and isinstance(n.value, ast.Call) \
                and getattr(n.value.func, "id", None) == "int" and n.value.args and \
                isinstance(n.value.args[0], ast.Attribute) and getattr(n.value.args[0].value, "id", None) == "StepType":
            consts[n.targets[0].id] = "StepType." + n.value.args[0].attr
    # constants must carry the member they are named after
    for name, val in sorted(consts.items()):
        want = "StepType." + name.lstrip("_")
        chk.decide("C16.REC", f"mixed.{name}", True if val == want else False,
                   f"{name} = int({val})" + ("" if val == want else f": named after {want}"), rel=REL, node=mod, nontrivial=False)
    cm, ct = Canon("memo", consts), Canon("tab", consts)
    # memo: the if-chain after the validation guards
    mbody = cm.stmts(memo.body)
    # tab: row-1 prelude + innermost n_i loop body
    prelude, core, loops = None, None, {}
    for n in ast.walk(tab):
        if isinstance(n, ast.For) and isinstance(n.target, ast.Name):
            loops.setdefault(n.target.id, []).append(n)
    for f in loops.get("s_i", []):
        inner = [x for x in f.body if isinstance(x, ast.For) and getattr(x.target, "id", "") == "n_i"]
        if inner:
            core = (f, inner[0])
        elif len(f.body) == 1 and isinstance(f.body[0], ast.Assign):
            prelude = f
    cons = f"mixed.{TAB}"
    if core is None or prelude is None:
        chk.decide("C16.REC", cons + "#shape", None, "table loops not recognised (s_i / n_i)", rel=REL, node=tab)
        return
    tbody = ct.stmts(core[1].body)
    if not (cm.skeleton_ok and ct.skeleton_ok):
        chk.decide("C16.REC", cons + "#shape", None, f"planner outside the recognised shape: {cm.why or ct.why}", rel=REL, node=tab)
        return
    # memo's first case is n == 1 -> result; the rest of its chain must equal the table's n_i-loop body
    if not (len(mbody) == 1 and mbody[0][0] == "if"):
        chk.decide("C16.REC", f"mixed.{MEMO}#shape", None, "memoised planner is not one if-chain", rel=REL, node=memo)
        return
    first = mbody[0]
    n1 = ("==", pkey(padd(patom("n"), pconst(1), -1)))
    ok_first = first[1] == n1 and len(first[2]) == 1 and first[2][0][0] == "res"
    # prelude: for s_i in range(s+1): schedule[1, s_i, :] = triple
    pre = ct.stmts(prelude.body)
    pre_ok = len(pre) == 1 and pre[0][0] == "store" and pre[0][1] == (pkey(pconst(1)), pkey(patom("s")))
    if ok_first and pre_ok:
        same = first[2][0][1] == pre[0][2]
        chk.decide("C16.REC", "mixed#case-n==1", True if same else False,
                   f"memo n == 1 -> {show(first[2][0][1])}; table row 1 -> {show(pre[0][2])}", rel=REL, node=prelude)
        rng = ct.expr(prelude.iter.args[-1]) if isinstance(prelude.iter, ast.Call) else None
        full = len(prelude.iter.args) == 1 and rng == pkey(padd(patom("s"), pconst(1)))
        chk.decide("C16.REC", "mixed#case-n==1/range", True if full else False,
                   f"row 1 is filled for s_i in {ast.unparse(prelude.iter)} (all columns 0..s required)", rel=REL, node=prelude)
    else:
        chk.decide("C16.REC", "mixed#case-n==1", None, "n == 1 case / row-1 prelude not recognised", rel=REL, node=memo)
    rest_m = first[3]
    d = diff(rest_m, tbody)
    if not d:
        ncase = 0
        def count(x):
            nonlocal ncase
            if isinstance(x, tuple):
                if x and x[0] in ("res", "if", "for"):
                    ncase += 1
                for y in x:
                    count(y)
        count(tbody)
        chk.decide("C16.REC", "mixed#recurrence", True,
                   f"canonical programs identical ({ncase} case/candidate nodes): {show(tbody)[:300]}", rel=REL, node=core[1])
    else:
        for path, a, b, kind in d[:4]:
            chk.decide("C16.REC", "mixed#recurrence", False if kind == "leaf" else None,
                       f"planners differ at {path or '/'}: memoised {show(a)[:160]}  vs  tabulated {show(b)[:160]}",
                       rel=REL, node=core[1])
    # loop ranges of the table cover the domain n in [2, n], s in [1, s]
    want = {"s_i": (pkey(pconst(1)), pkey(padd(patom("s"), pconst(1)))),
            "n_i": (pkey(pconst(2)), pkey(padd(patom("n"), pconst(1))))}
    for f, name in ((core[0], "s_i"), (core[1], "n_i")):
        args = tuple(PolyBuilder().poly(a) for a in f.iter.args) if isinstance(f.iter, ast.Call) else ()
        got = tuple(pkey(a) for a in args)
        chk.decide("C16.REC", f"mixed.{TAB}#range-{name}", True if got == want[name] else (False if len(got) == 2 else None),
                   f"{name} in {ast.unparse(f.iter)}; required range({'1, s + 1' if name == 's_i' else '2, n + 1'})",
                   rel=REL, node=f)
    # clamp: the case n <= s + 1 must not depend on s in its result
    def s_free(x):
        return "s" not in repr(x)
    for stmt in tbody:
        if stmt[0] == "if" and stmt[1][0] == "<=" and len(stmt[2]) == 1 and stmt[2][0][0] == "res":
            chk.decide("C16.REC", "mixed#clamp", True if s_free(stmt[2][0][1]) else False,
                       "result of the `n <= s + 1` case does not mention s: the memoised planner's clamp s := min(s, n-1) "
                       "and the table's unclamped column agree", rel=REL, node=core[1])
    # ---- ARMS
    rel_i, owner, it_fn = ctx.model.generator("MixedCheckpointSchedule")
    chk.functions.add(f"mixed.{owner.name}._iterator")
    k = 0
    for n in sorted((x for x in ast.walk(it_fn) if isinstance(x, ast.If)), key=lambda x: x.lineno):
        if not (isinstance(n, ast.If) and len(n.body) == 1 and len(n.orelse) == 1
                and isinstance(n.body[0], ast.Assign) and isinstance(n.orelse[0], ast.Assign)):
            continue
        a, b = n.body[0], n.orelse[0]
        calls = [x for x in (a.value, b.value) if isinstance(x, ast.Call) and getattr(x.func, "id", None) == MEMO]
        subs = [x for x in (a.value, b.value) if isinstance(x, ast.Subscript) and isinstance(x.slice, ast.Tuple)]
        if len(calls) != 1 or len(subs) != 1:
            continue
        cons = f"mixed.{owner.name}._iterator#selection[{k}]"
        k += 1
        pbd = PolyBuilder()
        ca = [pkey(pbd.poly(x)) for x in calls[0].args]
        sa = [pkey(pbd.poly(x)) for x in subs[0].slice.elts]
        same_args = ca == sa
        same_tgt = ast.unparse(a.targets[0]) == ast.unparse(b.targets[0])
        chk.decide("C16.ARMS", cons, True if (same_args and same_tgt) else False,
                   f"memoised arm {ast.unparse(calls[0])[:90]} / table arm {ast.unparse(subs[0])[:90]}: "
                   + ("equal arguments and targets" if same_args and same_tgt else
                      ("arguments differ" if not same_args else "targets differ")), rel=rel_i, node=n)
    if k < 1:
        chk.decide("C16.ARMS", f"mixed.{owner.name}._iterator#selection", None, "no selection site found", rel=rel_i, node=it_fn)
    # the table is built for (max_n, snapshots) of the instance
    for n in ast.walk(it_fn):
        if isinstance(n, ast.Call) and getattr(n.func, "id", None) == TAB:
            args = [ast.unparse(x) for x in n.args]
            ok = args == ["self._max_n", "self._snapshots"]
            chk.decide("C16.ARMS", f"mixed.{owner.name}._iterator#table-size", True if ok else None,
                       f"table built as {TAB}({', '.join(args)})", rel=rel_i, node=n, nontrivial=False)
    # ---- COST (information)
    osm = repo.func(REL, "optimal_steps_mixed", required=False)
    if osm is not None:
        chk.functions.add("mixed.optimal_steps_mixed")
        src = ast.unparse(osm)
        pieces = ["n * (n + 1) // 2 - 1", "optimal_steps_mixed(n - 1, s - 1)", "optimal_steps_mixed(i, s)",
                  "optimal_steps_mixed(n - i, s - 1)", "range(2, n)"]
        ok = all(p in src for p in pieces)
        chk.decide("C16.COST", "mixed.optimal_steps_mixed", True if ok else None,
                   "same cost recurrence pieces as the planners" if ok else "cost recurrence pieces not recognised (information only)",
                   rel=REL, node=osm, nontrivial=False)
