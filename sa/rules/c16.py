"""C16 - Mixed schedules are identical with and without numba.

  REC   the memoised planner and the tabulated planner are the same recurrence: both are
        translated into one canonical case list (guards, result triples, candidate ranges,
        cost expressions as polynomial normal forms, acceptance operators) and compared
        leaf by leaf; the module constants _WRITE_ICS... resolve to the StepType members;
        the row-1 prelude of the table equals the n == 1 case; results for s > n - 1 do not
        depend on s (the cache_step clamp)
  ARMS  at both selection sites of _iterator the memoised arm and the table arm receive
        polynomially equal arguments and bind the same targets
  COST  (information for C06) optimal_steps_mixed uses the same cost recurrence
"""
import ast
import copy

from ..poly import PolyBuilder, padd, patom, pconst, pkey, pstr
from .common import *

REL = "mixed.py"
MEMO, TAB = "mixed_step_memoization", "mixed_steps_tabulation"
NEG = {ast.Lt: ast.GtE, ast.GtE: ast.Lt, ast.Gt: ast.LtE, ast.LtE: ast.Gt, ast.Eq: ast.NotEq, ast.NotEq: ast.Eq}
OPN = {ast.Lt: "<", ast.LtE: "<=", ast.Gt: ">", ast.GtE: ">=", ast.Eq: "==", ast.NotEq: "!="}


class Canon:
    """one planner -> canonical nested tuples"""

    def __init__(self, kind, consts):
        self.kind, self.consts = kind, consts
        self.skeleton_ok = True
        self.why = ""
        self.kind_init_none = False
        self.env = {}      # scalar locals -> polynomial of their definition (lets are substituted, names never matter)
        self.multi_store = None     # set by the caller: names with more than one store in the planner

    # ---- leaves
    def atom(self, node, pb):
        if self.kind == "memo":
            if isinstance(node, ast.Subscript) and isinstance(node.value, ast.Call) and \
                    getattr(node.value.func, "id", None) == MEMO and isinstance(node.slice, ast.Constant) \
                    and node.slice.value == 2 and len(node.value.args) == 2:
                return patom(("COST", pkey(pb.poly(node.value.args[0])), pkey(pb.poly(node.value.args[1]))))
            if isinstance(node, ast.Subscript) and isinstance(node.value, ast.Call) and \
                    getattr(node.value.func, "id", None) == MEMO and isinstance(node.slice, ast.Constant) \
                    and node.slice.value in (0, 1) and len(node.value.args) == 2:
                return patom((("KIND", "LEN")[node.slice.value], pkey(pb.poly(node.value.args[0])), pkey(pb.poly(node.value.args[1]))))
            if isinstance(node, ast.Subscript) and isinstance(node.value, ast.Name) and node.value.id == "m" \
                    and isinstance(node.slice, ast.Constant) and node.slice.value == 2:
                return patom("RES_COST")
        else:
            if isinstance(node, ast.Subscript) and isinstance(node.value, ast.Name) and node.value.id == "schedule" \
                    and isinstance(node.slice, ast.Tuple) and len(node.slice.elts) == 3:
                a, b, c = node.slice.elts
                if isinstance(c, ast.Constant) and c.value == 2:
                    pa, pb_ = pb.poly(a), pb.poly(b)
                    if pkey(pa) == pkey(patom("n")) and pkey(pb_) == pkey(patom("s")):
                        return patom("RES_COST")
                    return patom(("COST", pkey(pa), pkey(pb_)))
                if isinstance(c, ast.Constant) and c.value in (0, 1):
                    # the kind / step-length component of another entry: canonical too, so that a recurrence that
                    # consults it is recognised as different from one that does not
                    return patom((("KIND", "LEN")[c.value], pkey(pb.poly(a)), pkey(pb.poly(b))))
            if isinstance(node, ast.Name) and node.id in self.consts:
                return patom(self.consts[node.id])
        if isinstance(node, ast.Attribute) and isinstance(node.value, ast.Name) and node.value.id == "StepType":
            return patom("StepType." + node.attr)
        if isinstance(node, ast.Name) and node.id in self.env:
            return self.env[node.id]
        return None

    def pb(self):
        ren = {"n_i": "n", "s_i": "s"} if self.kind == "tab" else {}
        return PolyBuilder(self.atom, ren)

    def expr(self, node):
        return pkey(self.pb().poly(node))

    def triple(self, node):
        if isinstance(node, ast.Tuple) and len(node.elts) == 3:
            return ("triple",) + tuple(self.expr(e) for e in node.elts)
        self.skeleton_ok, self.why = False, f"result is not a triple: {ast.unparse(node)}"
        return ("?",)

    def test(self, t):
        if isinstance(t, ast.UnaryOp) and isinstance(t.op, ast.Not) and isinstance(t.operand, ast.Compare) \
                and len(t.operand.ops) == 1 and type(t.operand.ops[0]) in (ast.Lt, ast.LtE, ast.Gt, ast.GtE, ast.Eq, ast.NotEq):
            # integers (the planners' costs and step counts are integers): `not a > b` is `a <= b`
            c = t.operand
            flip = {ast.Lt: ast.GtE, ast.LtE: ast.Gt, ast.Gt: ast.LtE, ast.GtE: ast.Lt, ast.Eq: ast.NotEq, ast.NotEq: ast.Eq}
            return self.test(ast.copy_location(ast.Compare(c.left, [flip[type(c.ops[0])]()], c.comparators), t))
        if isinstance(t, ast.BoolOp):
            return ("or" if isinstance(t.op, ast.Or) else "and",) + tuple(self.test(v) for v in t.values)
        if isinstance(t, ast.Compare) and len(t.ops) == 1:
            l, r, op = t.left, t.comparators[0], type(t.ops[0])
            # result-unset tests
            if self.kind == "memo" and isinstance(l, ast.Name) and l.id == "m" and op in (ast.Is, ast.Eq) \
                    and isinstance(r, ast.Constant) and r.value is None:
                return ("RES_UNSET",)
            if self.kind == "tab" and op is ast.Lt and isinstance(r, ast.Constant) and r.value == 0 and \
                    pkey(self.pb().poly(l)) == pkey(patom("RES_COST")):
                return ("RES_UNSET",)
            # the kind component still holds the initial value NONE (no result triple has that kind)
            if self.kind == "tab" and op is ast.Eq and isinstance(r, ast.Name) and self.consts.get(r.id) == "StepType.NONE" \
                    and isinstance(l, ast.Subscript) and isinstance(l.value, ast.Name) and l.value.id == "schedule" \
                    and isinstance(l.slice, ast.Tuple) and len(l.slice.elts) == 3 \
                    and isinstance(l.slice.elts[2], ast.Constant) and l.slice.elts[2].value == 0 \
                    and pkey(self.pb().poly(l.slice.elts[0])) == pkey(patom("n")) \
                    and pkey(self.pb().poly(l.slice.elts[1])) == pkey(patom("s")) and self.kind_init_none:
                return ("RES_UNSET",)
            if op in OPN:
                # normalise to  (op, left - right)  with op in {<, <=, ==, !=}
                p = self.pb().poly(ast.BinOp(l, ast.Sub(), r))
                if op in (ast.Gt, ast.GtE):
                    p = padd({}, p, -1)
                    op = {ast.Gt: ast.Lt, ast.GtE: ast.LtE}[op]
                return (OPN[op], pkey(p))
        self.skeleton_ok, self.why = False, f"unrecognised test {ast.unparse(t)}"
        return ("?",)

    def is_guard(self, s):
        return isinstance(s, ast.If) and not s.orelse and len(s.body) == 1 and isinstance(s.body[0], ast.Raise)

    def stmts(self, body):
        out = []
        for s in body:
            if isinstance(s, ast.Expr) and isinstance(s.value, ast.Constant):
                continue
            if isinstance(s, ast.Assert) or self.is_guard(s):
                continue        # never-firing internal guards / validation
            if isinstance(s, ast.If):
                out.append(("if", self.test(s.test), self.stmts(s.body), self.stmts(s.orelse)))
            elif isinstance(s, ast.For):
                it = s.iter
                if isinstance(it, ast.Call) and getattr(it.func, "id", None) == "range" and isinstance(s.target, ast.Name):
                    args = [self.expr(a) for a in it.args]
                    out.append(("for", s.target.id, tuple(args), self.stmts(s.body)))
                else:
                    self.skeleton_ok, self.why = False, f"unrecognised loop {ast.unparse(s.iter)}"
            elif isinstance(s, ast.Return):
                if self.kind == "memo":
                    if isinstance(s.value, ast.Name) and s.value.id == "m":
                        continue
                    out.append(("res", self.triple(s.value)))
                else:
                    continue
            elif isinstance(s, ast.Assign) and len(s.targets) == 1:
                t = s.targets[0]
                if self.kind == "memo" and isinstance(t, ast.Name) and t.id == "m":
                    if isinstance(s.value, ast.Constant) and s.value.value is None:
                        continue
                    out.append(("res", self.triple(s.value)))
                elif self.kind == "tab" and isinstance(t, ast.Subscript) and isinstance(t.value, ast.Name) \
                        and t.value.id == "schedule" and isinstance(t.slice, ast.Tuple) and len(t.slice.elts) == 3 \
                        and isinstance(t.slice.elts[2], ast.Slice):
                    key = (self.expr(t.slice.elts[0]), self.expr(t.slice.elts[1]))
                    if key == (pkey(patom("n")), pkey(patom("s"))):
                        out.append(("res", self.triple(s.value)))
                    else:
                        out.append(("store", key, self.triple(s.value)))
                elif isinstance(t, ast.Name):
                    if self.multi_store is not None and t.id in self.multi_store:
                        # a local assigned at several places carries state along the loop: it is not a `let`, and the
                        # planner is outside the recognised shape (UNKNOWN, never a leaf difference)
                        self.skeleton_ok, self.why = False, f"local `{t.id}` is assigned more than once"
                    self.env[t.id] = self.pb().poly(s.value)
                else:
                    self.skeleton_ok, self.why = False, f"unrecognised store {ast.unparse(s)}"
            else:
                self.skeleton_ok, self.why = False, f"unrecognised statement {type(s).__name__}"
        return tuple(out)


class _Ren(ast.NodeTransformer):
    def __init__(self, m):
        self.m = m

    def visit_Name(self, n):
        return ast.copy_location(ast.Name(self.m.get(n.id, n.id), n.ctx), n)

    def visit_arg(self, n):
        n.arg = self.m.get(n.arg, n.arg)
        return n


def normalise_memo(fn):
    """the memoised planner with canonical names: parameters n, s; result variable m; candidate index i"""
    fn = copy.deepcopy(fn)
    ren = {}
    params = [a.arg for a in fn.args.args]
    if len(params) == 2:
        ren[params[0]], ren[params[1]] = "n", "s"
    res = None
    for x in ast.walk(fn):
        if isinstance(x, ast.Return) and isinstance(x.value, ast.Name):
            res = x.value.id
    if res:
        ren[res] = "m"
    loops = [x for x in ast.walk(fn) if isinstance(x, ast.For) and isinstance(x.target, ast.Name)]
    if len(loops) == 1:
        ren[loops[0].target.id] = "i"
    clash = (set(ren.values()) - set(ren)) & {x.id for x in ast.walk(fn) if isinstance(x, ast.Name)}
    if clash:
        return None
    return _Ren(ren).visit(fn)


def normalise_tab(fn):
    """the tabulated planner with canonical names: parameters n, s; table `schedule`; loop variables s_i (columns),
    n_i (rows), i (candidates) - identified by the positions they index in the result store"""
    fn = copy.deepcopy(fn)
    ren = {}
    params = [a.arg for a in fn.args.args]
    if len(params) == 2:
        ren[params[0]], ren[params[1]] = "n", "s"
    tabv = None
    for x in fn.body:
        if isinstance(x, ast.Return) and isinstance(x.value, ast.Name):
            tabv = x.value.id
    if tabv is None:
        return None
    ren[tabv] = "schedule"
    fn = _Ren(ren).visit(fn)
    # loop variables, one loop nest at a time (the prelude and the core may or may not share names)
    for top in [x for x in fn.body if isinstance(x, ast.For) and isinstance(x.target, ast.Name)]:
        stores = [t for x in ast.walk(top) if isinstance(x, ast.Assign) for t in x.targets
                  if isinstance(t, ast.Subscript) and isinstance(t.value, ast.Name) and t.value.id == "schedule"
                  and isinstance(t.slice, ast.Tuple) and len(t.slice.elts) == 3 and isinstance(t.slice.elts[2], ast.Slice)]
        if not stores:
            continue
        row, col = stores[0].slice.elts[0], stores[0].slice.elts[1]
        m = {}
        if isinstance(col, ast.Name):
            m[col.id] = "s_i"
        if isinstance(row, ast.Name):
            m[row.id] = "n_i"
        inner = [x for x in ast.walk(top) if isinstance(x, ast.For) and isinstance(x.target, ast.Name)
                 and x.target.id not in m and x is not top]
        for x in inner:
            m[x.target.id] = "i"
        keep = {k: v for k, v in m.items() if k != v}
        used = {x.id for x in ast.walk(top) if isinstance(x, ast.Name)}
        if (set(keep.values()) - set(keep)) & used:
            return None
        _Ren(keep).visit(top)
    return fn


def show(x, depth=0):
    if isinstance(x, tuple) and x and isinstance(x[0], str):
        return x[0] + "(" + ", ".join(show(y, depth + 1) for y in x[1:]) + ")"
    if isinstance(x, tuple) and x and isinstance(x[0], tuple) and len(x[0]) == 2 and isinstance(x[0][0], tuple):
        try:
            return pstr(dict(x))
        except Exception:
            pass
    if isinstance(x, tuple):
        return "[" + ", ".join(show(y, depth + 1) for y in x) + "]"
    return str(x)


def diff(a, b, path=""):
    """-> list of (path, a, b, kind) ; kind 'leaf' for differences inside the same skeleton"""
    if a == b:
        return []
    if isinstance(a, tuple) and isinstance(b, tuple) and a and b and isinstance(a[0], str) and isinstance(b[0], str):
        if a[0] != b[0] or len(a) != len(b):
            both_ops = a[0] in OPN.values() and b[0] in OPN.values() and len(a) == len(b)
            return [(path, a, b, "leaf" if both_ops else "skeleton")]
        out = []
        for i, (x, y) in enumerate(zip(a[1:], b[1:])):
            out += diff(x, y, f"{path}/{a[0]}[{i}]")
        return out
    if isinstance(a, tuple) and isinstance(b, tuple) and (not a or not isinstance(a[0], str)) \
            and (not b or not isinstance(b[0], str)):
        # statement lists / polynomial keys
        is_poly = all(isinstance(x, tuple) and len(x) == 2 and isinstance(x[0], tuple) for x in a + b) and (a or b)
        if is_poly:
            return [(path, a, b, "leaf")]
        if len(a) != len(b):
            return [(path, a, b, "skeleton")]
        out = []
        for i, (x, y) in enumerate(zip(a, b)):
            out += diff(x, y, f"{path}[{i}]")
        return out
    return [(path, a, b, "leaf")]


def rec_rules(chk, ctx):
    chk.describe("C16.REC", "memoised and tabulated planner are the same recurrence (canonical case lists agree leaf by leaf)")
    chk.describe("C16.ARMS", "both arms of every planner selection site receive equal arguments and bind the same targets")
    chk.describe("C16.COST", "optimal_steps_mixed has the same cost recurrence (information for C06)")
    repo = ctx.repo
    chk.files.add(REL)
    memo = repo.func(REL, MEMO)
    tab = repo.func(REL, TAB)
    chk.functions.add(f"mixed.{MEMO}")
    chk.functions.add(f"mixed.{TAB}")
    mod = repo.module(REL).tree
    consts = {}
    for n in mod.body:
        if isinstance(n, ast.Assign) and isinstance(n.targets[0], ast.Name) and isinstance(n.value, ast.Call) \
                and getattr(n.value.func, "id", None) == "int" and n.value.args and \
                isinstance(n.value.args[0], ast.Attribute) and getattr(n.value.args[0].value, "id", None) == "StepType":
            consts[n.targets[0].id] = "StepType." + n.value.args[0].attr
    # constants must carry the member they are named after
    for name, val in sorted(consts.items()):
        want = "StepType." + name.lstrip("_")
        chk.decide("C16.REC", f"mixed.{name}", True if val == want else False,
                   f"{name} = int({val})" + ("" if val == want else f": named after {want}"), rel=REL, node=mod, nontrivial=False)
    cm, ct = Canon("memo", consts), Canon("tab", consts)
    memo_n, tab_n = normalise_memo(memo), normalise_tab(tab)
    if memo_n is None or tab_n is None:
        chk.decide("C16.REC", f"mixed.{TAB}#shape", None, "planner names cannot be brought to the canonical form (name clash)",
                   rel=REL, node=tab)
        return
    memo, tab = memo_n, tab_n
    # the kind component of every entry is initialised to NONE (makes `kind == NONE` an unset test)
    for x in tab.body:
        if isinstance(x, ast.Assign) and isinstance(x.targets[0], ast.Subscript) and isinstance(x.value, ast.Name) \
                and consts.get(x.value.id) == "StepType.NONE" and ast.unparse(x.targets[0]).replace(" ", "") == "schedule[:,:,0]":
            ct.kind_init_none = True
    def multi(fn_, skip=()):
        """names that are not `let`s: assigned more than once *and* read where the value may come from another branch
        or from an earlier loop iteration (a store in a nested block that does not contain the read, or a store later in
        a loop that also contains the read)"""
        pos = lambda n: (n.lineno, n.col_offset)
        stores, loads = {}, {}
        chain = {}      # id(node) -> tuple of enclosing compound statements (ids), outermost first

        def walk(stmts, anc):
            for st_ in stmts:
                for x in ast.walk(st_) if not isinstance(st_, (ast.If, ast.For, ast.While)) else \
                        [y for h in (getattr(st_, "test", None), getattr(st_, "iter", None), getattr(st_, "target", None)) if h is not None
                         for y in ast.walk(h)]:
                    if isinstance(x, ast.Name):
                        (stores if isinstance(x.ctx, ast.Store) else loads).setdefault(x.id, []).append((x, anc, st_))
                if isinstance(st_, (ast.If, ast.For, ast.While)):
                    walk(st_.body, anc + ((st_, "body"),))
                    walk(st_.orelse, anc + ((st_, "orelse"),))
        walk(fn_.body, ())
        bad = set()
        for name, sts in stores.items():
            if name in skip or len(sts) < 2:
                continue
            for l_, lanc, lst in loads.get(name, []):
                before = [s_ for s_ in sts if pos(s_[0]) < pos(l_)]
                near_loops = set()
                if before:
                    near = max(before, key=lambda s_: pos(s_[0]))
                    if near[1] != lanc[:len(near[1])]:
                        bad.add(name)       # the nearest store sits in a block that does not contain the read
                    near_loops = {id(a[0]) for a in near[1] if isinstance(a[0], (ast.For, ast.While))}
                for s_, sanc, sst in sts:
                    if pos(s_) > pos(l_):
                        loops_l = {id(a[0]) for a in lanc if isinstance(a[0], (ast.For, ast.While))}
                        loops_s = {id(a[0]) for a in sanc if isinstance(a[0], (ast.For, ast.While))}
                        if isinstance(lst, (ast.For, ast.While)):
                            loops_l.add(id(lst))
                        if (loops_l & loops_s) - near_loops:
                            bad.add(name)   # a later store in a loop that also contains the read, and no store of this
                            #                 iteration comes first
        return bad
    cm.multi_store, ct.multi_store = multi(memo, ("m",)), multi(tab)
    # ---- acceptance operators (tie-breaking), independent of how the best candidate is kept (table entry, result tuple,
    # scalar locals): in source order, every test `[<unset> or] cand OP best` where `cand` is a local holding a candidate
    # cost (assigned from an expression with a planner/table cost in it) - recorded as (inside the candidate loop?, OP)
    def acceptance(fn_):
        cands = set()
        for x in ast.walk(fn_):
            if isinstance(x, ast.Assign) and len(x.targets) == 1 and isinstance(x.targets[0], ast.Name) and \
                    any(isinstance(y, ast.Subscript) for y in ast.walk(x.value)) and isinstance(x.value, ast.BinOp):
                cands.add(x.targets[0].id)
        out = []

        def direction(loop):
            it_ = loop.iter if isinstance(loop, ast.For) else None
            if isinstance(it_, ast.Call) and getattr(it_.func, "id", None) == "reversed":
                return "desc"
            if isinstance(it_, ast.Call) and getattr(it_.func, "id", None) == "range":
                if len(it_.args) == 3:
                    st3 = it_.args[2]
                    if isinstance(st3, ast.UnaryOp) and isinstance(st3.op, ast.USub):
                        return "desc"
                    if isinstance(st3, ast.Constant) and isinstance(st3.value, int) and st3.value < 0:
                        return "desc"
                return "asc"
            return "?"

        def winner(dirn, op):
            """which of several equally cheap candidates is kept: the one with the largest or the smallest loop index"""
            if dirn == "?":
                return "?"
            keep_last = op in ("<=", ">=")
            return ("max" if keep_last else "min") if dirn == "asc" else ("min" if keep_last else "max")

        def visit(stmts, in_loop):
            for st_ in stmts:
                if isinstance(st_, ast.If):
                    NEG = {ast.Lt: ast.GtE, ast.LtE: ast.Gt, ast.Gt: ast.LtE, ast.GtE: ast.Lt}

                    def compares(e, neg):
                        """comparisons of the test with the polarity under which the branch is taken (`not a > b` is `a <= b`)"""
                        if isinstance(e, ast.UnaryOp) and isinstance(e.op, ast.Not):
                            yield from compares(e.operand, not neg)
                        elif isinstance(e, ast.BoolOp):
                            for v_ in e.values:
                                yield from compares(v_, neg)
                        elif isinstance(e, ast.Compare):
                            yield e, neg
                        else:
                            for c_ in ast.iter_child_nodes(e):
                                if isinstance(c_, ast.expr):
                                    yield from compares(c_, None)
                    for t, neg in compares(st_.test, False):
                        if isinstance(t, ast.Compare) and len(t.ops) == 1 and type(t.ops[0]) in (ast.Lt, ast.LtE, ast.Gt, ast.GtE):
                            l, r, op = t.left, t.comparators[0], type(t.ops[0])
                            if neg:
                                op = NEG[op]
                            unknown = neg is None
                            if isinstance(l, ast.Name) and l.id in cands and not isinstance(r, ast.Constant):
                                o_ = "?" if unknown else OPN[op]
                                out.append((bool(in_loop), (winner(in_loop, o_) if o_ != "?" else "?") if in_loop else o_, st_))
                            elif isinstance(r, ast.Name) and r.id in cands and not isinstance(l, ast.Constant):
                                o_ = "?" if unknown else OPN[{ast.Lt: ast.Gt, ast.LtE: ast.GtE, ast.Gt: ast.Lt, ast.GtE: ast.LtE}[op]]
                                out.append((bool(in_loop), (winner(in_loop, o_) if o_ != "?" else "?") if in_loop else o_, st_))
                    visit(st_.body, in_loop)
                    visit(st_.orelse, in_loop)
                elif isinstance(st_, (ast.For, ast.While)):
                    # the candidate loop: the innermost loop whose body assigns a candidate
                    def has_cand(node):
                        return any(isinstance(y, ast.Assign) and isinstance(y.targets[0], ast.Name) and y.targets[0].id in cands
                                   for y in ast.walk(node))
                    nested = [y for b_ in st_.body for y in ast.walk(b_) if isinstance(y, (ast.For, ast.While))]
                    innermost = has_cand(st_) and not any(has_cand(y) for y in nested)
                    visit(st_.body, direction(st_) if innermost else False)
        visit(fn_.body, False)
        return out
    # internal asserts of the tabulated planner: `assert schedule[a, b, 2] > 0` must speak about an entry that the candidate
    # computed next reads (those entries are filled; any other entry may still hold the initial -1 and the planner would
    # raise AssertionError where the memoised one returns)
    k_a = 0
    for blk in [x for x in ast.walk(tab) if isinstance(x, (ast.For, ast.If, ast.FunctionDef))]:
        body = blk.body + (getattr(blk, "orelse", []) or [])
        for i_, st_ in enumerate(body):
            if not (isinstance(st_, ast.Assert) and isinstance(st_.test, ast.Compare) and isinstance(st_.test.left, ast.Subscript)
                    and isinstance(st_.test.left.value, ast.Name) and st_.test.left.value.id == "schedule"
                    and isinstance(st_.test.left.slice, ast.Tuple) and len(st_.test.left.slice.elts) == 3):
                continue
            nxt = next((b_ for b_ in body[i_ + 1:] if isinstance(b_, ast.Assign)), None)
            if nxt is None:
                continue
            pbq = PolyBuilder(None, {"n_i": "n", "s_i": "s"})
            key = tuple(pkey(pbq.poly(e)) for e in st_.test.left.slice.elts[:2])
            reads = {tuple(pkey(pbq.poly(e)) for e in x.slice.elts[:2]) for x in ast.walk(nxt.value)
                     if isinstance(x, ast.Subscript) and isinstance(x.value, ast.Name) and x.value.id == "schedule"
                     and isinstance(x.slice, ast.Tuple) and len(x.slice.elts) == 3}
            if reads:
                # an entry the candidate does not read: definitely unset only if it lies at or beyond the entry being
                # computed in the fill order (slot row s_i ascending outside, n_i ascending inside); an earlier entry is
                # filled and the assert never fires (behaviour unchanged)
                verdict = True if key in reads else None
                if verdict is None:
                    pa, pb_ = (pbq.poly(e) for e in st_.test.left.slice.elts[:2])
                    db = padd(pb_, patom("s"), -1)
                    da = padd(pa, patom("n"), -1)
                    cb = db.get((), 0) if set(db) <= {()} else None
                    ca = da.get((), 0) if set(da) <= {()} else None
                    if cb is not None and (cb > 0 or (cb == 0 and ca is not None and ca >= 0)):
                        verdict = False
                chk.decide("C16.REC", f"mixed.{TAB}#assert[{k_a}]", verdict,
                           f"`{ast.unparse(st_.test)}` " + ("asserts on an entry the next candidate reads" if key in reads else
                           f"asserts on an entry the recurrence does not read ({ast.unparse(nxt.value)[:80]}): it may be unset or out of "
                           "range, the tabulated planner raises where the memoised one returns"), rel=REL, node=st_, nontrivial=False)
                k_a += 1
    am, at = acceptance(memo), acceptance(tab)
    sig = lambda a: [(x[0], x[1]) for x in a]
    if am and at:
        same = sig(am) == sig(at)
        definite = len(am) == len(at) and not any(x[1] == "?" for x in am + at)
        same = same and definite
        chk.decide("C16.REC", "mixed#acceptance", True if same else (False if definite else None),
                   f"candidate acceptance (in the candidate loop: which of equally cheap candidates wins, by loop direction and operator; "
                   f"after it: the operator): memoised {sig(am)} vs tabulated {sig(at)}"
                   + ("" if same else ": ties between candidates are broken differently, the two planners prescribe different steps"),
                   rel=REL, node=(at[0][2] if at else tab))
    # memo: the if-chain after the validation guards
    mbody = cm.stmts(memo.body)
    # tab: row-1 prelude + innermost n_i loop body
    prelude, core, loops = None, None, {}
    for n in ast.walk(tab):
        if isinstance(n, ast.For) and isinstance(n.target, ast.Name):
            loops.setdefault(n.target.id, []).append(n)
    for f in loops.get("s_i", []):
        inner = [x for x in f.body if isinstance(x, ast.For) and getattr(x.target, "id", "") == "n_i"]
        if inner:
            core = (f, inner[0])
        elif len(f.body) == 1 and isinstance(f.body[0], ast.Assign):
            prelude = f
    cons = f"mixed.{TAB}"
    if core is None or prelude is None:
        chk.decide("C16.REC", cons + "#shape", None, "table loops not recognised (s_i / n_i)", rel=REL, node=tab)
        return
    tbody = ct.stmts(core[1].body)
    if not (cm.skeleton_ok and ct.skeleton_ok):
        chk.decide("C16.REC", cons + "#shape", None, f"planner outside the recognised shape: {cm.why or ct.why}", rel=REL, node=tab)
        return
    # memo's first case is n == 1 -> result; the rest of its chain must equal the table's n_i-loop body
    if not (len(mbody) == 1 and mbody[0][0] == "if"):
        chk.decide("C16.REC", f"mixed.{MEMO}#shape", None, "memoised planner is not one if-chain", rel=REL, node=memo)
        return
    first = mbody[0]
    n1 = ("==", pkey(padd(patom("n"), pconst(1), -1)))
    ok_first = first[1] == n1 and len(first[2]) == 1 and first[2][0][0] == "res"
    # prelude: for s_i in range(s+1): schedule[1, s_i, :] = triple
    pre = ct.stmts(prelude.body)
    pre_ok = len(pre) == 1 and pre[0][0] == "store" and pre[0][1] == (pkey(pconst(1)), pkey(patom("s")))
    if ok_first and pre_ok:
        same = first[2][0][1] == pre[0][2]
        chk.decide("C16.REC", "mixed#case-n==1", True if same else False,
                   f"memo n == 1 -> {show(first[2][0][1])}; table row 1 -> {show(pre[0][2])}", rel=REL, node=prelude)
        rng = ct.expr(prelude.iter.args[-1]) if isinstance(prelude.iter, ast.Call) else None
        full = len(prelude.iter.args) == 1 and rng == pkey(padd(patom("s"), pconst(1)))
        chk.decide("C16.REC", "mixed#case-n==1/range", True if full else False,
                   f"row 1 is filled for s_i in {ast.unparse(prelude.iter)} (all columns 0..s required)", rel=REL, node=prelude)
    else:
        chk.decide("C16.REC", "mixed#case-n==1", None, "n == 1 case / row-1 prelude not recognised", rel=REL, node=memo)
    rest_m = first[3]
    d = diff(rest_m, tbody)
    if not d:
        ncase = 0
        def count(x):
            nonlocal ncase
            if isinstance(x, tuple):
                if x and x[0] in ("res", "if", "for"):
                    ncase += 1
                for y in x:
                    count(y)
        count(tbody)
        chk.decide("C16.REC", "mixed#recurrence", True,
                   f"canonical programs identical ({ncase} case/candidate nodes): {show(tbody)[:300]}", rel=REL, node=core[1])
    else:
        def atoms_of(x):
            """atom names of a canonical subtree (polynomial keys are tuples of (monomial, coefficient))"""
            out = set()
            if isinstance(x, tuple):
                for y in x:
                    out |= atoms_of(y)
            elif isinstance(x, str):
                out.add(x)
            return out

        def understood(x):
            # a leaf is fully understood if it is built from the canonical vocabulary only: n, s, i, the cost of a
            # sub-problem, the cost of the current result, step kinds, operators and node tags
            ok_words = {"n", "s", "i", "RES_COST", "RES_UNSET", "COST", "LEN", "KIND", "max", "min", "floordiv", "inv", "triple", "res", "if", "for", "or", "and",
                        "store", "<", "<=", "==", "!=", "?"}
            known_names = {"n", "s", "i", "n_i", "s_i", "schedule", "max", "min", "int", "abs", MEMO, "StepType"} | set(consts)
            for a in atoms_of(x):
                if a in ok_words or a.startswith(("StepType.", "COST(", "LEN(", "KIND(", "floordiv(")):
                    continue
                # a leaf kept as source text: understood if it only speaks about the table, the loop variables and
                # builtins - not about a local that may be another name for something canonical
                try:
                    tree = ast.parse(a, mode="eval")
                except SyntaxError:
                    return False
                if any(isinstance(t, ast.Name) and t.id not in known_names for t in ast.walk(tree)):
                    return False
            return True
        import re as _re

        def value_guarded(root, path):
            """the difference lies in an arm of an `if` whose test compares costs only (no "result still unset" disjunct):
            whether that arm is ever taken is a fact about table values"""
            cur = root
            for m_ in _re.finditer(r"/(\w+)\[(\d+)\]|\[(\d+)\]", path):
                try:
                    if m_.group(1):
                        i_ = int(m_.group(2))
                        if cur[0] == "if" and i_ in (1, 2):
                            at = atoms_of(cur[1])
                            if any(x == "RES_COST" or x.startswith("COST(") for x in at) and "RES_UNSET" not in at:
                                return True
                        cur = cur[1 + i_]
                    else:
                        cur = cur[int(m_.group(3))]
                except (IndexError, TypeError):
                    return False
            return False
        for path, a, b, kind in d[:4]:
            definite = kind == "leaf" and understood(a) and understood(b)
            guarded = definite and value_guarded(rest_m, path)
            chk.decide("C16.REC", "mixed#recurrence", False if (definite and not guarded) else None,
                       f"planners differ at {path or '/'}: memoised {show(a)[:160]}  vs  tabulated {show(b)[:160]}"
                       + (" [not definite: the difference sits in a branch taken only if one cost is smaller than another - whether "
                          "that ever happens is a fact about table values]" if guarded else
                          ("" if definite or kind != "leaf" else " [not definite: a side mentions names outside the canonical vocabulary]")),
                       rel=REL, node=core[1])
    # loop ranges of the table cover the domain n in [2, n], s in [1, s]
    want = {"s_i": (pkey(pconst(1)), pkey(padd(patom("s"), pconst(1)))),
            "n_i": (pkey(pconst(2)), pkey(padd(patom("n"), pconst(1))))}
    for f, name in ((core[0], "s_i"), (core[1], "n_i")):
        args = tuple(PolyBuilder().poly(a) for a in f.iter.args) if isinstance(f.iter, ast.Call) else ()
        got = tuple(pkey(a) for a in args)
        chk.decide("C16.REC", f"mixed.{TAB}#range-{name}", True if got == want[name] else (False if len(got) == 2 else None),
                   f"{name} in {ast.unparse(f.iter)}; required range({'1, s + 1' if name == 's_i' else '2, n + 1'})",
                   rel=REL, node=f)
    # clamp: the case n <= s + 1 must not depend on s in its result
    def s_free(x):
        return "s" not in repr(x)
    for stmt in tbody:
        if stmt[0] == "if" and stmt[1][0] == "<=" and len(stmt[2]) == 1 and stmt[2][0][0] == "res":
            chk.decide("C16.REC", "mixed#clamp", True if s_free(stmt[2][0][1]) else False,
                       "result of the `n <= s + 1` case does not mention s: the memoised planner's clamp s := min(s, n-1) "
                       "and the table's unclamped column agree", rel=REL, node=core[1])


def run(chk, ctx):
    rec_rules(chk, ctx)
    arms_rules(chk, ctx)


def arms_rules(chk, ctx):
    repo = ctx.repo
    mod = repo.module(REL).tree
    consts = {}
    for n in mod.body:
        if isinstance(n, ast.Assign) and len(n.targets) == 1 and isinstance(n.targets[0], ast.Name) and isinstance(n.value, ast.Call) \
                and getattr(n.value.func, "id", None) == "int" and n.value.args and isinstance(n.value.args[0], ast.Attribute) \
                and getattr(n.value.args[0].value, "id", None) == "StepType":
            consts[n.targets[0].id] = "StepType." + n.value.args[0].attr
    # ---- ARMS
    rel_i, owner, it_fn = ctx.model.generator("MixedCheckpointSchedule")
    chk.functions.add(f"mixed.{owner.name}._iterator")
    k = 0
    tabs = {t.id for x in ast.walk(it_fn) if isinstance(x, ast.Assign) and isinstance(x.value, ast.Call)
            and getattr(x.value.func, "id", None) == TAB for t in x.targets if isinstance(t, ast.Name)}
    modfns = {f.name: f for f in repo.module(REL).tree.body if isinstance(f, ast.FunctionDef)}

    def memo_arm(e):
        """MEMO(a, b) or MEMO(a, b)[k] -> (args, projection)"""
        if isinstance(e, ast.Subscript) and isinstance(e.slice, ast.Constant) and isinstance(e.slice.value, int):
            inner = memo_arm(e.value)
            return None if inner is None or inner[1] is not None else (inner[0], e.slice.value)
        if isinstance(e, ast.Call) and getattr(e.func, "id", None) == MEMO and len(e.args) == 2 and not e.keywords:
            return list(e.args), None
        return None

    def table_arm(e):
        """T[a, b] / T[a, b, k] / T[a, b][k] / wrapper(T, a, b)[k] -> (args, projection, converted to StepType/int)"""
        if isinstance(e, ast.Subscript) and isinstance(e.value, ast.Name) and e.value.id in tabs and isinstance(e.slice, ast.Tuple):
            el = e.slice.elts
            if len(el) == 2:
                return list(el), None, False
            if len(el) == 3 and isinstance(el[2], ast.Constant) and isinstance(el[2].value, int):
                return list(el[:2]), el[2].value, False
            return None
        if isinstance(e, ast.Subscript) and isinstance(e.slice, ast.Constant) and isinstance(e.slice.value, int):
            inner = table_arm(e.value)
            return None if inner is None or inner[1] is not None else (inner[0], e.slice.value, inner[2])
        if isinstance(e, ast.Call) and isinstance(e.func, ast.Name) and e.func.id in modfns and len(e.args) == 3 and not e.keywords \
                and isinstance(e.args[0], ast.Name) and e.args[0].id in tabs:
            w = modfns[e.func.id]
            ps = [a.arg for a in w.args.args]
            subs_ = [x for x in ast.walk(w) if isinstance(x, ast.Subscript) and isinstance(x.value, ast.Name) and x.value.id == ps[0]
                     and isinstance(x.slice, ast.Tuple)] if len(ps) == 3 else []
            if len(subs_) == 1 and [ast.unparse(x) for x in subs_[0].slice.elts] == ps[1:]:
                conv = any(isinstance(x, ast.Call) and getattr(x.func, "id", None) == "StepType" for x in ast.walk(w))
                return list(e.args[1:]), None, conv
        return None
    raw_names = []      # locals that hold an unconverted step-type entry of the table
    for n in sorted((x for x in ast.walk(it_fn) if isinstance(x, ast.If)), key=lambda x: x.lineno):
        if not (isinstance(n, ast.If) and len(n.body) == 1 and len(n.orelse) == 1
                and isinstance(n.body[0], ast.Assign) and isinstance(n.orelse[0], ast.Assign)):
            continue
        a, b = n.body[0], n.orelse[0]
        ma = [(x, memo_arm(x.value)) for x in (a, b)]
        ta = [(x, table_arm(x.value)) for x in (a, b)]
        ma = [(x, v) for x, v in ma if v is not None]
        ta = [(x, v) for x, v in ta if v is not None]
        if len(ma) != 1 or len(ta) != 1 or ma[0][0] is ta[0][0]:
            continue
        cons = f"mixed.{owner.name}._iterator#selection[{k}]"
        k += 1
        pbd = PolyBuilder()
        ca = [pkey(pbd.poly(x)) for x in ma[0][1][0]]
        sa = [pkey(pbd.poly(x)) for x in ta[0][1][0]]
        same_args = ca == sa
        same_proj = ma[0][1][1] == ta[0][1][1]
        same_tgt = ast.unparse(a.targets[0]) == ast.unparse(b.targets[0])
        chk.decide("C16.ARMS", cons, True if (same_args and same_tgt and same_proj) else False,
                   f"memoised arm {ast.unparse(ma[0][0].value)[:90]} / table arm {ast.unparse(ta[0][0].value)[:90]}: "
                   + ("equal arguments, components and targets" if same_args and same_tgt and same_proj else
                      ("arguments differ" if not same_args else ("different components are selected" if not same_proj else "targets differ"))),
                   rel=rel_i, node=n)
        if not ta[0][1][2]:
            tg = ta[0][0].targets[0]
            if isinstance(tg, ast.Name) and ta[0][1][1] == 0:
                raw_names.append((tg.id, ta[0][0]))
            elif isinstance(tg, ast.Tuple) and ta[0][1][1] is None and tg.elts and isinstance(tg.elts[0], ast.Name):
                raw_names.append((tg.elts[0].id, ta[0][0]))
    # the table holds plain integers, the memoised planner returns StepType members: they agree under == / != (IntEnum),
    # never under `is` / `is not`
    for nm, site in raw_names:
        for x in ast.walk(it_fn):
            if isinstance(x, ast.Compare) and any(isinstance(o, (ast.Is, ast.IsNot)) for o in x.ops):
                operands = [x.left] + list(x.comparators)
                if any(isinstance(o, ast.Name) and o.id == nm for o in operands) \
                        and not any(isinstance(o, ast.Constant) and o.value is None for o in operands):
                    chk.decide("C16.ARMS", f"mixed.{owner.name}._iterator#identity[{nm}]", False,
                               f"`{ast.unparse(x)}` compares by identity, but on the table arm `{nm}` is the raw table entry "
                               f"`{ast.unparse(site.value)[:60]}` (a numpy integer), on the memoised arm a StepType member: the two "
                               "arms take different branches", rel=rel_i, node=x)
    # second form: one local bound either to the memoised planner or to a nested function that looks the same
    # arguments up in the table; every consultation then passes one argument list to whichever is bound
    tables = {t.id for x in ast.walk(it_fn) if isinstance(x, ast.Assign) and isinstance(x.value, ast.Call)
              and getattr(x.value.func, "id", None) == TAB for t in x.targets if isinstance(t, ast.Name)}
    memo_names = {t.id for x in ast.walk(it_fn) if isinstance(x, ast.Assign) and isinstance(x.value, ast.Name)
                  and x.value.id == MEMO for t in x.targets if isinstance(t, ast.Name)}
    for d in [x for x in ast.walk(it_fn) if isinstance(x, ast.FunctionDef) and x is not it_fn and x.name in memo_names]:
        params = [a.arg for a in d.args.args]
        body = [b for b in d.body if not (isinstance(b, ast.Expr) and isinstance(b.value, ast.Constant))]
        cons = f"mixed.{owner.name}._iterator#dispatch[{d.name}]"
        ok = None
        if len(body) == 1 and isinstance(body[0], ast.Return) and isinstance(body[0].value, ast.Subscript) \
                and isinstance(body[0].value.value, ast.Name) and body[0].value.value.id in tables \
                and not d.args.defaults and not d.args.kwonlyargs and not d.args.vararg:
            sl = body[0].value.slice
            idx = [ast.unparse(e) for e in (sl.elts if isinstance(sl, ast.Tuple) else [sl])]
            ok = True if idx == params else (False if sorted(idx) == sorted(params) else None)
        direct = [x for x in ast.walk(it_fn) if (isinstance(x, ast.Call) and getattr(x.func, "id", None) == MEMO)
                  or (isinstance(x, ast.Subscript) and isinstance(x.value, ast.Name) and x.value.id in tables
                      and not any(x is y for y in ast.walk(d)))]
        if ok is True and direct:
            ok = None
        k += 1
        chk.decide("C16.ARMS", cons, ok,
                   f"`{d.name}` is bound to {MEMO} or to a nested function returning {ast.unparse(body[0].value) if len(body) == 1 and isinstance(body[0], ast.Return) else '?'} "
                   f"of its parameters {params}: " + ("both arms receive the arguments of the one call site, in the same order" if ok else
                                                      ("the table arm permutes the arguments" if ok is False else "form not recognised")),
                   rel=rel_i, node=d)
    if k < 1:
        chk.decide("C16.ARMS", f"mixed.{owner.name}._iterator#selection", None, "no selection site found", rel=rel_i, node=it_fn)
    # the table is built for (max_n, snapshots) of the instance
    for n in ast.walk(it_fn):
        if isinstance(n, ast.Call) and getattr(n.func, "id", None) == TAB:
            args = [ast.unparse(x) for x in n.args]
            # (max_n, unit count of the instance): the unit attribute is the one the planner arguments are computed from
            unit_attrs = {ast.unparse(x) for y in ast.walk(it_fn) if isinstance(y, ast.Call) and getattr(y.func, "id", None) == MEMO
                          and len(y.args) == 2 for x in ast.walk(y.args[1]) if isinstance(x, ast.Attribute)
                          and isinstance(x.value, ast.Name) and x.value.id == "self"}
            ok = len(args) == 2 and args[0] == "self._max_n" and (args[1] == "self._snapshots" or args[1] in unit_attrs)
            chk.decide("C16.ARMS", f"mixed.{owner.name}._iterator#table-size", True if ok else None,
                       f"table built as {TAB}({', '.join(args)})", rel=rel_i, node=n, nontrivial=False)
    # ---- COST (information): optimal_steps_mixed minimises over the same candidate costs
    osm = repo.func(REL, "optimal_steps_mixed", required=False)
    if osm is not None:
        chk.functions.add("mixed.optimal_steps_mixed")

        def cost_atom(fname):
            def atom(node, pb):
                if isinstance(node, ast.Subscript) and isinstance(node.value, ast.Call) and getattr(node.value.func, "id", None) == fname \
                        and len(node.value.args) == 2:
                    node = node.value
                if isinstance(node, ast.Call) and getattr(node.func, "id", None) == fname and len(node.args) == 2:
                    return patom(("COST", pkey(pb.poly(node.args[0])), pkey(pb.poly(node.args[1]))))
                return None
            return atom
        osm_n = normalise_memo(osm)
        got = set()
        if osm_n is not None:
            pbo = PolyBuilder(cost_atom("optimal_steps_mixed"))
            for x in ast.walk(osm_n):
                vals = []
                if isinstance(x, ast.Return) and x.value is not None and not (isinstance(x.value, ast.Name) and x.value.id == "m"):
                    vals = [x.value]
                elif isinstance(x, ast.Assign):
                    vals = [x.value]
                for v in vals:
                    if isinstance(v, ast.Call) and getattr(v.func, "id", None) == "min":
                        vals += [a for a in v.args if not isinstance(a, ast.Name)]
                        continue
                    try:
                        got.add(pkey(pbo.poly(v)))
                    except Exception:
                        pass
        want = set()
        memo_c = normalise_memo(repo.func(REL, MEMO))
        if memo_c is not None:
            cmc = Canon("memo", consts)
            cmc.stmts(memo_c.body)
            env_vals = set()

            n_key = pkey(patom("n"))

            def triples(x, n_is=None):
                if isinstance(x, tuple):
                    if x and x[0] == "triple":
                        c = x[3]
                        # under the guard n == c the constant cost c is the value of n
                        if n_is is not None and c == pkey(pconst(n_is)):
                            c = n_key
                        want.add(c)
                    if x and x[0] == "if" and len(x) == 4 and x[1] and x[1][0] == "==":
                        d = dict(x[1][1])
                        if set(d) == {(), ("n",)} and d[("n",)] == 1:
                            triples(x[2], int(-d[()]))
                            triples(x[3], n_is)
                            return
                    for y in x:
                        triples(y, n_is)
            triples(cmc.stmts(memo_c.body))
        ok = bool(want) and want <= got
        import os
        if os.environ.get("VERIF_DEBUG"):
            print("COST want-got", [pstr(dict(w)) for w in want - got], "got", [pstr(dict(g)) for g in got])
        if ok:
            chk.decide("C16.COST", "mixed.optimal_steps_mixed", True,
                       f"every candidate cost of the memoised planner ({len(want)}) is a candidate of optimal_steps_mixed", rel=REL, node=osm,
                       nontrivial=False)
        else:
            chk.note("C16.COST (information only): the candidate costs of optimal_steps_mixed were not matched with those of the planners")
