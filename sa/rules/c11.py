"""C11 - uses_storage_type never under-reports a storage the stream touches.

  COVER  for each class the RAM/DISK labels that can appear in an emitted
         Forward/Copy/Move are collected from the yield sites (literals, attributes
         with their constructor-derived value sets, the op alphabet of the Revolve
         entry point mapped through the _convert_action summary); for every
         configuration in which a label is emitted, uses_storage_type(label) is
         abstractly evaluated and must return True
  TOTAL  uses_storage_type is abstractly evaluated for all four StorageType members
         and every constructor-derived attribute valuation: it must return, not raise
"""
import ast

from .common import *
from . import shared
from ..convsum import convert_summary
from ..gram import Grammar, alphabet
from ..interp import Interp
from ..karr import State

MEMBERS = ["StorageType.RAM", "StorageType.DISK", "StorageType.WORK", "StorageType.NONE"]
CKPT = {"StorageType.RAM", "StorageType.DISK"}


def evaluate(repo, cname, member, entry):
    rel, c, f = repo.resolve_method(cname, "uses_storage_type")
    p = f.args.args[1].arg
    st = entry.copy()
    st.enum_set(p, member)
    it = Interp(f, entry=st, finalize_havoc=False)
    it.DEFAULT_PART = ()
    it.exact_minmax = True
    it.run()
    res = set()
    evaluate.last_states = []
    for o in it.outcomes:
        if o.state.bottom and o.kind != "raise":
            continue
        if o.kind == "raise":
            res.add(("raise", o.what))
        elif o.kind == "end":
            res.add(("value", "None"))
        else:
            v = o.what
            if isinstance(v, Tok):
                res.add(("value", v.v))
                evaluate.last_states.append((v.v, o.state))
            else:
                res.add(("value", "?"))
    if getattr(it, "fuzzy", None):
        # the query contains a construct the evaluation cannot follow (a call it cannot resolve, ...): whatever
        # outcomes were found, others are possible
        res.add(("value", "?"))
    return rel, c, f, res


def emitted_labels(run_):
    """set of (label token, evidence text) that the generator can emit as checkpoint storage"""
    out = {}
    for rec in run_.interp.yields:
        vals = []
        if rec.kind == "Forward":
            vals.append(rec.arg(4, "storage"))
        elif rec.kind in ("Copy", "Move"):
            vals += [rec.arg(1, "from_storage"), rec.arg(2, "to_storage")]
        for v in vals:
            sv = storage_values(rec.state, v)
            if sv:
                for t in sv & CKPT:
                    out.setdefault(t, f"{rec.yid} line {rec.node.lineno}")
    return out


def count_links(repo, cname):
    """Multistage idiom: self.A = T.count(StorageType.X) and self._storage = T  ->  {X: A}"""
    rel, c, f = repo.resolve_method(cname, "__init__")
    local = {}
    links = {}
    storage_src = None
    for s in f.body:
        if isinstance(s, ast.Assign) and len(s.targets) == 1:
            t, v = s.targets[0], s.value
            if isinstance(v, ast.Call) and isinstance(v.func, ast.Attribute) and v.func.attr == "count" \
                    and isinstance(v.func.value, ast.Name) and len(v.args) == 1 and \
                    isinstance(v.args[0], ast.Attribute) and isinstance(v.args[0].value, ast.Name) \
                    and v.args[0].value.id == "StorageType":
                info = (v.func.value.id, "StorageType." + v.args[0].attr)
                if isinstance(t, ast.Name):
                    local[t.id] = info
                elif isinstance(t, ast.Attribute):
                    links[info[1]] = (t.attr, info[0])
            elif isinstance(v, ast.Name) and v.id in local and isinstance(t, ast.Attribute):
                links[local[v.id][1]] = (t.attr, local[v.id][0])
            elif isinstance(t, ast.Attribute) and t.attr == "_storage" and isinstance(v, ast.Name):
                storage_src = v.id
            elif isinstance(t, ast.Name) and t.id in {i[0] for i in local.values()}:
                local = {k: i for k, i in local.items() if i[0] != t.id}
    return {x: a for x, (a, src) in links.items() if src == storage_src}


def run(chk, ctx):
    chk.describe("C11.COVER", "every RAM/DISK label a class can emit is reported by uses_storage_type in that configuration")
    chk.describe("C11.TOTAL", "uses_storage_type returns (never raises) for every StorageType member and attribute valuation")
    repo, model = ctx.repo, ctx.model
    summary = convert_summary(repo)
    g = Grammar(repo)
    model.prefetch(model.concrete_classes(), split_all=True)
    for cname in model.concrete_classes():
        entries, _ = model.init_facts(cname)
        if any(e.enum_is("self._max_n", "None") == "no" for e in entries):
            # an offline class constructed with max_n=None yields no stream at all
            entries = [e for e in entries if e.enum_is("self._max_n", "None") == "no"]
        rel_u, c_u, f_u = repo.resolve_method(cname, "uses_storage_type")
        chk.files.add(rel_u)
        chk.functions.add(f"{rel_u[:-3]}.{c_u.name}.uses_storage_type")
        base = f"{rel_u[:-3]}.{c_u.name}.uses_storage_type@{cname}"
        # every attribute the query reads exists on every instance: it is stored by the constructor chain (or is a class
        # attribute / property / method) - otherwise the query raises AttributeError
        reads = {x.attr for x in ast.walk(f_u) if isinstance(x, ast.Attribute) and isinstance(x.value, ast.Name) and x.value.id == "self"
                 and isinstance(x.ctx, ast.Load)}
        have = set()
        for _, cc in repo.mro(cname):
            for b_ in cc.body:
                if isinstance(b_, ast.FunctionDef):
                    have.add(b_.name)
                    if b_.name == "__init__":
                        have |= {t.attr for x in ast.walk(b_) if isinstance(x, (ast.Assign, ast.AugAssign, ast.AnnAssign))
                                 for t in (x.targets if isinstance(x, ast.Assign) else [x.target])
                                 for t in ast.walk(t) if isinstance(t, ast.Attribute) and isinstance(t.value, ast.Name) and t.value.id == "self"}
                elif isinstance(b_, ast.Assign):
                    have |= {t.id for t in b_.targets if isinstance(t, ast.Name)}
        missing_attrs = sorted(reads - have)
        chk.decide("C11.TOTAL", base + "#attributes", True if not missing_attrs else False,
                   f"uses_storage_type reads {sorted(reads)}" + ("; all are stored by the constructor chain" if not missing_attrs else
                   f"; {missing_attrs} is never stored by the constructors of {cname}: the query raises AttributeError"),
                   rel=rel_u, node=f_u, nontrivial=False)
        # split entries on storage-valued attributes with finite domains
        split = []
        for e in entries:
            doms = {s: sorted(v[1]) for s, v in e.enums.items() if s.startswith("self.") and v[0] == "in"
                    and 2 <= len(v[1]) <= 4 and all(x.startswith("StorageType.") for x in v[1])}
            cur = [(e, {})]
            for s, vals in doms.items():
                nxt = []
                for st, cfg in cur:
                    for v in vals:
                        s2 = st.copy()
                        s2.enum_meet(s, "in", [v])
                        if not s2.bottom:
                            nxt.append((s2, dict(cfg, **{s: v})))
                cur = nxt
            split += cur
        runs = model.runs(cname, split_all=True)
        for r in runs:
            register(chk, r)
        # ---- TOTAL
        for st, cfg in split:
            ctext = "{" + ", ".join(f"{k}={v}" for k, v in cfg.items()) + "}" if cfg else ""
            tag = ctext
            for m in MEMBERS:
                rel, c, f, res = evaluate(repo, cname, m, st)
                raised = [r for r in res if r[0] == "raise"]
                cons = f"{base}#total({m.split('.')[1]}){tag}"
                if raised:
                    chk.decide("C11.TOTAL", cons, False if len(res) == len(raised) else None,
                               f"uses_storage_type({m}) raises {sorted(x[1] for x in raised)} for {cname}{ctext}",
                               rel=rel, node=f)
                else:
                    chk.decide("C11.TOTAL", cons, True, f"returns {sorted(x[1] for x in res)}", rel=rel, node=f)
        # ---- COVER: exact evaluation.  The constructor chain is evaluated with exact min/max case
        # splits (straight-line code over linear terms: each partition describes concrete states
        # exactly); for every partition and every label the class can emit, the query must return
        # True whenever the emission condition of the label holds.
        family = any(c.name == "RevolveCheckpointSchedule" for _, c in repo.mro(cname))
        relc, cc, init = repo.resolve_method(cname, "__init__")
        params = [a.arg for a in init.args.args[1:]] + [a.arg for a in init.args.kwonlyargs]
        unit_params = [p for p in params if p in ("snapshots", "snapshots_in_ram", "snapshots_on_disk", "binomial_snapshots")]
        base_entry = State()
        for p in params:
            if p in ("max_n", "period"):
                base_entry.add_ineq(Lin.sym(p) - ONE)
                base_entry.enum_meet(p, "notin", ["None"])
            elif p in unit_params:
                base_entry.add_ineq(Lin.sym(p) - (ONE if p == "snapshots_in_ram" and family else Lin.const(0)))
                base_entry.enum_meet(p, "notin", ["None"])
        sparams = [p for p in params if p in ("storage", "binomial_storage")]
        attr_of = shared.param_attrs(repo, cname)
        variants = [(base_entry, {})]
        for p in sparams:
            variants = [(e, dict(c, **{p: v})) for e, c in variants for v in ("StorageType.RAM", "StorageType.DISK")]
        for entry0, pcfg in variants:
            entry = entry0.copy()
            for p, v in pcfg.items():
                entry.enum_set(p, v)
            try:
                _, _, _, it = model.init_run(cname, entry=entry, exact=True)
            except Exception as e:       # outside the exact fragment: fall back to inconclusive
                chk.decide("C11.COVER", base + "#exact-constructor", None, f"constructor not evaluable exactly: {e}", rel=relc, node=init)
                continue
            ends = [o.state for o in it.outcomes if o.kind in ("end", "return") and not o.state.bottom]
            ctext = "{" + ", ".join(f"{k}={v.split('.')[-1]}" for k, v in pcfg.items()) + "}" if pcfg else ""
            # attribute valuation implied by the parameter choice (for label resolution)
            labels = {}      # label -> (evidence, emission condition as list of Lin >= 0 over params/attrs)
            if family:
                entry_fn = None
                for n in ast.walk(init):
                    if isinstance(n, ast.Call) and isinstance(n.func, ast.Name) and n.func.id in g.liveness.entries:
                        entry_fn = n.func.id
                if entry_fn is None:
                    chk.decide("C11.COVER", base + "#entry", None, f"{cname}: sequence entry point not found", rel=relc, node=init)
                    continue
                for op in sorted(alphabet(g, entry_fn)):
                    sv = summary.get(op)
                    if sv is None:
                        chk.decide("C11.COVER", base + f"#op-{op}", None, f"operation {op} not in the _convert_action summary",
                                   rel="hrevolve.py", node=init)
                        continue
                    if not (op.startswith("Read") or op.startswith("Write")) or op.startswith("Write_Forward"):
                        continue
                    for t in sv & CKPT:
                        cond = []
                        if t == "StorageType.DISK" and "snapshots_on_disk" in params:
                            # DISK operations are generated only if disk slots are available (assumed; the
                            # DP tables keep the sequence disk-free otherwise - not decided here).  The slot
                            # count that matters is the one handed to the sequence builder.
                            crs = [c for c in it.calls if c.name == entry_fn]
                            slots = None
                            sv_ = None
                            if crs:
                                # second parameter of the builder, given by position or by keyword (tuple or list display)
                                sv_ = crs[0].args[1] if len(crs[0].args) > 1 else None
                                if sv_ is None and crs[0].kwargs:
                                    ecs = [f_ for r_, q_, f_ in repo.all_functions() if q_ == entry_fn and r_.startswith("hrevolve_sequences/")]
                                    if len(ecs) == 1 and len(ecs[0].args.args) > 1:
                                        sv_ = crs[0].kwargs.get(ecs[0].args.args[1].arg)
                            if isinstance(sv_, (tuple, list)) and len(sv_) == 2 and is_lin(sv_[1]):
                                slots = sv_[1]
                            if slots is None:
                                chk.decide("C11.COVER", base + "#disk-slots", None,
                                           "cannot identify the disk slot count passed to the sequence builder", rel=relc, node=init)
                                continue
                            cond = [slots - ONE]
                        labels.setdefault(t, (f"operation {op} of {entry_fn}", cond))
            else:
                online = all(e.enum_is("self._max_n", "None") == "yes" for e in entries)
                for r in runs:
                    # only the run analysed under this storage choice
                    if any(r.config.get(attr_of.get(p, "self._" + p), v) != v for p, v in pcfg.items()):
                        continue
                    for rec in r.interp.yields:
                        vals = []
                        if rec.kind == "Forward":
                            vals.append(rec.arg(4, "storage"))
                        elif rec.kind in ("Copy", "Move"):
                            vals += [rec.arg(1, "from_storage"), rec.arg(2, "to_storage")]
                        pre_ef = rec.state.enum_single("$ef") == "0"
                        for v in vals:
                            if is_lin(v) and any(rec.state.entails_eq(v - Lin.sym(a)) == "yes" for a in r.interp.label_atoms):
                                continue       # label table: decided below
                            a = alias_attr(rec.state, v) if is_lin(v) else None
                            if a is not None:
                                key = ("attr", a)
                            else:
                                sv = storage_values(rec.state, v)
                                if not sv:
                                    continue
                                key = ("toks", frozenset(sv & CKPT))
                            uncond = online and pre_ef and rec.kind == "Forward"
                            cur = labels.get(key)
                            if cur is None or (uncond and cur[1]):
                                labels[key] = (f"{rec.yid} line {rec.node.lineno}", [] if uncond else "units")
            for st in ends:
                for key, (why, cond) in sorted(labels.items(), key=lambda kv: repr(kv[0])):
                    # resolve the label to tokens in this partition
                    if isinstance(key, tuple) and key[0] == "attr":
                        e = st.enum_get(key[1])
                        toks = set(e[1]) & CKPT if e and e[0] == "in" else None
                        if toks is None or len(toks) != 1:
                            chk.decide("C11.COVER", base + f"#cover({key[1]}){ctext}", None,
                                       f"storage attribute {key[1]} not determined in the constructor partition", rel=relc, node=init)
                            continue
                    elif isinstance(key, tuple) and key[0] == "toks":
                        toks = set(key[1])
                        if len(toks) > 1:
                            # a local whose value set was merged over branches: which member is emitted in this
                            # configuration is not known, so a failing query is not a definite under-report
                            for t in sorted(toks):
                                rel, c, f, res = evaluate(repo, cname, t, st)
                                if res != {("value", "True")}:
                                    chk.decide("C11.COVER", f"{base}#cover({t.split('.')[1]}){ctext}", None,
                                               f"{t} may be emitted ({why}, value set {sorted(toks)}) and the query gives {sorted(res)}",
                                               rel=rel, node=f)
                            continue
                    else:
                        toks = {key}
                    for t in sorted(toks):
                        st2 = st.copy()
                        if cond == "units":
                            # reversal-time / offline writes need at least one checkpoint unit
                            tot = Lin.const(0)
                            for a in sorted(x for x in st2.symbols() | set(st2.enums) if x.startswith("self._")
                                            and x[6:] in ("snapshots", "snapshots_in_ram", "snapshots_on_disk", "binomial_snapshots")):
                                tot = tot + Lin.sym(a)
                            if tot.t:
                                st2.add_ineq(tot - ONE)
                        else:
                            for q in cond:
                                st2.add_ineq(q)
                        if st2.bottom or st2.infeasible():
                            continue
                        rel, c, f, res = evaluate(repo, cname, t, st2)
                        cons = f"{base}#cover({t.split('.')[1]}){ctext}"
                        if res == {("value", "True")}:
                            chk.decide("C11.COVER", cons, True, f"{t} emitted ({why}); query returns True", rel=rel, node=f)
                        else:
                            bad = sorted(f"{k}:{v}" for k, v in res if (k, v) != ("value", "True"))
                            definite = ("value", "?") not in res and any(k == "raise" or v in ("False", "None") for k, v in res)
                            if definite and family and t == "StorageType.DISK":
                                # the op alphabet only says DISK *may* be used; it certainly is when there are very many
                                # steps and few RAM units.  The verdict is definite only if the refuting constructor
                                # state contains such instances (otherwise a sound precision refinement could be meant).
                                feasible = False
                                for val, ost in getattr(evaluate, "last_states", []):
                                    if val == "True":
                                        continue
                                    probe = ost.copy()
                                    probe.add_ineq(M - Lin.const(10 ** 6))
                                    probe.add_ineq(Lin.const(10) - Lin.sym("self._snapshots_in_ram"))
                                    if not (probe.bottom or probe.infeasible()):
                                        feasible = True
                                if not feasible and not any(k == "raise" for k, v in res):
                                    definite = False
                            facts = ", ".join(sorted(repr(i) for i in st2.ineq if any(x.startswith("self.") or x in params for x in i.t))[:4])
                            chk.decide("C11.COVER", cons, False if definite else None,
                                       f"{cname}{ctext} emits {t} ({why}) but uses_storage_type({t}) gives {bad} in a reachable "
                                       f"constructor state ({facts})", rel=rel, node=f)
        # ---- Multistage-style label tables: counts reported are counts of the label tuple
        for r in runs:
            # label tables: per-instance tables whose entries flow into storage arguments of actions
            uses_labels = False
            for rec in r.interp.yields:
                for v in ([rec.arg(4)] if rec.kind == "Forward" else [rec.arg(1)] if rec.kind in ("Copy", "Move") else []):
                    if is_lin(v) and any(rec.state.entails_eq(v - Lin.sym(a)) == "yes" for a in r.interp.label_atoms):
                        uses_labels = True
            if not uses_labels:
                continue
            links = count_links(repo, cname)
            for t in sorted(CKPT):
                cons = f"{base}#cover({t.split('.')[1]})[label-table]"
                if t not in links:
                    chk.decide("C11.COVER", cons, None,
                               f"labels are read from self._storage but no attribute is defined as its count of {t}",
                               rel=r.rel, node=r.fn)
                    continue
                for st, cfg in split:
                    if st.enum_is("self._max_n", "None") == "yes":
                        continue
                    for cell in ("==1", ">=2"):
                        st2 = st.copy()
                        a = Lin.sym("self." + links[t])
                        if cell == "==1":
                            st2.add_eq(a - ONE)
                        else:
                            st2.add_ineq(a - Lin.const(2))
                        rel, c, f, res = evaluate(repo, cname, t, st2)
                        ok = res == {("value", "True")}
                        definite = ("value", "True") not in res and ("value", "?") not in res
                        if not ok and not definite and ("value", "?") not in res:
                            # the answer depends on something else than this count: definite if the constructor state with
                            # this count also admits the outcome False (the counts of the two storages are independent)
                            for val, ost in getattr(evaluate, "last_states", []):
                                if val in ("False", "None") and not (ost.bottom or ost.dead()):
                                    definite = True
                        chk.decide("C11.COVER", cons + f"@count{cell}", True if ok else (False if definite else None),
                                   f"self.{links[t]} = count of {t} in the label tuple; with count {cell} the query gives {sorted(res)}",
                                   rel=rel, node=f)
            break
