"""C11 - uses_storage_type never under-reports a storage the stream touches.

  COVER  for each class the RAM/DISK labels that can appear in an emitted
         Forward/Copy/Move are collected from the yield sites (literals, attributes
         with their constructor-derived value sets, the op alphabet of the Revolve
         entry point mapped through the _convert_action summary); for every
         configuration in which a label is emitted, uses_storage_type(label) is
         abstractly evaluated and must return True
  TOTAL  uses_storage_type is abstractly evaluated for all four StorageType members
         and every constructor-derived attribute valuation: it must return, not raise
"""
import ast

from .common import *
from ..convsum import convert_summary
from ..gram import Grammar, alphabet
from ..interp import Interp

MEMBERS = ["StorageType.RAM", "StorageType.DISK", "StorageType.WORK", "StorageType.NONE"]
CKPT = {"StorageType.RAM", "StorageType.DISK"}


def evaluate(repo, cname, member, entry):
    rel, c, f = repo.resolve_method(cname, "uses_storage_type")
    p = f.args.args[1].arg
    st = entry.copy()
    st.enum_set(p, member)
    it = Interp(f, entry=st, finalize_havoc=False)
    it.DEFAULT_PART = ()
    it.run()
    res = set()
    for o in it.outcomes:
        if o.state.bottom and o.kind != "raise":
            continue
        if o.kind == "raise":
            res.add(("raise", o.what))
        elif o.kind == "end":
            res.add(("value", "None"))
        else:
            v = o.what
            if isinstance(v, Tok):
                res.add(("value", v.v))
            else:
                res.add(("value", "?"))
    return rel, c, f, res


def emitted_labels(run_):
    """set of (label token, evidence text) that the generator can emit as checkpoint storage"""
    out = {}
    for rec in run_.interp.yields:
        vals = []
        if rec.kind == "Forward":
            vals.append(rec.arg(4, "storage"))
        elif rec.kind in ("Copy", "Move"):
            vals += [rec.arg(1, "from_storage"), rec.arg(2, "to_storage")]
        for v in vals:
            sv = storage_values(rec.state, v)
            if sv:
                for t in sv & CKPT:
                    out.setdefault(t, f"{rec.yid} line {rec.node.lineno}")
    return out


def count_links(repo, cname):
    """Multistage idiom: self.A = T.count(StorageType.X) and self._storage = T  ->  {X: A}"""
    rel, c, f = repo.resolve_method(cname, "__init__")
    local = {}
    links = {}
    storage_src = None
    for s in f.body:
        if isinstance(s, ast.Assign) and len(s.targets) == 1:
            t, v = s.targets[0], s.value
            if isinstance(v, ast.Call) and isinstance(v.func, ast.Attribute) and v.func.attr == "count" \
                    and isinstance(v.func.value, ast.Name) and len(v.args) == 1 and \
                    isinstance(v.args[0], ast.Attribute) and isinstance(v.args[0].value, ast.Name) \
                    and v.args[0].value.id == "StorageType":
                info = (v.func.value.id, "StorageType." + v.args[0].attr)
                if isinstance(t, ast.Name):
                    local[t.id] = info
                elif isinstance(t, ast.Attribute):
                    links[info[1]] = (t.attr, info[0])
            elif isinstance(v, ast.Name) and v.id in local and isinstance(t, ast.Attribute):
                links[local[v.id][1]] = (t.attr, local[v.id][0])
            elif isinstance(t, ast.Attribute) and t.attr == "_storage" and isinstance(v, ast.Name):
                storage_src = v.id
            elif isinstance(t, ast.Name) and t.id in {i[0] for i in local.values()}:
                local = {k: i for k, i in local.items() if i[0] != t.id}
    return {x: a for x, (a, src) in links.items() if src == storage_src}


def run(chk, ctx):
    chk.describe("C11.COVER", "every RAM/DISK label a class can emit is reported by uses_storage_type in that configuration")
    chk.describe("C11.TOTAL", "uses_storage_type returns (never raises) for every StorageType member and attribute valuation")
    repo, model = ctx.repo, ctx.model
    summary = convert_summary(repo)
    g = Grammar(repo)
    for cname in model.concrete_classes():
        entries, _ = model.init_facts(cname)
        if any(e.enum_is("self._max_n", "None") == "no" for e in entries):
            # an offline class constructed with max_n=None yields no stream at all
            entries = [e for e in entries if e.enum_is("self._max_n", "None") == "no"]
        rel_u, c_u, f_u = repo.resolve_method(cname, "uses_storage_type")
        chk.files.add(rel_u)
        chk.functions.add(f"{rel_u[:-3]}.{c_u.name}.uses_storage_type")
        base = f"{rel_u[:-3]}.{c_u.name}.uses_storage_type@{cname}"
        # split entries on storage-valued attributes with finite domains
        split = []
        for e in entries:
            doms = {s: sorted(v[1]) for s, v in e.enums.items() if s.startswith("self.") and v[0] == "in"
                    and 2 <= len(v[1]) <= 4 and all(x.startswith("StorageType.") for x in v[1])}
            cur = [(e, {})]
            for s, vals in doms.items():
                nxt = []
                for st, cfg in cur:
                    for v in vals:
                        s2 = st.copy()
                        s2.enum_meet(s, "in", [v])
                        if not s2.bottom:
                            nxt.append((s2, dict(cfg, **{s: v})))
                cur = nxt
            split += cur
        runs = model.runs(cname)
        for r in runs:
            register(chk, r)
        # ---- TOTAL
        for st, cfg in split:
            ctext = "{" + ", ".join(f"{k}={v}" for k, v in cfg.items()) + "}" if cfg else ""
            tag = ctext
            for m in MEMBERS:
                rel, c, f, res = evaluate(repo, cname, m, st)
                raised = [r for r in res if r[0] == "raise"]
                cons = f"{base}#total({m.split('.')[1]}){tag}"
                if raised:
                    chk.decide("C11.TOTAL", cons, False if len(res) == len(raised) else None,
                               f"uses_storage_type({m}) raises {sorted(x[1] for x in raised)} for {cname}{ctext}",
                               rel=rel, node=f)
                else:
                    chk.decide("C11.TOTAL", cons, True, f"returns {sorted(x[1] for x in res)}", rel=rel, node=f)
        # ---- COVER
        family = any(c.name == "RevolveCheckpointSchedule" for _, c in repo.mro(cname))
        for st, cfg in split:
            ctext = "{" + ", ".join(f"{k}={v}" for k, v in cfg.items()) + "}" if cfg else ""
            if st.enum_is("self._max_n", "None") == "yes" and not all(
                    e.enum_is("self._max_n", "None") == "yes" for e in entries):
                continue   # offline class constructed with max_n=None: no stream at all
            labels = {}
            if family:
                relc, cc, init = repo.resolve_method(cname, "__init__")
                entry_fn = None
                for n in ast.walk(init):
                    if isinstance(n, ast.Call) and isinstance(n.func, ast.Name) and n.func.id in g.liveness.entries:
                        entry_fn = n.func.id
                if entry_fn is None:
                    chk.decide("C11.COVER", base + "#entry", None, f"{cname}: sequence entry point not found", rel=relc, node=init)
                    continue
                for op in sorted(alphabet(g, entry_fn)):
                    sv = summary.get(op)
                    if sv is None:
                        chk.decide("C11.COVER", base + f"#op-{op}", None, f"operation {op} not in the _convert_action summary",
                                   rel="hrevolve.py", node=init)
                        continue
                    if not (op.startswith("Read") or op.startswith("Write")) or op.startswith("Write_Forward"):
                        continue
                    for t in sv & CKPT:
                        labels.setdefault(t, f"operation {op} of {entry_fn}")
            else:
                for r in runs:
                    if all(r.config.get(k, v) == v for k, v in cfg.items()):
                        # attributes not split by the run keep their value sets: restrict by cfg
                        for rec in r.interp.yields:
                            vals = []
                            if rec.kind == "Forward":
                                vals.append(rec.arg(4, "storage"))
                            elif rec.kind in ("Copy", "Move"):
                                vals += [rec.arg(1, "from_storage"), rec.arg(2, "to_storage")]
                            for v in vals:
                                s = pure_sym(v)
                                if s in cfg:
                                    sv = {cfg[s]}
                                else:
                                    sv = storage_values(rec.state, v)
                                if sv is None and isinstance(v, Val) and v.kind == "label":
                                    continue
                                for t in (sv or set()) & CKPT:
                                    labels.setdefault(t, f"{rec.yid} line {rec.node.lineno}")
            for t, why in sorted(labels.items()):
                st2 = st.copy()
                note = ""
                if family and t == "StorageType.DISK":
                    # the Revolve family emits DISK operations only if disk checkpoints are available
                    if st2.enum_is("self._snapshots_on_disk", "None") != "yes":
                        if st2.entails_eq(Lin.sym("self._snapshots_on_disk")) == "yes":
                            chk.note(f"{cname}: zero disk units declared; that no DISK operation is generated then is not decided (depends on table values)")
                            continue
                        st2.add_ineq(Lin.sym("self._snapshots_on_disk") - ONE)
                        note = " (assuming at least one disk unit: with zero units the DP tables keep the sequence disk-free, not decided here)"
                rel, c, f, res = evaluate(repo, cname, t, st2)
                cons = f"{base}#cover({t.split('.')[1]}){ctext}"
                vals = {r for r in res}
                if vals == {("value", "True")}:
                    chk.decide("C11.COVER", cons, True, f"{t} emitted by {why}; query returns True{note}", rel=rel, node=f)
                elif ("value", "?") in vals and len(vals) == 1:
                    chk.decide("C11.COVER", cons, None, f"{t} emitted by {why}; query value undetermined", rel=rel, node=f)
                else:
                    bad = sorted(f"{k}:{v}" for k, v in vals if (k, v) != ("value", "True"))
                    definite = ("value", "True") not in vals and ("value", "?") not in vals
                    chk.decide("C11.COVER", cons, False if definite else None,
                               f"{cname}{ctext} emits {t} ({why}) but uses_storage_type({t}) gives {bad}{note}",
                               rel=rel, node=f)
        # ---- Multistage-style label tables: counts reported are counts of the label tuple
        for r in runs:
            # label tables: per-instance tables whose entries flow into storage arguments of actions
            uses_labels = False
            for rec in r.interp.yields:
                for v in ([rec.arg(4)] if rec.kind == "Forward" else [rec.arg(1)] if rec.kind in ("Copy", "Move") else []):
                    if is_lin(v) and any(rec.state.entails_eq(v - Lin.sym(a)) == "yes" for a in r.interp.label_atoms):
                        uses_labels = True
            if not uses_labels:
                continue
            links = count_links(repo, cname)
            for t in sorted(CKPT):
                cons = f"{base}#cover({t.split('.')[1]})[label-table]"
                if t not in links:
                    chk.decide("C11.COVER", cons, None,
                               f"labels are read from self._storage but no attribute is defined as its count of {t}",
                               rel=r.rel, node=r.fn)
                    continue
                for st, cfg in split:
                    if st.enum_is("self._max_n", "None") == "yes":
                        continue
                    for cell in ("==1", ">=2"):
                        st2 = st.copy()
                        a = Lin.sym("self." + links[t])
                        if cell == "==1":
                            st2.add_eq(a - ONE)
                        else:
                            st2.add_ineq(a - Lin.const(2))
                        rel, c, f, res = evaluate(repo, cname, t, st2)
                        ok = res == {("value", "True")}
                        definite = ("value", "True") not in res and ("value", "?") not in res
                        chk.decide("C11.COVER", cons + f"@count{cell}", True if ok else (False if definite else None),
                                   f"self.{links[t]} = count of {t} in the label tuple; with count {cell} the query gives {sorted(res)}",
                                   rel=rel, node=f)
            break
