"""C07 - H-Revolve family schedules achieve their cost optimum for any cost vector.

  ROLE   role-substitution invariance of every live cost expression: the polynomial
         obtained with the roles the variable names state equals the one obtained with
         the roles that actually flow in from the constructors' (uf, ub, wd, rd)
  TABLE  every split decision of the sequence builders evaluates the candidate
         expression that its dynamic-programming table minimises (same terms, same
         index shifts, same range), against the same fallback, with a comparison that
         is consistent with the table's min
  USE    the makespan/cost() bookkeeping of Sequence is never read by the schedule code
         (otherwise Operation.cost would be a further sink)
A necessary condition: a table or decision evaluated with exchanged roles optimises a
different cost function.  That the recurrences are *the* optimum is not decided.
"""
import ast
import os

from ..poly import PolyBuilder, patom, pkey, pstr
from ..role import RoleFlow
from ..constprop import SEQ
from .common import *

PAIRS = [("get_opt_0_table", "revolve"), ("get_opt_inf_table", "disk_revolve"),
         ("get_hopt_table", "hrevolve_aux"), ("get_hopt_table", "hrevolve_recurse")]
TABLE_NAMES = {"opt_0": "opt0", "opt": "opt", "hopt": "opt", "hoptp": "optp", "optp": "optp",
               "opt_inf": "optinf", "opt_1d": "opt1d"}
INDEX_NAMES = {"cm": "m", "cmem": "m", "K": "k", "mmax": "m"}


def builder(table_fn, extra=None):
    """PolyBuilder that canonicalises table subscripts and parameter-dict reads"""
    tmap = dict(TABLE_NAMES)
    if table_fn == "get_opt_0_table":
        tmap["opt"] = "opt0"

    def atom(node, pb):
        if isinstance(node, ast.Subscript):
            idxs, cur = [], node
            while isinstance(cur, ast.Subscript):
                idxs.append(cur.slice)
                cur = cur.value
            if isinstance(cur, ast.Name):
                if cur.id in ("parameters", "params") and len(idxs) == 1 and isinstance(idxs[0], ast.Constant):
                    return patom(str(idxs[0].value))
                if cur.id in tmap or cur.id in ("wvect", "rvect", "cvect"):
                    name = tmap.get(cur.id, cur.id)
                    parts = []
                    for ix in reversed(idxs):
                        if isinstance(ix, ast.Subscript):
                            parts.append(pstr(atom(ix, pb)))
                        else:
                            parts.append(pstr(pb.poly(ix)))
                    return patom(name + "".join(f"[{p}]" for p in parts))
        return None
    return PolyBuilder(atom, dict(INDEX_NAMES, **(extra or {})))


def with_var(pb, var):
    """the same builder with the comprehension variable named canonically"""
    return PolyBuilder(pb.atom_fn, dict(pb.rename, **{var: "$j"}))


def comp_of(node):
    """ListComp `[elem for j in range(a, b)]` -> (elem, var, (a, b)) or None"""
    if isinstance(node, ast.ListComp) and len(node.generators) == 1:
        g = node.generators[0]
        if isinstance(g.iter, ast.Call) and getattr(g.iter.func, "id", None) == "range" and isinstance(g.target, ast.Name) \
                and len(g.iter.args) == 2 and not g.ifs:
            return node.elt, g.target.id, tuple(g.iter.args)
    return None


def table_sites(fn, pb):
    """min-expressions of a table builder: list of dict(elem, range, fallback, node)"""
    assigned = {}
    for s in ast.walk(fn):
        if isinstance(s, ast.Assign) and len(s.targets) == 1 and isinstance(s.targets[0], ast.Name):
            assigned.setdefault(s.targets[0].id, []).append(s.value)
    out = []
    blocks = [getattr(n, fld) for n in ast.walk(fn) for fld in ("body", "orelse", "finalbody")
              if isinstance(getattr(n, fld, None), list)]

    def last_defs(body, name):
        """(definitions of name that may be the last one executed in this statement list, whether one certainly is)"""
        for st in reversed(body):
            if isinstance(st, ast.Assign) and len(st.targets) == 1 and isinstance(st.targets[0], ast.Name) \
                    and st.targets[0].id == name:
                return [st.value], True
            if isinstance(st, ast.If):
                d1, c1 = last_defs(st.body, name)
                d2, c2 = last_defs(st.orelse, name)
                if d1 or d2:
                    if c1 and c2:
                        return d1 + d2, True
                    more, c3 = last_defs(body[:body.index(st)], name)
                    return d1 + d2 + more, c3
            elif isinstance(st, (ast.For, ast.While, ast.With, ast.Try)):
                if any(isinstance(x, ast.Name) and x.id == name and isinstance(x.ctx, ast.Store) for x in ast.walk(st)):
                    return list(assigned.get(name, [])), False
        return [], False

    def reaching(use, name):
        for body in blocks:
            for i, st in enumerate(body):
                if isinstance(st, (ast.Assign, ast.Expr, ast.AugAssign, ast.Return)) and any(x is use for x in ast.walk(st)):
                    defs, certain = last_defs(body[:i], name)
                    if defs and certain:
                        return defs
                    # defined further out: every definition of the function may reach
                    return list(assigned.get(name, []))
        return list(assigned.get(name, []))

    def min_arg(call):
        if not (isinstance(call, ast.Call) and getattr(call.func, "id", None) == "min"):
            return None
        if len(call.args) == 1:
            a = call.args[0]
            c = comp_of(a)
            if c:
                return dict(comp=c, fallback=None)
            if isinstance(a, ast.BinOp) and isinstance(a.op, ast.Add):
                for x, y in ((a.left, a.right), (a.right, a.left)):
                    c = comp_of(x)
                    if c and isinstance(y, ast.List) and len(y.elts) == 1:
                        return dict(comp=c, fallback=y.elts[0])
        if len(call.args) == 2:
            for x, y in ((call.args[0], call.args[1]), (call.args[1], call.args[0])):
                if isinstance(y, ast.Name) and y.id in assigned:
                    # the definition that reaches this use: the last assignment before it in the same block (a
                    # definition in a sibling branch does not reach it); a unique definition otherwise
                    defs = reaching(call, y.id)
                    for v in defs:
                        inner = min_arg(v)
                        if inner and inner["fallback"] is None:
                            return dict(comp=inner["comp"], fallback=x, via=v)
        return None
    for n in ast.walk(fn):
        if isinstance(n, ast.Call) and getattr(n.func, "id", None) == "min":
            r = min_arg(n)
            if r:
                elem, var, rng = r["comp"]
                out.append(dict(elem=pkey(with_var(pb, var).poly(elem)), var="$j", rng=tuple(pkey(pb.poly(a)) for a in rng),
                                fallback=None if r["fallback"] is None else pkey(pb.poly(r["fallback"])),
                                node=n, text=" ".join(ast.unparse(elem).split())))
    return out


def path_constants(fn, node):
    """names that certainly hold an integer constant where `node` is evaluated: the node lies in the true branch
    of `if name == c` (and the name is not assigned in that branch before it)"""
    out = {}

    def visit(stmts, env):
        for s in stmts:
            if any(x is node for x in ast.walk(s)):
                if isinstance(s, ast.If):
                    t = s.test
                    e2 = dict(env)
                    if isinstance(t, ast.Compare) and len(t.ops) == 1 and isinstance(t.ops[0], ast.Eq):
                        a, b = t.left, t.comparators[0]
                        if isinstance(b, ast.Name) and isinstance(a, ast.Constant):
                            a, b = b, a
                        if isinstance(a, ast.Name) and isinstance(b, ast.Constant) and isinstance(b.value, int) \
                                and not isinstance(b.value, bool):
                            e2[a.id] = b.value
                    in_test = any(x is node for x in ast.walk(s.test))
                    if in_test:
                        out.update(env)
                    elif any(x is node for b_ in s.body for x in ast.walk(b_)):
                        stored = {x.id for b_ in s.body for x in ast.walk(b_) if isinstance(x, ast.Name) and isinstance(x.ctx, ast.Store)}
                        visit(s.body, {k: v for k, v in e2.items() if k not in stored})
                    else:
                        visit(s.orelse, env)
                elif isinstance(s, (ast.For, ast.While, ast.With, ast.Try)):
                    stored = {x.id for x in ast.walk(s) if isinstance(x, ast.Name) and isinstance(x.ctx, ast.Store)}
                    e3 = {k: v for k, v in env.items() if k not in stored}
                    for fld in ("body", "orelse", "finalbody"):
                        visit(getattr(s, fld, []) or [], e3)
                else:
                    out.update(env)
                return
    visit(fn.body, {})
    return out


def at_site(pb, fn, node):
    """the builder with the constants the path to `node` establishes"""
    pc = path_constants(fn, node)
    return PolyBuilder(pb.atom_fn, dict(pb.rename, **pc)) if pc else pb


def has_raw(pk):
    """does a polynomial (pkey form or dict) contain a leaf that the builder did not understand - the unparsed text of a call,
    a conditional expression, a subscript of something that is no table?  A difference that involves such a leaf is not a
    definite difference"""
    items = pk.items() if isinstance(pk, dict) else pk
    for mono, _ in items:
        for a in mono:
            if isinstance(a, str):
                known = a.replace("$", "").replace("_", "").isalnum() or \
                    a.startswith(tuple(v + "[" for v in set(TABLE_NAMES.values()) | {"rvect", "wvect", "cvect"}))
                if not known or " if " in a:
                    return True
    return False


NEG = {"Lt": "GtE", "LtE": "Gt", "Gt": "LtE", "GtE": "Lt", "Eq": "NotEq", "NotEq": "Eq"}


def effective_op(fn, ifnode, op, listname=None):
    """the comparison under which the *split* is performed: the test's operator if the branch that calls argmin is the
    body of the `if`, its negation if the split is in the else branch or in what follows an `if` whose body leaves the
    function (guard clause); '?' if the split cannot be located"""
    name = type(op).__name__

    def has_argmin(stmts):
        return any(isinstance(x, ast.Call) and getattr(x.func, "id", None) == "argmin" for s_ in stmts for x in ast.walk(s_))
    if has_argmin(ifnode.body) and not has_argmin(ifnode.orelse):
        return name
    if has_argmin(ifnode.orelse) and not has_argmin(ifnode.body):
        return NEG.get(name, "?")
    if not has_argmin(ifnode.body) and not has_argmin(ifnode.orelse):
        # guard clause: the body returns/raises, the split follows the `if`
        leaves = bool(ifnode.body) and isinstance(ifnode.body[-1], (ast.Return, ast.Raise))
        if leaves and not ifnode.orelse:
            return NEG.get(name, "?")
        # the selection was made before the test (jmin = argmin(list_mem); if min(list_mem) < fallback: ...): the
        # branch that uses the selected index is the split
        return name if not leaves else "?"
    return "?"


def decision_sites(fn, pb0, live):
    """list_mem = [elem for j in range(..)] ... if min(list_mem) < fallback / jmin = argmin(list_mem)"""
    out = []
    comps = {}
    pb = pb0
    for s in ast.walk(fn):
        if id(s) in live.dead_nodes:
            continue
        if isinstance(s, ast.Assign) and len(s.targets) == 1 and isinstance(s.targets[0], ast.Name):
            c = comp_of(s.value)
            if c:
                comps.setdefault(s.targets[0].id, []).append((s, c))
    for name, lst in comps.items():
        for s, (elem, var, rng) in lst:
            # the use that follows this definition in source order (before the next definition)
            nxt = min([x[0].lineno for x in lst if x[0].lineno > s.lineno], default=10 ** 9)
            use = None
            for n in ast.walk(fn):
                if id(n) in live.dead_nodes or not hasattr(n, "lineno") or not (s.lineno < n.lineno < nxt):
                    continue
                if isinstance(n, ast.If) and isinstance(n.test, ast.Compare) and len(n.test.ops) == 1:
                    l = n.test.left
                    if isinstance(l, ast.Call) and getattr(l.func, "id", None) == "min" and l.args and \
                            isinstance(l.args[0], ast.Name) and l.args[0].id == name:
                        if use is None or n.lineno < use[0].lineno:
                            use = (n, n.test.ops[0], n.test.comparators[0])
            argvar = None
            pb = at_site(pb0, fn, use[0] if use is not None else s)
            for n in ast.walk(fn):
                if isinstance(n, ast.Assign) and len(n.targets) == 1 and isinstance(n.targets[0], ast.Name) \
                        and isinstance(n.value, ast.Call) and getattr(n.value.func, "id", None) == "argmin" and n.value.args \
                        and isinstance(n.value.args[0], ast.Name) and n.value.args[0].id == name and s.lineno < n.lineno < nxt:
                    argvar = n.targets[0].id
            out.append(dict(elem=pkey(with_var(pb, var).poly(elem)), var="$j", rng=tuple(pkey(pb.poly(a)) for a in rng),
                            fallback=None if use is None else pkey(pb.poly(use[2])),
                            op=None if use is None else effective_op(fn, use[0], use[1]), node=s, argvar=argvar,
                            text=" ".join(ast.unparse(elem).split())))
    # the candidate list written in place:  if min([...]) < fallback: jmin = argmin([...])  /  split = argmin([...])
    tests = {}
    for n in ast.walk(fn):
        if isinstance(n, ast.If) and isinstance(n.test, ast.Compare) and len(n.test.ops) == 1 and id(n) not in live.dead_nodes:
            tests[id(n.test.left)] = n
    inplace = []
    for n in ast.walk(fn):
        if id(n) in live.dead_nodes:
            continue
        if isinstance(n, ast.Call) and getattr(n.func, "id", None) in ("argmin", "min") and len(n.args) == 1 and comp_of(n.args[0]):
            elem, var, rng = comp_of(n.args[0])
            use = tests.get(id(n)) if n.func.id == "min" else None
            pb = at_site(pb0, fn, n)
            argvar = None
            if n.func.id == "argmin":
                for a in ast.walk(fn):
                    if isinstance(a, ast.Assign) and a.value is n and len(a.targets) == 1 and isinstance(a.targets[0], ast.Name):
                        argvar = a.targets[0].id
            inplace.append(dict(argvar=argvar, elem=pkey(with_var(pb, var).poly(elem)), var="$j", rng=tuple(pkey(pb.poly(a)) for a in rng),
                                fallback=None if use is None else pkey(pb.poly(use.test.comparators[0])),
                                op=None if use is None else effective_op(fn, use, use.test.ops[0]), node=n, kind=n.func.id, use=use,
                                text=" ".join(ast.unparse(elem).split())))
    for d in inplace:
        if d["kind"] == "argmin":
            # the selection inside a decision `if min(<the same candidates>) < fallback:` belongs to that decision
            owner = [m for m in inplace if m["kind"] == "min" and m["use"] is not None and m["elem"] == d["elem"] and m["rng"] == d["rng"]
                     and any(x is d["node"] for b_ in m["use"].body for x in ast.walk(b_))]
            if owner:
                owner[0]["argvar"] = d["argvar"]
                continue
        if d["kind"] == "min" and d["use"] is None:
            continue        # a bare minimum (a table entry, a cost): not a decision
        out.append({k: v for k, v in d.items() if k not in ("kind", "use")})
    # direct comparisons  `if A + tbl[..] < tbl[..]`  (hrevolve_recurse); also through a boolean local
    # (`flag = True / flag = A < B` ... `if flag:`): the comparison is the decision
    flagdefs = {}
    for n in ast.walk(fn):
        if isinstance(n, ast.Assign) and len(n.targets) == 1 and isinstance(n.targets[0], ast.Name) and id(n) not in live.dead_nodes:
            flagdefs.setdefault(n.targets[0].id, []).append(n)
    synthetic = []
    for n in ast.walk(fn):
        if isinstance(n, ast.If) and isinstance(n.test, ast.Name) and n.test.id in flagdefs and id(n) not in live.dead_nodes:
            cmps = [a for a in flagdefs[n.test.id] if isinstance(a.value, ast.Compare)]
            others = [a for a in flagdefs[n.test.id] if not isinstance(a.value, ast.Compare)]
            if len(cmps) == 1 and all(isinstance(a.value, ast.Constant) for a in others):
                fake = ast.If(cmps[0].value, n.body, n.orelse)
                ast.copy_location(fake, cmps[0])
                fake._site = cmps[0].value
                synthetic.append(fake)
    for n in list(ast.walk(fn)) + synthetic:
        if id(n) in live.dead_nodes:
            continue
        if isinstance(n, ast.If) and isinstance(n.test, ast.Compare) and len(n.test.ops) == 1 and \
                isinstance(n.test.left, (ast.BinOp, ast.Subscript)) and any(isinstance(x, ast.Subscript) for x in ast.walk(n.test.left)) \
                and isinstance(n.test.comparators[0], (ast.Subscript, ast.BinOp)) \
                and any(isinstance(x, ast.Subscript) for x in ast.walk(n.test.comparators[0])) \
                and not any(isinstance(x, ast.Call) for x in ast.walk(n.test)):
            names = {x.id for x in ast.walk(n.test) if isinstance(x, ast.Name)}
            if names & set(TABLE_NAMES):
                pb = at_site(pb0, fn, getattr(n, "_site", n.test))
                out.append(dict(direct=True, left=pkey(pb.poly(n.test.left)), right=pkey(pb.poly(n.test.comparators[0])),
                                op=type(n.test.ops[0]).__name__, node=n, text=" ".join(ast.unparse(n.test).split())))
    return out


def direct_table(fn, pb, targets=None):
    """table entries of the form  tbl[...] = min(A, B)  -> list of frozenset({A, B}); `targets` (a list) receives
    (entry, {A, B}) for the stores whose right-hand side is such a min"""
    out = []
    for n in ast.walk(fn):
        if isinstance(n, ast.Call) and getattr(n.func, "id", None) == "min" and len(n.args) == 2 and \
                all(not isinstance(a, (ast.ListComp, ast.List)) for a in n.args):
            out.append(frozenset(pkey(pb.poly(a)) for a in n.args))
    if targets is not None:
        for n in ast.walk(fn):
            if isinstance(n, ast.Assign) and len(n.targets) == 1 and isinstance(n.targets[0], ast.Subscript) \
                    and isinstance(n.value, ast.Call) and getattr(n.value.func, "id", None) == "min" and len(n.value.args) == 2 \
                    and all(not isinstance(a, (ast.ListComp, ast.List)) for a in n.value.args):
                tgt = ast.Subscript(n.targets[0].value, n.targets[0].slice, ast.Load())
                ast.fix_missing_locations(ast.copy_location(tgt, n.targets[0]))
                targets.append((pkey(pb.poly(tgt)), frozenset(pkey(pb.poly(a)) for a in n.value.args)))
    return out


COSTS = ("uf", "ub", "wd", "rd")


def memory_level_rule(chk, repo):
    """cost model of the property: wd per checkpoint written to DISK, rd per load from DISK, nothing for RAM.  The
    hierarchical builder takes one write and one read cost per level; every call of `hrevolve` from hrevolve.py must pass
    vectors whose level-0 (memory) entry is the constant 0."""
    rel = "hrevolve.py"
    try:
        _, callee = next((r, f) for r, q, f in repo.all_functions() if q == "hrevolve" and r.endswith("hrevolve_sequences/hrevolve.py"))
    except StopIteration:
        return
    params = [a.arg for a in callee.args.args]
    k = 0
    for relq, q, f in repo.all_functions():
        if relq != rel:
            continue
        defs = {}
        for x in ast.walk(f):
            if isinstance(x, ast.Assign) and len(x.targets) == 1 and isinstance(x.targets[0], ast.Name):
                defs.setdefault(x.targets[0].id, []).append(x.value)
        for c in ast.walk(f):
            if not (isinstance(c, ast.Call) and isinstance(c.func, ast.Name) and c.func.id == "hrevolve"):
                continue
            bound = dict(zip(params, c.args))
            bound.update({kw.arg: kw.value for kw in c.keywords if kw.arg})
            for pname in ("wvect", "rvect"):
                v = bound.get(pname)
                cons = f"hrevolve.{q}#memory-level[{k}]/{pname}"
                if v is None:
                    continue
                if isinstance(v, ast.Name) and len(defs.get(v.id, [])) == 1:
                    v = defs[v.id][0]
                if isinstance(v, (ast.List, ast.Tuple)) and v.elts:
                    e0 = v.elts[0]
                    if isinstance(e0, ast.Constant) and isinstance(e0.value, (int, float)) and not isinstance(e0.value, bool):
                        chk.decide("C07.ROLE", cons, True if e0.value == 0 else False,
                                   f"`{pname}` = `{ast.unparse(v)}`: level 0 (memory) costs {e0.value}" +
                                   ("" if e0.value == 0 else "; the optimum is then taken for a cost model in which RAM transfers are "
                                    "not free, not for the one the property states"), rel=rel, node=c, nontrivial=False)
                        continue
                chk.decide("C07.ROLE", cons, None, f"`{pname}` = `{ast.unparse(v)[:60]}`: level-0 entry not a literal", rel=rel, node=c,
                           nontrivial=False)
            k += 1


def zero_default_rule(chk, repo):
    """cost plumbing of the Revolve-family constructors: a step cost may be 0 (free disk reads or writes), so a cost must
    not pass through `cost or default` / a truthiness test - `0 or d` is d: another cost vector than the one given is
    optimised.  Costs are the parameters named uf/ub/wd/rd of the functions of hrevolve.py, and whatever is built from
    them (dict/list displays, their items)."""
    rel = "hrevolve.py"
    k = 0
    for relq, q, f in repo.all_functions():
        if relq != rel:
            continue
        params = {a.arg for a in f.args.args + f.args.kwonlyargs}
        tainted = set(params & set(COSTS))
        if not tainted:
            continue
        changed = True

        def is_t(e):
            return any(isinstance(x, ast.Name) and x.id in tainted for x in ast.walk(e))
        while changed:
            changed = False
            for n in ast.walk(f):
                if isinstance(n, ast.Assign) and is_t(n.value):
                    for t in n.targets:
                        for x in ast.walk(t):
                            if isinstance(x, ast.Name) and isinstance(x.ctx, ast.Store) and x.id not in tainted:
                                tainted.add(x.id)
                                changed = True
        for n in ast.walk(f):
            bad = None
            if isinstance(n, ast.BoolOp) and isinstance(n.op, ast.Or) and is_t(n.values[0]) \
                    and not isinstance(n.values[0], (ast.Compare, ast.BoolOp, ast.UnaryOp)):
                bad = n
            elif isinstance(n, ast.IfExp) and is_t(n.test) and isinstance(n.test, (ast.Name, ast.Subscript, ast.Attribute)):
                bad = n
            if bad is not None:
                chk.decide("C07.ROLE", f"{rel[:-3]}.{q}#zero-cost[{k}]", False,
                           f"`{' '.join(ast.unparse(bad).split())[:80]}` tests a step cost for truth: a cost of 0 is replaced, "
                           "the schedule is optimised for other costs than the ones given", rel=rel, node=bad)
                k += 1


def run(chk, ctx):
    chk.describe("C07.ROLE", "every live cost expression is invariant under substituting the roles that actually flow in")
    chk.describe("C07.TABLE", "each split decision evaluates the candidate expression its table minimises, against the same fallback")
    chk.describe("C07.USE", "Sequence.makespan / Operation.cost() are not read by schedule code")
    repo = ctx.repo
    rf = RoleFlow(repo).run()
    for fname in sorted(rf.analysed):
        rel, _ = rf.funcs[fname]
        chk.files.add(rel)
        chk.functions.add(f"{rel[:-3]}.{fname}")
    for key, s in sorted(rf.sinks.items(), key=lambda kv: (kv[1].rel, kv[1].fname, kv[1].ordinal)):
        v = s.verdict()
        txt = " ".join(ast.unparse(s.node).split())[:80]
        if v is False:
            e = next(x for x in s.evals if x[0] is False)
            detail = f"`{txt}` means {e[1]} by its variable names but computes {e[2]} with the roles passed in ({e[3]})"
        elif v is True:
            detail = f"`{txt}`: {s.evals[0][1]} under {len(s.evals)} calling context(s)"
        else:
            detail = f"`{txt}`: role of an operand unknown"
        chk.decide("C07.ROLE", s.construct, v, detail, rel=s.rel, node=s.node)
    zero_default_rule(chk, repo)
    memory_level_rule(chk, repo)
    chk.extra["role_sinks"] = len(rf.sinks)
    chk.extra["role_contexts"] = len(rf.seen)
    # ---- TABLE
    live = rf.live
    funcs = live.funcs
    for tname, dname in PAIRS:
        if tname not in funcs or dname not in funcs:
            chk.decide("C07.TABLE", f"{tname}<->{dname}", None, "function not found", rel="hrevolve_sequences/hrevolve.py")
            continue
        trel, tfn = funcs[tname]
        drel, dfn = funcs[dname]
        chk.files.add(trel)
        chk.files.add(drel)
        def evaluate(extra):
            res = []
            pbT = builder(tname, extra)
            pb = builder(tname)
            tsites = table_sites(tfn, pbT)
            ttargets = []
            tdirect = direct_table(tfn, pbT, ttargets)
            k = 0
            for d in decision_sites(dfn, pb, live):
                cons = f"{drel[:-3].replace('/', '.')}.{dname}#decision[{k}]<->{tname}"
                k += 1
                if d.get("direct"):
                    want = frozenset([d["left"], d["right"]])
                    ok = want in tdirect
                    if not ok:
                        # `E < B` where the table defines E = min(B, A): the same decision as `A < B`
                        for entry, args_ in ttargets:
                            if d["left"] == entry and d["right"] in args_:
                                ok = True
                    opok = d["op"] in ("Lt", "LtE")
                    res.append((cons, True if (ok and opok) else (False if tdirect else None),
                               f"`{d['text']}`: " + ("the table stores min of exactly these two terms" if ok else
                               f"no table entry is the min of these two terms (table has {len(tdirect)} such entries)")
                               + ("" if opok else f"; comparison {d['op']} is not consistent with taking the smaller term"),
                               d["node"]))
                    continue
                match = [t for t in tsites if t["elem"] == d["elem"] and t["var"] == d["var"]]
                if not match:
                    # same loop variable renaming tolerated: compare after renaming the comprehension variable
                    match = [t for t in tsites if t["elem"] == d["elem"]]
                if not match:
                    res.append((cons, False if (tsites and not has_raw(d["elem"])) else None,
                               f"candidate `{d['text']}` is not an expression minimised by {tname} "
                               f"(its candidates: {[t['text'] for t in tsites]})", d["node"]))
                    continue
                best = None
                for t in match:
                    problems = []
                    if t["rng"] != d["rng"]:
                        problems.append("candidate range differs from the table's")
                    if (t["fallback"] is None) != (d["fallback"] is None):
                        if d["fallback"] is not None and t["fallback"] is None:
                            problems.append("decision has a fallback the table entry does not take into account")
                        elif d["fallback"] is None:
                            problems.append("table takes a fallback into account that the decision ignores")
                    elif t["fallback"] is not None and t["fallback"] != d["fallback"]:
                        problems.append(f"fallback term differs: table {pstr(dict(t['fallback']))} vs decision {pstr(dict(d['fallback']))}")
                    if d["fallback"] is not None and d["op"] == "?":
                        problems.append("?cannot locate the branch that performs the split")
                    elif d["fallback"] is not None and d["op"] not in ("Lt", "LtE"):
                        problems.append(f"comparison {d['op']} picks the split when it is not better")
                    if best is None or len(problems) < len(best):
                        best = problems
                problems = best
                if problems and all(p_.startswith("?") for p_ in problems):
                    res.append((cons, None, f"candidate `{d['text']}`: " + "; ".join(p_[1:] for p_ in problems), d["node"]))
                    continue
                res.append((cons, False if problems else True,
                           f"candidate `{d['text']}` over range {'range(' + ', '.join(pstr(dict(a)) for a in d['rng']) + ')'}: "
                           + ("; ".join(problems) if problems else "same candidate, range and fallback as the table"),
                           d["node"]))
            if k == 0:
                res.append((f"{dname}<->{tname}", None, "no decision site found", dfn))
            return res

        # the table builder's own loop variables may have any names: besides the customary ones, every assignment of
        # them to the index roles (steps l, level k, slots m) is tried; the rule holds if one assignment makes every
        # decision agree with the table
        import itertools
        def has_min(n):
            return any(isinstance(x, ast.Call) and getattr(x.func, "id", None) == "min" for x in ast.walk(n))
        tvars = sorted({n.target.id for n in ast.walk(tfn) if isinstance(n, ast.For) and isinstance(n.target, ast.Name) and has_min(n)}
                       | {x.id for n in ast.walk(tfn) if isinstance(n, ast.For) and isinstance(n.target, ast.Tuple) and has_min(n)
                          for x in n.target.elts if isinstance(x, ast.Name)})
        comp_vars = {g_.target.id for n in ast.walk(tfn) if isinstance(n, ast.ListComp) for g_ in n.generators
                     if isinstance(g_.target, ast.Name)}
        tvars = [v for v in tvars if v not in comp_vars]
        results = evaluate(None)
        customary = set(tvars) <= {"l", "k", "m", "K", "cm", "cmem", "mmax", "j", "i", "_"}
        if any(r[1] is not True for r in results):
            roles_ = ["l", "k", "m"]
            found = None
            if len(tvars) > 5:
                tvars = []
            for sub in itertools.permutations(tvars, min(len(tvars), 3)):
                for tgt in itertools.permutations(roles_, len(sub)):
                    ren = dict(zip(sub, tgt))
                    if all(a == b for a, b in ren.items()):
                        continue
                    cand = evaluate(ren)
                    if cand and all(r[1] is True for r in cand):
                        found = (ren, cand)
                        break
                if found:
                    break
            if found:
                results = [(c, v, dt + f" [table loop variables read as {found[0]}]", nd) for c, v, dt, nd in found[1]]
            elif not customary:
                results = [(c, None if v is False else v,
                            dt + " [not definite: the table builder's loop variables have names the rule cannot assign to index roles]", nd)
                           for c, v, dt, nd in results]
        for c, v, dt, nd in results:
            if os.environ.get("DEBUG_C07"):
                print("DBG", c, v, dt[:300])
            chk.decide("C07.TABLE", c, v, dt, rel=drel, node=nd)
    # ---- USE
    reads = []
    for rel, q, f in repo.all_functions():
        for n in ast.walk(f):
            if isinstance(n, ast.Attribute) and n.attr == "makespan" and isinstance(n.ctx, ast.Load):
                if not q.startswith("Sequence."):
                    reads.append((rel, q, n))
            if isinstance(n, ast.Call) and isinstance(n.func, ast.Attribute) and n.func.attr == "cost" \
                    and not q.startswith("Sequence."):
                reads.append((rel, q, n))
    chk.decide("C07.USE", "hrevolve_sequences.basic_functions.Sequence.makespan", True if not reads else None,
               "makespan/cost() only maintained inside Sequence" if not reads else
               f"read outside Sequence: {[(r, q) for r, q, _ in reads]}", rel=SEQ + "basic_functions.py", nontrivial=False)
    homo(chk, ctx, rf)
    base_rules(chk, ctx)
    fill_ranges(chk, ctx)
    zero_column_rule(chk, ctx)
    skip_rule(chk, ctx)
    chk.note("not decided: that the recurrences are the optimum of the hierarchical problem, and the monotonicity "
             "statements between classes (consequences of the min over options, but they need induction over table values)")


# ---------------------------------------------------------------------------
# HOMO: the candidate expression of a split decision is the symbolic cost of the
# operations and sub-sequences the production emits

CALL_TABLE = {          # builder -> (table, index order) : what its result's cost is called in the tables
    "revolve": ("opt0", ("cm", "l")),                 # opt_0[cm][l]
    "disk_revolve": ("optinf", ("l",)),               # opt_inf[l]
    "hrevolve_recurse": ("opt", ("K", "l", "cmem")),  # hopt[K][l][cmem]
    "hrevolve_aux": ("optp", ("K", "l", "cmem")),     # hoptp[K][l][cmem]
}


def op_costs(repo):
    """Operation.cost -> {type: descriptor}; descriptor in
    ('zero',) ('key', k) ('veckey', k) ('span', k)"""
    rel = SEQ + "basic_functions.py"
    f = repo.method(rel, "Operation", "cost")
    out = {}
    for s in f.body:
        if not (isinstance(s, ast.If) and isinstance(s.test, ast.Compare) and len(s.body) == 1
                and isinstance(s.body[0], ast.Return)):
            continue
        t = s.test
        if not (isinstance(t.comparators[0], ast.Constant) and isinstance(t.comparators[0].value, str)):
            continue
        name, v = t.comparators[0].value, s.body[0].value
        if isinstance(v, ast.Constant) and v.value == 0:
            out[name] = ("zero",)
        elif isinstance(v, ast.Subscript) and isinstance(v.value, ast.Attribute) and v.value.attr == "params" \
                and isinstance(v.slice, ast.Constant):
            out[name] = ("key", v.slice.value)
        elif isinstance(v, ast.Subscript) and isinstance(v.value, ast.Subscript) and isinstance(v.value.value, ast.Attribute) \
                and v.value.value.attr == "params" and isinstance(v.value.slice, ast.Constant):
            out[name] = ("veckey", v.value.slice.value)
        elif isinstance(v, ast.BinOp) and isinstance(v.op, ast.Mult):
            keys = [x.slice.value for x in ast.walk(v) if isinstance(x, ast.Subscript) and isinstance(x.value, ast.Attribute)
                    and x.value.attr == "params" and isinstance(x.slice, ast.Constant)]
            if len(keys) == 1:
                out[name] = ("span", keys[0])
    return out


def homo(chk, ctx, rf):
    from ..gram import Grammar, production_paths
    from ..poly import padd, pmul, pconst
    chk.describe("C07.HOMO", "the candidate cost of each split decision equals the symbolic cost of what the production emits")
    repo = ctx.repo
    g = Grammar(repo)
    costs = op_costs(repo)
    live = g.liveness
    # in the hierarchical builders the dict holds vectors: wd -> wvect, rd -> rvect
    for dname in ("revolve", "disk_revolve", "hrevolve_aux"):
        if dname not in g.builders:
            continue
        drel, dfn = live.funcs[dname]
        tname = dict((d, t) for t, d in PAIRS)[dname]
        pb = builder(tname)
        hier = dname.startswith("hrevolve")
        decs = [d for d in decision_sites(dfn, pb, live) if not d.get("direct")]
        # the variable receiving argmin(list_mem)
        for conds, items in production_paths(g, dname):
            calls = [x for x in items if not isinstance(x, tuple) and x.kind == "call"]
            if len(items) == 1 and len(calls) == 1:
                # the production taken when no split is better: one inserted sequence, whose cost (its table entry) must
                # be the fallback term the decision compared the candidates with
                it = items[0]
                cand = [d for d in decs if d["node"].lineno < it.node.lineno and d.get("fallback") is not None]
                tab = CALL_TABLE.get(it.callee)
                pc_it = path_constants(dfn, it.node)
                # a production path that contradicts the constants of its own position (`K == 0` false inside `if K == 0:`,
                # an artefact of duplicating a merged statement per case) is infeasible
                infeasible = False
                for tnode, tag in conds:
                    t = tnode.test if isinstance(tnode, ast.If) else tnode
                    if isinstance(t, ast.Compare) and len(t.ops) == 1 and isinstance(t.ops[0], (ast.Eq, ast.NotEq)) \
                            and isinstance(t.left, ast.Name) and isinstance(t.comparators[0], ast.Constant) and t.left.id in pc_it:
                        holds = (pc_it[t.left.id] == t.comparators[0].value) == isinstance(t.ops[0], ast.Eq)
                        if holds != bool(tag):
                            infeasible = True
                if infeasible:
                    continue
                cand = [x for x in cand if path_constants(dfn, x["node"]) == pc_it] or cand
                if cand and tab is not None and it.shift is None:
                    d = max(cand, key=lambda x: x["node"].lineno)
                    pbj = builder(tname)
                    ren = dict(INDEX_NAMES)
                    ren.update(path_constants(dfn, d["node"]))
                    pbj.rename = ren
                    params = [a.arg for a in live.funcs[it.callee][1].args.args]
                    bound = {p: a for p, a in zip(params, it.call.args)}
                    bound.update({k.arg: k.value for k in it.call.keywords if k.arg})
                    cons = f"{drel[:-3].replace('/', '.')}.{dname}#fallback-production[{decs.index(d)}]"
                    try:
                        idx = [pstr(pbj.poly(bound[p])) for p in tab[1]]
                    except KeyError:
                        chk.decide("C07.HOMO", cons, None, f"cannot bind {tab[1]} for {it.callee}", rel=drel, node=it.node)
                        continue
                    total = patom(tab[0] + "".join(f"[{i}]" for i in idx))
                    same = pkey(total) == d["fallback"]
                    if not same and len(cand) > 1:
                        # several decisions (variants of one merged test) precede the production: it is right if it
                        # matches one of them, undecided otherwise
                        if any(pkey(total) == x["fallback"] for x in cand):
                            same = True
                        else:
                            chk.decide("C07.HOMO", cons, None, f"{it!r} costs {pstr(total)}; {len(cand)} decisions with a fallback precede "
                                       "it, none with this term", rel=drel, node=it.node)
                            continue
                    # decision and production must sit under the same path constants (`if K == 0:`), otherwise the
                    # decision found by line order may belong to another case
                    paired = path_constants(dfn, d["node"]) == path_constants(dfn, it.node)
                    chk.decide("C07.HOMO", cons, True if same else (None if (not paired or has_raw(d["fallback"]) or has_raw(total)) else False),
                               f"without a split the builder emits {it!r}, which costs {pstr(total)}; the decision compared the "
                               f"candidates with {pstr(dict(d['fallback']))}", rel=drel, node=it.node)
                continue
            if len(calls) < 2 or any(isinstance(x, tuple) for x in items):
                continue
            # this is a split production: find the decision whose list_mem precedes it
            first_line = min(x.node.lineno for x in items if not isinstance(x, tuple))
            cand = [d for d in decs if d["node"].lineno < first_line]
            if not cand:
                continue
            d = max(cand, key=lambda x: x["node"].lineno)
            total = {}
            ok = True
            why = ""
            ren = dict(INDEX_NAMES)
            ren[d.get("argvar") or "jmin"] = d["var"]
            # the production is emitted where the decision is taken: the same path constants (`if K == 0:`) hold
            ren.update(path_constants(dfn, d["node"]))
            pbj = builder(tname)
            pbj.rename = ren
            for it in items:
                if it.kind == "op":
                    c = costs.get(it.type)
                    if c is None:
                        ok, why = None, f"no cost rule for {it.type}"
                        break
                    if c[0] == "zero":
                        continue
                    key = c[1]
                    if c[0] == "span":
                        a, z = it.idx.elts
                        total = padd(total, pmul(pbj.poly(ast.BinOp(z, ast.Sub(), a)), patom(key)))
                    elif c[0] == "key":
                        total = padd(total, patom(key))
                    else:
                        lvl = it.idx.elts[0]
                        vec = {"wd": "wvect", "rd": "rvect"}.get(key, key)
                        total = padd(total, patom(f"{vec}[{pstr(pbj.poly(lvl))}]"))
                else:
                    tab = CALL_TABLE.get(it.callee)
                    if tab is None:
                        ok, why = None, f"no table for {it.callee}"
                        break
                    params = [a.arg for a in live.funcs[it.callee][1].args.args]
                    bound = {p: a for p, a in zip(params, it.call.args)}
                    try:
                        idx = [pstr(pbj.poly(bound[p])) for p in tab[1]]
                    except KeyError:
                        ok, why = None, f"cannot bind {tab[1]} for {it.callee}"
                        break
                    total = padd(total, patom(tab[0] + "".join(f"[{i}]" for i in idx)))
            cons = f"{drel[:-3].replace('/', '.')}.{dname}#production@decision-line-order[{decs.index(d)}]"
            if ok is None:
                chk.decide("C07.HOMO", cons, None, why, rel=drel, node=items[0].node)
                continue
            same = pkey(total) == d["elem"]
            chk.decide("C07.HOMO", cons, True if same else (None if (has_raw(d["elem"]) or has_raw(total)) else False),
                       f"production {[repr(x) for x in items][:6]} costs {pstr(total)}; the decision minimises `{d['text']}` "
                       f"= {pstr(dict(d['elem']))}", rel=drel, node=items[0].node)


# ---------------------------------------------------------------------------
# BASE: the border entries of the tables are the costs of the base productions

def _sum_over(poly, var, lo, hi):
    """sum_{var=lo}^{hi-1} poly  for poly of degree <= 2 in var; lo, hi polynomials"""
    from ..poly import padd, pmul, pconst, patom
    # split poly by power of var
    parts = {0: {}, 1: {}, 2: {}}
    for mono, c in poly.items():
        d = sum(1 for a in mono if a == var)
        if d > 2:
            return None
        rest = tuple(a for a in mono if a != var)
        parts[d][rest] = parts[d].get(rest, 0) + c

    def S0(n):      # sum_{i=0}^{n-1} 1
        return n

    def S1(n):      # sum i = n(n-1)/2
        return pmul(pmul(n, padd(n, pconst(1), -1)), pconst(Fr(1, 2)))

    def S2(n):      # sum i^2 = (n-1)n(2n-1)/6
        return pmul(pmul(pmul(padd(n, pconst(1), -1), n), padd(pmul(n, pconst(2)), pconst(1), -1)), pconst(Fr(1, 6)))
    out = {}
    for (f, sgn) in ((hi, 1), (lo, -1)):
        for d, S in ((0, S0), (1, S1), (2, S2)):
            if parts[d]:
                out = padd(out, pmul(parts[d], S(f)), sgn)
    return out


from fractions import Fraction as Fr


def production_cost(items, costs, pb, hier, funcs=None):
    """symbolic cost of a production in the tables' cost model: a (Write_Forward k, Forward [k-1,k],
    Backward [k,k-1], Discard_Forward k) quartet costs ub; other operations cost what
    Operation.cost says; loops are summed in closed form.  -> (poly | None, reason)"""
    from ..poly import padd, pmul, pconst, patom
    total = {}
    i = 0
    n = len(items)
    while i < n:
        it = items[i]
        if isinstance(it, tuple):
            _, loop, body = it
            # for index in range(a, b, -1)  /  range(a, b)
            if not (isinstance(loop, ast.For) and isinstance(loop.iter, ast.Call) and getattr(loop.iter.func, "id", None) == "range"
                    and isinstance(loop.target, ast.Name)):
                return None, "unrecognised loop"
            args = loop.iter.args
            var = loop.target.id
            if len(args) == 3 and isinstance(args[2], ast.UnaryOp) and isinstance(args[2].operand, ast.Constant) \
                    and args[2].operand.value == 1:
                lo = padd(pb.poly(args[1]), pconst(1))
                hi = padd(pb.poly(args[0]), pconst(1))
            elif len(args) == 2:
                lo, hi = pb.poly(args[0]), pb.poly(args[1])
            else:
                return None, "unrecognised range"
            # conditional items of the body: `if index != first: X` (all but one iteration) / `if index + 1 != 0: X` (always)
            uncond, all_but_one = [], []
            for s in loop.body:
                hit = [b for b in body if b.node is s]
                if hit:
                    uncond += hit
                elif isinstance(s, ast.If):
                    inner = [b for b in body if any(b.node is x for x in s.body)]
                    t = s.test
                    if isinstance(t, ast.Compare) and isinstance(t.ops[0], ast.NotEq):
                        lhs = pb.poly(ast.BinOp(t.left, ast.Sub(), t.comparators[0]))
                        # value excluded is inside the range?  index != range-start  -> all but one
                        probe_first = {k: v for k, v in lhs.items()}
                        from ..poly import pkey as _pk
                        # substitute index := hi-1 (first iteration of a descending loop)
                        def subst(p, val):
                            out = {}
                            for mono, c in p.items():
                                term = {(): c}
                                for a in mono:
                                    term = pmul(term, val if a == var else patom(a))
                                out = padd(out, term)
                            return out
                        at_first = subst(lhs, padd(hi, pconst(1), -1))
                        at_lo_m1 = subst(lhs, padd(lo, pconst(1), -1))
                        if not at_first:
                            all_but_one += inner
                        elif not at_lo_m1:
                            uncond += inner        # excluded value lies just outside the range: always true
                        else:
                            return None, f"unrecognised loop condition {ast.unparse(t)}"
                    else:
                        return None, f"unrecognised loop condition {ast.unparse(t)}"
            c1, why = production_cost(uncond, costs, pb, hier)
            c2, why2 = production_cost(all_but_one, costs, pb, hier)
            if c1 is None or c2 is None:
                return None, why or why2
            s1 = _sum_over(c1, pb.rename.get(var, var), lo, hi)
            if s1 is None:
                return None, "loop body cost of degree > 2"
            total = padd(total, s1)
            if c2:
                if any(pb.rename.get(var, var) in mono for mono in c2):
                    return None, "conditional loop item depends on the loop variable"
                total = padd(total, pmul(c2, padd(padd(hi, lo, -1), pconst(1), -1)))
            i += 1
            continue
        if it.kind == "op" and it.type.startswith("Write_Forward") and i + 2 < n:
            # (Write_Forward k, Forward [k-1, k], Backward [k, k-1]) is one reversed step and costs ub in the tables' cost
            # model; the Discard_Forward that normally follows is free and is consumed with it when present
            q = items[i:i + 3]
            if all(not isinstance(x, tuple) and x.kind == "op" for x in q) and q[1].type == "Forward" and q[2].type == "Backward":
                total = padd(total, patom("ub"))
                i += 3
                if i < n and not isinstance(items[i], tuple) and items[i].kind == "op" and items[i].type.startswith("Discard_Forward"):
                    i += 1
                continue
        if it.kind == "op":
            c = costs.get(it.type)
            if c is None:
                return None, f"no cost rule for {it.type}"
            if c[0] == "span":
                a, z = it.idx.elts
                total = padd(total, pmul(pb.poly(ast.BinOp(z, ast.Sub(), a)), patom(c[1])))
            elif c[0] == "key":
                total = padd(total, patom(c[1]))
            elif c[0] == "veckey":
                vec = {"wd": "wvect", "rd": "rvect"}.get(c[1], c[1])
                total = padd(total, patom(f"{vec}[{pstr(pb.poly(it.idx.elts[0]))}]"))
            i += 1
            continue
        if funcs is not None and it.kind == "call" and it.callee in CALL_TABLE and it.callee in funcs and it.shift is None:
            # an inserted sub-sequence costs what its table says: hrevolve_aux(l, K, cmem) -> optp[K][l][cmem]
            tab = CALL_TABLE[it.callee]
            params = [a.arg for a in funcs[it.callee][1].args.args]
            bound = dict(zip(params, it.call.args))
            if all(p_ in bound for p_ in tab[1]):
                idx = [pstr(pb.poly(bound[p_])) for p_ in tab[1]]
                total = padd(total, patom(tab[0] + "".join(f"[{x}]" for x in idx)))
                i += 1
                continue
        return None, "sub-sequence call in a base production"
    return total, ""


def base_rules(chk, ctx):
    from ..gram import Grammar, production_paths
    from ..poly import padd, pconst
    chk.describe("C07.BASE", "border entries of the cost tables equal the cost of the base productions they stand for")
    repo = ctx.repo
    g = Grammar(repo)
    live = g.liveness
    costs = op_costs(repo)

    def cond_key(conds, fn):
        """path conditions as a frozenset of normalised strings (only tests on l / cm / K / cmem)"""
        out = []
        for node, val in conds:
            t = " ".join(ast.unparse(node.test).split())
            if any(k in t for k in ("l ==", "cm ==", "cmem ==", "K ==")):
                out.append((t, val))
        return tuple(out)
    # expected border expressions, read from the table builders: k-th `append` / constant-index store
    def table_values(tname):
        rel, fn = live.funcs[tname]
        pb = builder(tname)
        vals = []
        for s in ast.walk(fn):
            if isinstance(s, ast.Expr) and isinstance(s.value, ast.Call) and isinstance(s.value.func, ast.Attribute) \
                    and s.value.func.attr == "append" and len(s.value.args) == 1 and id(s) not in live.dead_nodes:
                vals.append((s.lineno, s, s.value.args[0]))
        vals.sort(key=lambda x: x[0])
        return rel, fn, pb, vals
    def ev_int(e, cell):
        if isinstance(e, ast.Constant) and isinstance(e.value, int) and not isinstance(e.value, bool):
            return e.value
        if isinstance(e, ast.Name):
            return cell.get(e.id)
        if isinstance(e, ast.BinOp) and isinstance(e.op, (ast.Add, ast.Sub)):
            a, b_ = ev_int(e.left, cell), ev_int(e.right, cell)
            if a is None or b_ is None:
                return None
            return a + b_ if isinstance(e.op, ast.Add) else a - b_
        return None

    def ev_test(t, cell):
        """truth value of a guard on the cell (a sample point of the region of (l, cm) the border entry stands for), or
        None when the guard reads something else"""
        if isinstance(t, ast.BoolOp):
            vals = [ev_test(v, cell) for v in t.values]
            if isinstance(t.op, ast.And):
                return False if any(v is False for v in vals) else (None if any(v is None for v in vals) else True)
            return True if any(v is True for v in vals) else (None if any(v is None for v in vals) else False)
        if isinstance(t, ast.UnaryOp) and isinstance(t.op, ast.Not):
            v = ev_test(t.operand, cell)
            return None if v is None else (not v)
        if isinstance(t, ast.Compare) and len(t.ops) == 1:
            a, b_ = ev_int(t.left, cell), ev_int(t.comparators[0], cell)
            if a is None or b_ is None:
                return None
            op = t.ops[0]
            return {ast.Eq: a == b_, ast.NotEq: a != b_, ast.Lt: a < b_, ast.LtE: a <= b_, ast.Gt: a > b_, ast.GtE: a >= b_}.get(type(op))
        return None

    def select(bname, cell):
        """production paths of the builder that the cell can take: every guard that reads only l / cm agrees"""
        out = []
        for conds, items in production_paths(g, bname):
            ok = True
            for node, val in conds:
                v = ev_test(node.test, cell)
                if v is not None and v != val:
                    ok = False
                    break
            if ok:
                out.append((conds, items))
        return out
    BIG, BIG2 = 7, 5
    SPEC = [  # (table, k-th append, builder, sample cell of the region the border stands for, values substituted)
        ("get_opt_0_table", 0, "revolve", {"l": 0, "cm": BIG2}, {"l": 0}),
        ("get_opt_0_table", 1, "revolve", {"l": 1, "cm": BIG2}, {"l": 1}),
        ("get_opt_0_table", 2, "revolve", {"l": BIG, "cm": 1}, {"cm": 1}),
        ("get_opt_inf_table", 0, "disk_revolve", {"l": 0, "cm": BIG2}, {"l": 0}),
        ("get_opt_inf_table", 1, "disk_revolve", {"l": 1, "cm": 0}, {"l": 1, "cm": 0}),
        ("get_opt_inf_table", 2, "disk_revolve", {"l": 1, "cm": BIG2}, {"l": 1}),
    ]
    for tname, k, bname, cell, fixed in SPEC:
        if tname not in live.funcs or bname not in g.builders:
            continue
        rel, fn, pb, vals = table_values(tname)
        cons = f"{rel[:-3].replace('/', '.')}.{tname}#border[{k}]<->{bname}"
        if k >= len(vals):
            chk.decide("C07.BASE", cons, None, f"{tname} has only {len(vals)} live append statements", rel=rel, node=fn)
            continue
        _, stmt, expr = vals[k]
        expect = pb.poly(expr)
        params = [a.arg for a in live.funcs[bname][1].args.args]
        if not ({"l", "cm"} <= set(params)):
            chk.decide("C07.BASE", cons, None, f"{bname} does not take (l, cm)", rel=rel, node=stmt)
            continue
        prods = select(bname, cell)
        if len(prods) != 1:
            chk.decide("C07.BASE", cons, None, f"{len(prods)} productions of {bname} on the cell {cell}", rel=rel, node=stmt)
            continue
        pbb = builder(tname)
        pbb = PolyBuilder(pbb.atom_fn, dict(pbb.rename, **fixed))
        cost, why = production_cost(prods[0][1], costs, pbb, False)
        if cost is None:
            chk.decide("C07.BASE", cons, None, why, rel=rel, node=stmt)
            continue
        # the table's loop variable for the number of steps / slots takes the cell's value too
        same = pkey(cost) == pkey(expect)
        if not same:
            # the border expression may be written over the table's own loop variable: compare after substituting it
            for tv in sorted({x.id for x in ast.walk(expr) if isinstance(x, ast.Name)} - {"uf", "ub", "rd", "wd"}):
                for key, val in fixed.items():
                    pbe = PolyBuilder(pb.atom_fn, dict(pb.rename, **{tv: val}))
                    if pkey(pbe.poly(expr)) == pkey(cost):
                        same = True
        # a cell without memory slots is outside the domain (the constructors assert snapshots_in_ram > 0; C17 decides
        # that): a mismatch there is an inconsistency of unreachable code, not a violation
        unreachable = cell.get("cm") == 0
        chk.decide("C07.BASE", cons, True if same else (None if unreachable else False),
                   f"table border `{' '.join(ast.unparse(expr).split())}` = {pstr(expect)}; the production of {bname} on the cell "
                   f"{cell} costs {pstr(cost)}", rel=rel, node=stmt)
    # hierarchical tables: row 0 is ub for both tables <-> l == 0 productions of aux and recurse
    if "get_hopt_table" in live.funcs:
        rel, fn = live.funcs["get_hopt_table"]
        pb = builder("get_hopt_table")
        row0 = [s for s in ast.walk(fn) if isinstance(s, ast.Assign) and isinstance(s.targets[0], ast.Subscript)
                and isinstance(s.targets[0].value, ast.Subscript) and isinstance(s.targets[0].value.slice, ast.Constant)
                and s.targets[0].value.slice.value == 0]
        for bname in ("hrevolve_aux", "hrevolve_recurse"):
            prods = [(c, it) for c, it in production_paths(g, bname)
                     if any(t == "l == 0" and v for t, v in cond_key(c, None))]
            cons = f"{rel[:-3].replace('/', '.')}.get_hopt_table#row0<->{bname}"
            if not prods or not row0:
                chk.decide("C07.BASE", cons, None, "row 0 / l == 0 production not found", rel=rel, node=fn)
                continue
            cost, why = production_cost(prods[0][1], costs, builder("get_hopt_table"), True)
            vals = {pkey(pb.poly(s.value)) for s in row0}
            ok = cost is not None and vals == {pkey(cost)}
            chk.decide("C07.BASE", cons, True if ok else (False if cost is not None else None),
                       f"row 0 of the H-Revolve tables is {[pstr(dict(v)) for v in vals]}; the l == 0 production of {bname} costs "
                       f"{pstr(cost) if cost is not None else why}", rel=rel, node=row0[0])
        # row 1 at level 0: optp[0][1][m] is the cost of hrevolve_aux(l = 1, K = 0, cmem = m >= 1), opt[0][1][m] that of
        # hrevolve_recurse(l = 1, K = 0, cmem = m >= 1)
        import copy as _copy
        row1 = {}
        for s_ in ast.walk(fn):
            if isinstance(s_, ast.Assign) and isinstance(s_.targets[0], ast.Subscript) and isinstance(s_.targets[0].value, ast.Subscript) \
                    and isinstance(s_.targets[0].value.slice, ast.Constant) and s_.targets[0].value.slice.value == 1 \
                    and isinstance(s_.targets[0].value.value, ast.Subscript) and isinstance(s_.targets[0].value.value.value, ast.Name):
                row1.setdefault(s_.targets[0].value.value.value.id, []).append(s_)

        class _Sub(ast.NodeTransformer):
            def __init__(self, tgt, val):
                self.t, self.v = ast.unparse(tgt), val

            def visit_Subscript(self, node):
                if ast.unparse(node) == self.t:
                    return _copy.deepcopy(self.v)
                return self.generic_visit(node)
        params_of = lambda b_: [a.arg for a in live.funcs[b_][1].args.args]
        for tab_, bname in (("optp", "hrevolve_aux"), ("opt", "hrevolve_recurse")):
            cons = f"{rel[:-3].replace('/', '.')}.get_hopt_table#row1<->{bname}"
            sts = row1.get(tab_, [])
            if len(sts) != 1 or bname not in g.builders or not ({"l", "K", "cmem"} <= set(params_of(bname))):
                chk.decide("C07.BASE", cons, None, f"row 1 store of {tab_} / parameters of {bname} not found", rel=rel, node=fn)
                continue
            expr = sts[0].value
            for other in row1.get("optp", []) if tab_ == "opt" else []:
                expr = _Sub(other.targets[0], other.value).visit(_copy.deepcopy(expr))
            # the table's level / slot loop variables at the sample cell: level 0
            lvl = sts[0].targets[0].value.value.slice
            ren0 = {lvl.id: 0} if isinstance(lvl, ast.Name) else {}
            pbe = builder("get_hopt_table")
            pbe = PolyBuilder(pbe.atom_fn, dict(pbe.rename, **ren0))
            expect = pbe.poly(expr)
            cell = {"l": 1, "K": 0, "cmem": 5}
            prods = []
            for conds, items in production_paths(g, bname):
                if all(ev_test(node.test, cell) in (None, val) for node, val in conds):
                    prods.append((conds, items))
            # identical tests are correlated: drop paths that take one test both ways
            def consistent(conds):
                seen_ = {}
                for node, val in conds:
                    k_ = ast.dump(node.test)
                    if seen_.setdefault(k_, val) != val:
                        return False
                return True
            prods = [p_ for p_ in prods if consistent(p_[0])]

            def cost_sign(conds):
                """False if the path takes a test `A < B` although A - B is a sum of costs with non-negative coefficients at
                K = 0 (costs are non-negative), or refuses a test `A >= B` of that kind"""
                pbk = builder("get_hopt_table")
                pbk = PolyBuilder(pbk.atom_fn, dict(pbk.rename, l=1, K=0, k=0))
                for node, val in conds:
                    t = node.test
                    if isinstance(t, ast.Compare) and len(t.ops) == 1 and isinstance(t.ops[0], (ast.Lt, ast.GtE)) \
                            and not any(isinstance(x, ast.Call) for x in ast.walk(t)):
                        try:
                            d_ = pbk.poly(ast.BinOp(t.left, ast.Sub(), t.comparators[0]))
                        except Exception:
                            continue
                        if d_ and all(c_ > 0 for c_ in d_.values()) and all(m_ for m_ in d_):
                            truth_ = isinstance(t.ops[0], ast.GtE)     # A - B >= 0 holds
                            if val != truth_:
                                return False
                return True
            prods = [p_ for p_ in prods if cost_sign(p_[0])]
            costs_ = []
            for conds, items in prods:
                pbb = builder("get_hopt_table")
                pbb = PolyBuilder(pbb.atom_fn, dict(pbb.rename, l=1, K=0, k=0))
                c_, why = production_cost(items, costs, pbb, True)
                costs_.append(c_)
            if not prods or any(c_ is None for c_ in costs_):
                chk.decide("C07.BASE", cons, None, f"{len(prods)} productions of {bname} on the cell {cell} / cost not computable",
                           rel=rel, node=sts[0])
                continue
            ok = all(pkey(c_) == pkey(expect) for c_ in costs_)
            chk.decide("C07.BASE", cons, True if ok else False,
                       f"row 1, level 0 of {tab_} is `{' '.join(ast.unparse(sts[0].value).split())}` = {pstr(expect)}; the l == 1 production(s) of "
                       f"{bname} with K = 0 cost {[pstr(c_) for c_ in costs_]}", rel=rel, node=sts[0])
        # one slot at level 0: optp[0][l][1] is the cost of hrevolve_aux(l >= 2, K = 0, cmem = 1)
        one = [s_ for s_ in ast.walk(fn) if isinstance(s_, ast.Assign) and isinstance(s_.targets[0], ast.Subscript)
               and " ".join(ast.unparse(s_.targets[0]).split()).startswith("optp[0][") and isinstance(s_.targets[0].slice, ast.Constant)
               and s_.targets[0].slice.value == 1 and isinstance(s_.targets[0].value.slice, ast.Name)]
        bname = "hrevolve_aux"
        cons = f"{rel[:-3].replace('/', '.')}.get_hopt_table#one-slot<->{bname}"
        if len(one) == 1 and bname in g.builders and {"l", "K", "cmem"} <= set(params_of(bname)):
            lvar = one[0].targets[0].value.slice.id
            pbe = builder("get_hopt_table")
            pbe = PolyBuilder(pbe.atom_fn, dict(pbe.rename, **{lvar: "l"}))
            expect = pbe.poly(one[0].value)
            cell = {"l": 7, "K": 0, "cmem": 1}
            prods = [(c_, it_) for c_, it_ in production_paths(g, bname)
                     if all(ev_test(node.test, cell) in (None, val) for node, val in c_)]
            costs_ = []
            for conds, items in prods:
                pbb = builder("get_hopt_table")
                pbb = PolyBuilder(pbb.atom_fn, dict(pbb.rename, K=0, k=0, cmem=1, m=1))
                c_, why = production_cost(items, costs, pbb, True)
                costs_.append(c_)
            if len(prods) != 1 or costs_[0] is None:
                chk.decide("C07.BASE", cons, None, f"{len(prods)} productions of {bname} on the cell {cell} / cost not computable",
                           rel=rel, node=one[0])
            else:
                ok = pkey(costs_[0]) == pkey(expect)
                chk.decide("C07.BASE", cons, True if ok else False,
                           f"one-slot entries of optp at level 0 are `{' '.join(ast.unparse(one[0].value).split())}` = {pstr(expect)}; the "
                           f"production of {bname} with K = 0, cmem = 1 costs {pstr(costs_[0])}", rel=rel, node=one[0])
        one_o = [s_ for s_ in ast.walk(fn) if isinstance(s_, ast.Assign) and isinstance(s_.targets[0], ast.Subscript)
                 and " ".join(ast.unparse(s_.targets[0]).split()).startswith("opt[0][") and isinstance(s_.targets[0].slice, ast.Constant)
                 and s_.targets[0].slice.value == 1 and isinstance(s_.targets[0].value.slice, ast.Name)]
        bname = "hrevolve_recurse"
        cons = f"{rel[:-3].replace('/', '.')}.get_hopt_table#one-slot<->{bname}"
        if len(one_o) == 1 and bname in g.builders and {"l", "K", "cmem"} <= set(params_of(bname)):
            lvar = one_o[0].targets[0].value.slice.id
            pbe = builder("get_hopt_table")
            pbe = PolyBuilder(pbe.atom_fn, dict(pbe.rename, **{lvar: "l"}))
            expect = pbe.poly(one_o[0].value)
            cell = {"l": 7, "K": 0, "cmem": 1}
            prods = [(c_, it_) for c_, it_ in production_paths(g, bname)
                     if all(ev_test(node.test, cell) in (None, val) for node, val in c_)]
            costs_ = []
            for conds, items in prods:
                pbb = builder("get_hopt_table")
                pbb = PolyBuilder(pbb.atom_fn, dict(pbb.rename, K=0, k=0, cmem=1, m=1))
                c_, why = production_cost(items, costs, pbb, True, funcs=live.funcs)
                costs_.append(c_)
            if len(prods) != 1 or costs_[0] is None:
                chk.decide("C07.BASE", cons, None, f"{len(prods)} productions of {bname} on the cell {cell} / cost not computable",
                           rel=rel, node=one_o[0])
            else:
                ok = pkey(costs_[0]) == pkey(expect)
                chk.decide("C07.BASE", cons, True if ok else False,
                           f"one-slot entries of opt at level 0 are `{' '.join(ast.unparse(one_o[0].value).split())}` = {pstr(expect)}; the "
                           f"production of {bname} with K = 0, cmem = 1 costs {pstr(costs_[0])}", rel=rel, node=one_o[0])


def zero_column_rule(chk, ctx):
    """get_hopt_table: with no slot at level k the only option is not to write at that level, so the border entry
    `T[k][l][0] = E` must be the very term that the general entry `T[k][l][m] = min(A, B)` keeps as the option without a
    write at level k: E is A or B (as polynomials over the table atoms)."""
    repo = ctx.repo
    rel = "hrevolve_sequences/hrevolve.py"
    try:
        fn = repo.func(rel, "get_hopt_table")
    except Exception:
        return
    pb = PolyBuilder()
    params = {a.arg for a in fn.args.args + fn.args.kwonlyargs}
    loopvars = {x.id for n in ast.walk(fn) if isinstance(n, (ast.For, ast.comprehension)) for x in ast.walk(n.target)
                if isinstance(x, ast.Name)}
    locals_ = {x.id for n in ast.walk(fn) if isinstance(n, ast.Assign) for t in n.targets for x in ast.walk(t)
               if isinstance(x, ast.Name) and isinstance(x.ctx, ast.Store) and isinstance(t, (ast.Name, ast.Tuple))}

    def plain(e):
        """only table atoms, parameters and loop variables: nothing the comparison cannot see through"""
        for x in ast.walk(e):
            if isinstance(x, ast.Name) and x.id in locals_ and x.id not in loopvars and x.id not in params:
                # a table variable subscripted is fine, a scalar local is not
                if not any(isinstance(p_, ast.Subscript) and _root(p_) is x for p_ in ast.walk(e)):
                    return False
            if isinstance(x, (ast.Call, ast.IfExp, ast.Lambda)):
                return False
        return True

    def _root(sub):
        cur = sub
        while isinstance(cur, ast.Subscript):
            cur = cur.value
        return cur
    general = {}
    for n in ast.walk(fn):
        if isinstance(n, ast.Assign) and len(n.targets) == 1 and isinstance(n.targets[0], ast.Subscript) \
                and isinstance(n.targets[0].slice, ast.Name) and isinstance(n.value, ast.Call) \
                and getattr(n.value.func, "id", None) == "min" and len(n.value.args) == 2 \
                and not any(isinstance(a, (ast.List, ast.ListComp, ast.BinOp)) and isinstance(a, (ast.List, ast.ListComp))
                            for a in n.value.args):
            general.setdefault(ast.unparse(n.targets[0].value), []).append(n)
    k = 0
    for n in ast.walk(fn):
        if not (isinstance(n, ast.Assign) and len(n.targets) == 1 and isinstance(n.targets[0], ast.Subscript)
                and isinstance(n.targets[0].slice, ast.Constant) and n.targets[0].slice.value == 0):
            continue
        base = ast.unparse(n.targets[0].value)
        gens = general.get(base)
        if not gens or isinstance(n.value, ast.Call):
            continue
        cons = f"hrevolve_sequences.hrevolve.get_hopt_table#zero-column[{k}]"
        k += 1
        g = gens[0]
        a, b = g.value.args
        if not (plain(n.value) and plain(a) and plain(b)):
            chk.decide("C07.BASE", cons, None, f"`{ast.unparse(n)[:80]}`: value goes through locals or calls the rule does not follow",
                       rel=rel, node=n, nontrivial=False)
            continue
        e = pkey(pb.poly(n.value))
        ok = e in (pkey(pb.poly(a)), pkey(pb.poly(b)))
        chk.decide("C07.BASE", cons, True if ok else False,
                   f"`{' '.join(ast.unparse(n).split())[:90]}` " + ("is the no-write option of the general entry" if ok else
                   f"is neither option of the general entry `{' '.join(ast.unparse(g).split())[:110]}`: with no slot at this level the "
                   "table records a cost that no production attains"), rel=rel, node=n, nontrivial=False)


def skip_rule(chk, ctx):
    """get_hopt_table: a fill loop may skip (`if T: continue`) only the cell without any memory - slot count 0 at level 0,
    the one infeasible cell, which keeps its initial `inf`.  A test that is a conjunction of `name == 0` comparisons
    skips only such a cell; a test built from comparisons of names with integer literals that differs from that form
    (another literal, `!=`, `or`) skips feasible cells, which then stay `inf` and make the table claim "impossible"."""
    repo = ctx.repo
    rel = "hrevolve_sequences/hrevolve.py"
    try:
        fn = repo.func(rel, "get_hopt_table")
    except Exception:
        return
    k = 0
    for loop in ast.walk(fn):
        if not isinstance(loop, ast.For):
            continue
        for st in loop.body:
            if not (isinstance(st, ast.If) and not st.orelse and len(st.body) == 1 and isinstance(st.body[0], ast.Continue)):
                continue
            t = st.test
            parts = list(t.values) if isinstance(t, ast.BoolOp) else [t]
            simple = all(isinstance(p_, ast.Compare) and len(p_.ops) == 1 and isinstance(p_.left, ast.Name)
                         and isinstance(p_.comparators[0], ast.Constant) and isinstance(p_.comparators[0].value, int)
                         and not isinstance(p_.comparators[0].value, bool) for p_ in parts)
            loopvars = {x.id for n in ast.walk(fn) if isinstance(n, ast.For) for x in ast.walk(n.target) if isinstance(x, ast.Name)}
            names = {x.id for x in ast.walk(t) if isinstance(x, ast.Name)}
            if not names or not names <= loopvars:
                continue        # a test on sizes (`lmax < 1`): there is nothing to fill, no cell is skipped
            cons = f"hrevolve_sequences.hrevolve.get_hopt_table#skip[{k}]"
            k += 1
            if not simple:
                chk.decide("C07.BASE", cons, None, f"`{ast.unparse(t)}`: skip condition not a combination of `name <op> literal` tests",
                           rel=rel, node=st, nontrivial=False)
                continue
            zero_cell = (not isinstance(t, ast.BoolOp) or isinstance(t.op, ast.And)) and len(parts) >= 2 and \
                all(isinstance(p_.ops[0], ast.Eq) and p_.comparators[0].value == 0 for p_ in parts)
            chk.decide("C07.BASE", cons, True if zero_cell else False,
                       f"`{ast.unparse(t)}` " + ("skips only the cell with no slot at level 0" if zero_cell else
                       "skips cells that are feasible: they keep their initial `inf`, the table says \"impossible\" where a schedule exists"),
                       rel=rel, node=st, nontrivial=False)


def fill_ranges(chk, ctx):
    """get_hopt_table: every loop that fills table entries runs to the end of the dimension its variable indexes
    (steps: lmax + 1, slots: the slot count of the level + 1, levels: K) and starts no later than the first index that is
    not a border (the largest constant index stored in that dimension, at that level, plus one).  A loop that stops
    early or starts late leaves entries at their initial `inf`: the schedule is then planned from a table that says
    "infeasible" where it is not."""
    from .c17 import table_dims
    from ..constprop import Liveness
    repo = ctx.repo
    rel = "hrevolve_sequences/hrevolve.py"
    try:
        fn = repo.func(rel, "get_hopt_table")
    except Exception:
        return
    dims = table_dims(fn)
    if not dims:
        return
    pb = PolyBuilder()
    defs = single_defs(fn)
    stores = []
    for n in ast.walk(fn):
        if isinstance(n, ast.Assign) and isinstance(n.targets[0], ast.Subscript):
            idxs, cur = [], n.targets[0]
            while isinstance(cur, ast.Subscript):
                idxs.append(cur.slice)
                cur = cur.value
            if isinstance(cur, ast.Name) and cur.id in dims and len(idxs) == len(dims[cur.id]):
                stores.append((cur.id, idxs[::-1], n))
    if not stores:
        return

    def level_key(ix):
        return "0" if (isinstance(ix, ast.Constant) and ix.value == 0) else ("var" if isinstance(ix, ast.Name) else "?")
    # borders: constant indices per (dimension, level class)
    borders = {}
    for tab, idxs, n in stores:
        lk = level_key(idxs[0])
        for d, ix in enumerate(idxs):
            if d > 0 and isinstance(ix, ast.Constant) and isinstance(ix.value, int):
                borders.setdefault((d, lk), set()).add(ix.value)
                if lk == "var":
                    borders.setdefault((d, "0"), set()).add(ix.value)     # a loop over all levels includes level 0
    k = 0
    for loop in [n for n in ast.walk(fn) if isinstance(n, ast.For) and isinstance(n.target, ast.Name)
                 and isinstance(n.iter, ast.Call) and getattr(n.iter.func, "id", None) == "range" and 1 <= len(n.iter.args) <= 2]:
        v = loop.target.id
        uses = [(tab, d, idxs, n) for tab, idxs, n in stores if any(x is n for x in ast.walk(loop))
                for d, ix in enumerate(idxs) if isinstance(ix, ast.Name) and ix.id == v]
        if not uses:
            continue
        tab, d, idxs, n0 = uses[0]
        if any(u[1] != d for u in uses):
            continue
        lo = loop.iter.args[0] if len(loop.iter.args) == 2 else ast.Constant(0)
        hi = loop.iter.args[-1]
        size = dims[tab][d]
        cons = f"hrevolve_sequences.hrevolve.get_hopt_table#fill-loop[{k}]({v}: dim {d})"
        k += 1
        if size is None:
            continue
        if d == 2:
            # the slot dimension of level i has cvect[i] + 1 entries: compare with the level index of the stores
            lvl = idxs[0]
            size = ast.BinOp(ast.Subscript(ast.Name("cvect", ast.Load()), lvl, ast.Load()), ast.Add(), ast.Constant(1))
        def resolve(e, line):
            """names with several plain definitions stand for the textually nearest preceding one"""
            import copy as _c
            assigns = {}
            for a_ in ast.walk(fn):
                if isinstance(a_, ast.Assign) and len(a_.targets) == 1 and isinstance(a_.targets[0], ast.Name) and a_.lineno <= line \
                        and not any(isinstance(x, ast.Call) and getattr(x.func, "id", None) not in ("len",) for x in ast.walk(a_.value)):
                    cur_ = assigns.get(a_.targets[0].id)
                    if cur_ is None or cur_.lineno <= a_.lineno:
                        assigns[a_.targets[0].id] = a_

            class R(ast.NodeTransformer):
                def visit_Name(self, node):
                    if isinstance(node.ctx, ast.Load) and node.id in assigns and node.id not in defs:
                        return _c.deepcopy(assigns[node.id].value)
                    return node
            return subst_defs(R().visit(_c.deepcopy(e)), defs)
        try:
            got_hi = pkey(pb.poly(resolve(hi, loop.lineno)))
            want_hi = pkey(pb.poly(resolve(size, loop.lineno)))
        except Exception:
            continue
        ok_hi = got_hi == want_hi
        # a difference is definite only if the loop bound is written over names whose meaning is known here: parameters
        # of the builder and variables of enclosing range loops (a local bound by `enumerate`, a helper's parameter, ...
        # may well stand for the dimension's size)
        known_names = {a.arg for a in fn.args.args} | {x.id for x in ast.walk(resolve(size, loop.lineno)) if isinstance(x, ast.Name)} \
            | {l_.target.id for l_ in ast.walk(fn) if isinstance(l_, ast.For) and isinstance(l_.target, ast.Name)
               and isinstance(l_.iter, ast.Call) and getattr(l_.iter.func, "id", None) == "range"} | {"len"}
        hi_names = {x.id for x in ast.walk(resolve(hi, loop.lineno)) if isinstance(x, ast.Name)}
        definite_hi = hi_names <= known_names
        lo_c = lo.value if isinstance(lo, ast.Constant) and isinstance(lo.value, int) else None
        bmax = max(borders.get((d, level_key(idxs[0])), {-1})) if d > 0 else None
        ok_lo = True if (d == 0 or lo_c is None) else (lo_c <= bmax + 1)
        if not ok_hi and ok_lo and not definite_hi:
            chk.note(f"C07.TABLE/fill-loop: `for {v} in {ast.unparse(loop.iter)}` is written over names the rule cannot resolve; not compared")
            continue
        chk.decide("C07.TABLE", cons, True if (ok_hi and ok_lo) else False,
                   f"`for {v} in {ast.unparse(loop.iter)}` fills dimension {d} of `{tab}`: "
                   + ("runs to the end of the dimension" if ok_hi else f"ends at {ast.unparse(hi)}, the dimension has {ast.unparse(size)} entries")
                   + ("" if ok_lo else f"; starts at {lo_c}, the first entry after the borders is {bmax + 1}"),
                   rel=rel, node=loop, nontrivial=False)
    # no negative index: inside a loop `for v in range(lo, ..)` with a constant start, an index `v - c` needs lo >= c
    # (a negative index silently wraps around to the other end of the list)
    k = 0
    for tname in ("get_hopt_table", "get_opt_0_table", "get_opt_inf_table"):
        try:
            relx, fx = [(r_, f_) for r_, q_, f_ in repo.all_functions() if q_ == tname][0]
        except IndexError:
            continue
        for loop in [n for n in ast.walk(fx) if isinstance(n, ast.For) and isinstance(n.target, ast.Name) and isinstance(n.iter, ast.Call)
                     and getattr(n.iter.func, "id", None) == "range" and len(n.iter.args) >= 1]:
            lo = loop.iter.args[0] if len(loop.iter.args) >= 2 else ast.Constant(0)
            if not (isinstance(lo, ast.Constant) and isinstance(lo.value, int)):
                continue
            v = loop.target.id
            need = 0
            site = None
            for x in ast.walk(loop):
                if isinstance(x, ast.Subscript) and isinstance(x.slice, ast.BinOp) and isinstance(x.slice.op, ast.Sub) \
                        and isinstance(x.slice.left, ast.Name) and x.slice.left.id == v and isinstance(x.slice.right, ast.Constant) \
                        and isinstance(x.slice.right.value, int) and x.slice.right.value > need:
                    need, site = x.slice.right.value, x
            if need:
                chk.decide("C07.TABLE", f"{relx[:-3].replace('/', '.')}.{tname}#index-nonneg[{k}]({v})", True if lo.value >= need else False,
                           f"`for {v} in {ast.unparse(loop.iter)}` reads `{ast.unparse(site)}`: "
                           + ("never negative" if lo.value >= need else f"for {v} = {lo.value} the index is negative and wraps around"),
                           rel=relx, node=loop, nontrivial=False)
                k += 1
