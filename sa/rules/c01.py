"""C01 - every emitted schedule is executable: required data is always available.

  START   every Forward starts where the forward state is
  LOAD    a Copy/Move names a step recorded in the tracking container
  LABEL   the storage named when a checkpoint is read is the storage it was written to
          (stack-position labels: index == position of the element; class labels:
          forward-sweep checkpoints vs. checkpoints pushed during the reversal)
  TRACK   tracking is faithful: write <=> push of its step, Move <=> removal, Copy <=> none
  WORK    Reverse only with adjoint data in working storage, loads only into empty WORK
  PASSES  in a repeatable adjoint pass nothing needed by the next pass is destroyed
  SEQ     (GRAM) production-local well-formedness of the operation sequences the converter
          relies on: (Write_Forward k, Forward [k-1,k], Backward [k,k-1], Discard_Forward k)
          quartets; Read/Write(x) followed by an operation starting at x
"""
import ast

from .common import *
from . import shared
from ..gram import Grammar, diff_const, lin_of
from ..interp import truth


def label_repr(st, v, it):
    """('tok', value) | ('sym', name, domain) | ('table', base) | None"""
    if isinstance(v, Tok):
        return ("tok", v.v)
    s = pure_sym(v)
    if s is None:
        return None
    for a, (base, node) in it.label_atoms.items():
        if st.entails_eq(v - Lin.sym(a)) == "yes":
            return ("table", base)
    a = alias_attr(st, v)
    if a is not None:
        s = a
    e = st.enum_get(s) or st.enum_get(pure_sym(v))
    dom = frozenset(e[1]) if e and e[0] == "in" else None
    if dom and len(dom) == 1:
        return ("tok", next(iter(dom)))
    return ("sym", s, dom)


def labels_agree(a, b):
    """True / False / None"""
    if a is None or b is None:
        return None
    if a == b:
        return True
    if a[0] == "tok" and b[0] == "tok":
        return False
    if {a[0], b[0]} == {"tok", "sym"}:
        t, s = (a, b) if a[0] == "tok" else (b, a)
        dom = s[2]
        if dom is not None:
            if t[1] not in dom:
                return False
            if len(dom) > 1:
                return False     # some configuration of the attribute differs from the literal
        return None
    if a[0] == "sym" and b[0] == "sym":
        return None
    return None


def rule_label(chk, rid, runs):
    chk.describe(rid, "a checkpoint is read from the storage it was written to")
    for run_ in runs:
        it = run_.interp
        if run_.owner == shared.CONVERTER:
            continue
        # (a) stack-position label tables
        nodes = sorted({(n.lineno, n.col_offset) for n, base, idx, st in it.subs if base.startswith("self.")
                        and isinstance(idx, Lin)})
        for node, base, idx, st in it.subs:
            if not (base.startswith("self.") and isinstance(idx, Lin)) or not it.containers:
                continue
            k = nodes.index((node.lineno, node.col_offset))
            cons = f"{run_.construct}#label[{k}]"
            best = (None, "no tracking container")
            for c in sorted(it.containers):
                r = prove_eq(st, idx - (Lin.sym(f"len({c})") - ONE))
                if r[0] is True or best[0] is None:
                    best = r
                if r[0] is True:
                    break
            ok, why = best
            chk.decide(rid, cons, ok, f"label index {ast.unparse(node.slice)} vs position of the top element (depth - 1): {why}"
                       + shared.cfgs(run_), rel=run_.rel, node=node)
        # (a') the label named in the action is the label of the element's position *at the action*
        for rec in it.yields:
            st = rec.state
            if rec.kind == "Forward" and shared.is_write(rec):
                v, pos_off, what = rec.arg(4), 1, "written"
            elif rec.kind in ("Copy", "Move") and rec.arg(2) == WORK:
                v, what = rec.arg(1), "read"
                pos_off = 0 if any(x == {"X"} for x in shared.trk_values(st).values()) else 1
            else:
                continue
            if not is_lin(v):
                continue
            atoms = [a for a in it.label_atoms if st.entails_eq(v - Lin.sym(a)) == "yes"]
            if not atoms:
                continue
            cons = ycons(run_, rec) + "/label-position"
            best = (None, "no tracking container")
            for c in sorted(it.containers):
                # written / copied: the element is the top (depth - 1); moved: it was just removed (depth)
                r = prove_eq(st, Lin.sym(f"idx({atoms[0]})") - (Lin.sym(f"len({c})") - Lin.const(pos_off)))
                if r[0] is True or best[0] is None:
                    best = r
                if r[0] is True:
                    break
            chk.decide(rid, cons, best[0], f"stack position of the label named by {rec.yid} vs position of the element {what}: "
                       f"{best[1]}" + shared.cfgs(run_), rel=run_.rel, node=rec.node)
        # (c) storage carried by the tracked element: when a load reads its source storage from a component of the stack
        #     element (`cp_n, cp_storage = snapshots[-1]`), every push must record, in that component, the storage that the
        #     write of that very checkpoint names
        carried = {}
        for rec in it.yields:
            if rec.kind in ("Copy", "Move") and rec.arg(2) == WORK and is_lin(rec.arg(1)):
                for c in sorted(it.containers):
                    ar = it.container_arity.get(c) or 0
                    for k_ in range(ar):
                        if k_ == 1:
                            continue
                        for sym in (f"top({c}).{k_}", f"popped({c}).{k_}"):
                            if rec.state.entails_eq(rec.arg(1) - Lin.sym(sym)) == "yes":
                                carried.setdefault(c, set()).add(k_)
        for c, ks in sorted(carried.items()):
            if len(ks) != 1:
                continue
            k_ = next(iter(ks))
            by_yid = {}
            for rec in it.yields:
                by_yid.setdefault(rec.yid, []).append(rec)
            pk = 0
            for node, cc, op, vals, st in it.cops:
                if cc != c or op != "push" or len(vals) <= k_:
                    continue
                cons = f"{run_.construct}#push-{c}[{pk}]/carried-storage"
                pk += 1
                pl = label_repr(st, vals[k_], it)
                ls = last_set(st)
                writers = [r for y in (ls or []) for r in by_yid.get(y, []) if shared.is_write(r)]
                if not writers or ls is None or len(writers) != sum(len(by_yid.get(y, [])) for y in ls):
                    continue        # pushed before its write, or after something else: decided by TRACK
                res = [labels_agree(pl, label_repr(r.state, r.arg(4), it)) for r in writers]
                ok = True if all(x is True for x in res) else (False if any(x is False for x in res) else None)
                wl = sorted({str(label_repr(r.state, r.arg(4), it)[1]) for r in writers if label_repr(r.state, r.arg(4), it)})
                chk.decide(rid, cons, ok,
                           f"the element pushed onto {c} records the storage {pl[1] if pl else '?'}; the checkpoint was written to {wl}: "
                           + ("the later load reads it where it is" if ok else "the later load names the recorded storage, where the "
                              "checkpoint is not") + shared.cfgs(run_), rel=run_.rel, node=node)
        # (b) class labels
        w0, w1 = [], []
        for rec in it.yields:
            if shared.is_write(rec):
                lab = label_repr(rec.state, rec.arg(4), it)
                (w0 if rec.state.enum_single("$ef") == "0" else w1).append((rec, lab))
        for rec in it.yields:
            if rec.kind not in ("Copy", "Move") or rec.arg(2) != WORK:
                continue
            st, cons = rec.state, ycons(run_, rec)
            rl = label_repr(st, rec.arg(1), it)
            if rl and rl[0] == "table":
                continue    # decided by (a)
            if is_lin(rec.arg(1)) and any(st.entails_eq(rec.arg(1) - Lin.sym(f"{w}({c}).{k_}")) == "yes"
                                          for c, ks in carried.items() if len(ks) == 1 for k_ in ks for w in ("top", "popped")):
                continue    # the storage recorded with the element: decided by (c) at the pushes
            x = rec.arg(0)
            cls = None
            seeds = [s for s in st.symbols() if s.startswith("seed(")]
            if not it.containers:
                cls = "sweep"
            elif seeds and is_lin(x):
                for s in seeds:
                    if st.entails_eq(x - Lin.sym(s)) == "yes":
                        cls = "sweep"
                    elif st.entails_neq(x - Lin.sym(s)) and cls is None:
                        cls = "pushed"
            elif not seeds_anywhere(it) and is_lin(x):
                # no container is seeded: the checkpoint read is a pushed one if the step read *is* a tracked element (the
                # top of a stack, or the element just removed); a step taken from elsewhere (an implicit seed, a
                # parameter) is not classified
                for c in sorted(it.containers):
                    for sym in (shared.top_syms(it, c), f"popped({c})"):
                        if st.entails_eq(x - Lin.sym(sym)) == "yes":
                            cls = "pushed" if (w1 or w0) else None
            writers = w0 if cls == "sweep" else (w1 or w0 if cls == "pushed" else [])
            if cls == "pushed" and not w1 and run_.numcase:
                # a boundary cell in which no reversal-time write is reachable: the read of such a checkpoint is not
                # reachable either (there is nothing to read); absence of writers is not a contradiction
                continue
            if cls is None or not writers:
                chk.decide(rid, cons, None, f"cannot classify the checkpoint read by {rec.yid}" + shared.cfgs(run_),
                           rel=run_.rel, node=rec.node)
                continue
            res = [labels_agree(rl, wl) for _, wl in writers]
            ok = True if all(r is True for r in res) else (False if any(r is False for r in res) else None)
            wtxt = sorted({str(wl[1]) for _, wl in writers if wl})
            chk.decide(rid, cons, ok,
                       f"{rec.yid} reads a {'forward-sweep' if cls == 'sweep' else 'reversal-time'} checkpoint from "
                       f"{rl[1] if rl else '?'}; such checkpoints are written to {wtxt}" + shared.cfgs(run_),
                       rel=run_.rel, node=rec.node)


def seeds_anywhere(it):
    return any(op == "init" and vals for _, _, op, vals, _ in it.cops)


def rule_passes(chk, rid, runs):
    chk.describe(rid, "no Move of a forward-sweep checkpoint inside a repeatable adjoint pass")
    for run_ in runs:
        if not multipass(run_):
            continue
        it = run_.interp
        wrote_after_ef = any(shared.is_write(rec) and rec.state.enum_single("$ef") == "1" for rec in it.yields)
        for rec in it.yields:
            if rec.kind != "Move":
                continue
            st, yc, x = rec.state, ycons(run_, rec), rec.arg(0)
            seeds = [s for s in st.symbols() if s.startswith("seed(")]
            if not wrote_after_ef and run_.numcase:
                continue        # boundary cell without reachable reversal-time writes: the Move is not reachable either
            if not wrote_after_ef:
                chk.decide(rid, yc, False, "Move inside a repeatable adjoint pass although nothing is written after "
                           "EndForward: the data belongs to the forward sweep and the next pass needs it" + shared.cfgs(run_),
                           rel=run_.rel, node=rec.node)
            elif is_lin(x) and seeds:
                res = None
                for s in seeds:
                    d = x - Lin.sym(s)
                    if st.entails_neq(d):
                        res = True
                    elif st.entails_eq(d) == "yes":
                        res = False
                        break
                chk.decide(rid, yc, res, ("the moved step differs from the block's forward-sweep checkpoint" if res else
                                          "the block's forward-sweep checkpoint is moved (deleted); the next pass needs it"
                                          if res is False else "cannot relate the moved step to the forward-sweep checkpoint")
                           + shared.cfgs(run_), rel=run_.rel, node=rec.node)
            else:
                chk.decide(rid, yc, None, "Move in a repeatable pass with no tracked seed", rel=run_.rel, node=rec.node)


def rule_seq(chk, rid, ctx):
    chk.describe(rid, "operation sequences: well-formed quartets and Read/Write(x) followed by an operation at x")
    g = Grammar(ctx.repo)
    for b, op in g.ops():
        chk.files.add(op.rel)
        chk.functions.add(f"{op.rel[:-3]}.{op.fname}")
        run_ = op.run
        nxt = [run_[op.pos + i] if op.pos + i < len(run_) else None for i in (1, 2, 3)]
        if op.type.startswith("Write_Forward"):
            lv, k = op.level_step()
            ok, definite, why = True, True, []
            F, B, D = nxt
            if not (F and F.kind == "op" and F.type == "Forward" and B and B.kind == "op" and B.type == "Backward"
                    and D and D.kind == "op" and D.type == op.type.replace("Write_", "Discard_")):
                ok = False
                definite = all(x is not None and x.kind == "op" for x in nxt)
                why.append(f"followed by {[repr(x) for x in nxt]}")
            else:
                fa, fz = F.span()
                ba, bz = B.span()
                _, dk = D.level_step()
                checks = [("Forward ends at k", diff_const(fz, k), 0), ("Forward has length 1", diff_const(fz, fa), 1),
                          ("Backward starts at k", diff_const(ba, k), 0), ("Backward has length 1", diff_const(ba, bz), 1),
                          ("Discard_Forward index k", diff_const(dk, k), 0)]
                for name, got, want in checks:
                    if got is None:
                        ok, definite = False, False
                        why.append(name + ": not linear")
                    elif got != want:
                        ok = False
                        why.append(f"{name}: off by {got - want}")
            chk.decide(rid, op.construct, True if ok else (False if definite else None),
                       f"quartet at {op!r}: " + ("well-formed" if ok else "; ".join(why)), rel=op.rel, node=op.node)
        elif op.type.split("_")[0] in ("Read", "Write") and not op.type.startswith("Write_Forward"):
            n1 = nxt[0]
            lv, x = op.level_step()
            if n1 is None:
                continue        # end of a basic block: decided by the FIRST sets in the thorough tier
            if n1.kind == "call":
                # the callee's sequence starts at its origin 0, shifted by `shift`
                sh = lin_of(n1.shift) if n1.shift is not None else Lin.const(0)
                d = diff_const(sh, x)
                chk.decide(rid, op.construct, True if d == 0 else (False if d is not None else None),
                           f"{op!r} then {n1!r}: the inserted sequence starts at {sh}, checkpoint step {x}", rel=op.rel, node=op.node)
                continue
            if n1.type == "Forward":
                a, _ = n1.span()
                d = diff_const(a, x)
            elif n1.type.startswith("Write_Forward"):
                _, k = n1.level_step()
                d = diff_const(k, x)
                d = None if d is None else d - 1
            elif n1.type.split("_")[0] in ("Write", "Read", "Discard"):
                _, y = n1.level_step()
                d = diff_const(y, x)
            else:
                d = None
            chk.decide(rid, op.construct, True if d == 0 else (False if d is not None else None),
                       f"{op!r} then {n1!r}: next operation starts {d} steps from the checkpoint", rel=op.rel, node=op.node)


def rule_seq_paths(chk, rid, ctx):
    """adjacency along whole production paths (across basic blocks): a load is never directly followed by
    another load (working storage would hold unused restart data), and the operation after a Read/Write(x)
    starts at x"""
    from ..gram import production_paths
    g = Grammar(ctx.repo)
    for fname, b in sorted(g.builders.items()):
        if not b.live:
            continue
        seen = set()
        for conds, items in production_paths(g, fname):
            flat = [x for x in items if not isinstance(x, tuple)]
            for a, z in zip(flat, flat[1:]):
                if a.kind != "op" or z.kind != "op":
                    continue
                if a.run is z.run:
                    continue      # same basic block: decided by the production-local rule
                key = (id(a.node), id(z.node))
                if key in seen:
                    continue
                seen.add(key)
                cons = f"{a.construct}->{z.construct}"
                if a.type.startswith("Read") and z.type.startswith("Read"):
                    chk.decide(rid, cons, False,
                               f"{a!r} is directly followed by {z!r} on the path {[(c[0].lineno, c[1]) for c in conds][-3:]}: a second "
                               "checkpoint is loaded while working storage still holds the unused restart data of the first",
                               rel=b.rel, node=z.node)
                elif a.type.split("_")[0] in ("Read", "Write") and not a.type.startswith("Write_Forward"):
                    _, x = a.level_step()
                    d = None
                    if z.type == "Forward":
                        d = diff_const(z.span()[0], x)
                    elif z.type.startswith("Write_Forward"):
                        d = diff_const(z.level_step()[1], x)
                        d = None if d is None else d - 1
                    elif z.type.split("_")[0] in ("Write", "Discard"):
                        d = diff_const(z.level_step()[1], x)
                    if d is not None:
                        chk.decide(rid, cons, True if d == 0 else False,
                                   f"{a!r} then {z!r} (across blocks): next operation starts {d} steps from the checkpoint",
                                   rel=b.rel, node=z.node)


def rule_paired(chk, rid, ctx):
    """a conditional Write [lvl, x] and the later conditional Read of the same checkpoint must be guarded by the
    same condition (otherwise a checkpoint is written and never read, or read and never written)"""
    from ..poly import PolyBuilder, pkey
    g = Grammar(ctx.repo)
    for fname, b in sorted(g.builders.items()):
        if not b.live:
            continue
        ifs = [n for n in ast.walk(b.fn) if isinstance(n, ast.If) and id(n) not in g.liveness.dead_nodes]
        ifs.sort(key=lambda n: n.lineno)

        def single(body):
            its = [it for it in b.items if it.kind == "op" and any(it.node is s for s in body)]
            return its[0] if len(body) == 1 and len(its) == 1 else None

        def norm(t):
            pb = PolyBuilder()
            if isinstance(t, ast.Compare) and len(t.ops) == 1:
                return (type(t.ops[0]).__name__, pkey(pb.poly(ast.BinOp(t.left, ast.Sub(), t.comparators[0]))))
            return ("?", ast.unparse(t))
        k = 0
        for i, w in enumerate(ifs):
            wop = single(w.body)
            if wop is None or w.orelse or not wop.type.startswith("Write") or wop.type.startswith("Write_Forward"):
                continue
            wl, wx = wop.level_step()
            for r in ifs[i + 1:]:
                rop = single(r.body)
                if rop is None or not rop.type.startswith("Read"):
                    continue
                rl, rx = rop.level_step()
                if diff_const(rx, wx) != 0 or (wl is not None and rl is not None and diff_const(rl, wl) != 0):
                    continue
                same = norm(w.test) == norm(r.test)
                chk.decide(rid, f"{wop.construct}<->{rop.construct}", True if same else False,
                           f"`if {ast.unparse(w.test)}`: {wop!r}  ...  `if {ast.unparse(r.test)}`: {rop!r}: " +
                           ("same condition" if same else "the checkpoint is written under one condition and read back under another"),
                           rel=b.rel, node=w)
                k += 1
                break


def rule_read_level(chk, rid, ctx):
    """hierarchical builders (operations indexed [level, step], a level parameter K): along every production path a
    `Read [lev, x]` finds a checkpoint - one written earlier on the same path (`Write [lev, x]`), or the builder's own
    input, which lives at the builder's level K (lev is K, or the constant that the path conditions give to K)"""
    from ..gram import production_paths
    g = Grammar(ctx.repo)

    def pinned(conds, name):
        """constants that `name` certainly equals on the path: conjuncts `name == c` of tests taken as true"""
        out = set()

        def conj(t):
            if isinstance(t, ast.BoolOp) and isinstance(t.op, ast.And):
                for v in t.values:
                    yield from conj(v)
            else:
                yield t
        for node, val in conds:
            if val is not True:
                continue
            for t in conj(node.test):
                if isinstance(t, ast.Compare) and len(t.ops) == 1 and isinstance(t.ops[0], ast.Eq):
                    a, b_ = t.left, t.comparators[0]
                    if isinstance(b_, ast.Name) and isinstance(a, ast.Constant):
                        a, b_ = b_, a
                    if isinstance(a, ast.Name) and a.id == name and isinstance(b_, ast.Constant) and isinstance(b_.value, int):
                        out.add(b_.value)
        return out
    for fname, b in sorted(g.builders.items()):
        params = [a.arg for a in b.fn.args.args]
        if not b.live or "K" not in params:
            continue
        seen = set()
        stored = {x.id for x in ast.walk(b.fn) if isinstance(x, ast.Name) and isinstance(x.ctx, (ast.Store, ast.Del))}
        for conds, items in production_paths(g, fname):
            # two tests with the same text over names that are never re-assigned have the same outcome on one path
            truth_of, feasible = {}, True
            for node, val in conds:
                if isinstance(val, bool) and not ({x.id for x in ast.walk(node.test) if isinstance(x, ast.Name)} & stored) \
                        and not any(isinstance(x, ast.Call) for x in ast.walk(node.test)):
                    k_ = ast.dump(node.test)
                    if truth_of.setdefault(k_, val) != val:
                        feasible = False
            if not feasible:
                continue
            written = set()
            kvals = pinned(conds, "K")
            flat = []
            for x in items:
                flat += list(x[2]) if isinstance(x, tuple) else [x]
            for it in flat:
                if it.kind != "op" or not (isinstance(it.idx, ast.List) and len(it.idx.elts) == 2):
                    continue
                lv, x = it.level_step()
                if lv is None or x is None:
                    continue
                key = (str(lv), str(x))
                if it.type == "Write":
                    written.add(key)
                elif it.type == "Read":
                    if id(it.node) in seen and key in written:
                        continue
                    ok = None
                    if key in written:
                        ok = True
                    elif str(lv) == "K" or (lv.is_const() and lv.c in kvals):
                        ok = True
                    elif lv.is_const() and not kvals:
                        ok = False
                    if ok is True and id(it.node) in seen:
                        continue
                    seen.add(id(it.node))
                    chk.decide(rid, it.construct + "/level", ok,
                               f"{it!r} on the path {[(c[0].lineno, c[1]) for c in conds][-3:]}: " +
                               ("the checkpoint was written on this path or is the builder's input at level K" if ok else
                                f"nothing was written to level {lv} at step {x} on this path, and the builder's input lives at level K"
                                " (K is not fixed by the path conditions)"), rel=b.rel, node=it.node)


def rule_strip(chk, rid, ctx):
    """`Sequence.remove_useless_wm()` is what the grammar reads as "the leading Write of the inserted sequence is dropped"
    (the checkpoint is already stored by the caller): every branch that recognises a leading write operation must remove
    it before returning - otherwise the converter writes a checkpoint over an existing one"""
    repo = ctx.repo
    rel = "hrevolve_sequences/basic_functions.py"
    try:
        f = repo.method(rel, "Sequence", "remove_useless_wm")
    except Exception:
        return
    k = 0
    for n in ast.walk(f):
        if isinstance(n, ast.If) and any(isinstance(x, ast.Constant) and isinstance(x.value, str) and x.value.startswith(("Write", "Checkpoint"))
                                         for x in ast.walk(n.test)):
            # innermost block that ends the recognition: contains `return self`
            def blocks(stmts):
                if any(isinstance(s_, ast.Return) for s_ in stmts):
                    yield stmts
                for s_ in stmts:
                    if isinstance(s_, ast.If):
                        yield from blocks(s_.body)
            for blk in blocks(n.body):
                removes = any(isinstance(x, ast.Call) and isinstance(x.func, ast.Attribute) and x.func.attr == "remove"
                              for s_ in blk for x in ast.walk(s_))
                chk.decide(rid, f"hrevolve_sequences.basic_functions.Sequence.remove_useless_wm#strip[{k}]", True if removes else False,
                           f"branch `{ast.unparse(n.test)[:70]}` " + ("removes the leading write before returning" if removes else
                           "returns without removing the leading write: the inserted sequence writes the checkpoint again"),
                           rel=rel, node=n, nontrivial=False)
                k += 1


def run(chk, ctx):
    shared.rule_identity(chk, 'C01.LOAD', ctx.repo, [(r_, q_, f_) for r_, q_, f_ in ctx.repo.all_functions()
                                                      if r_ == 'hrevolve.py' and not q_.endswith('._iterator')])
    runs = all_runs(chk, ctx)
    shared.rule_start(chk, "C01.START", runs)
    shared.rule_load(chk, "C01.LOAD", runs)
    rule_label(chk, "C01.LABEL", runs)
    shared.rule_track(chk, "C01.TRACK", runs)
    shared.rule_work(chk, "C01.WORK", runs, hold=False)
    rule_passes(chk, "C01.PASSES", runs)
    rule_seq(chk, "C01.SEQ", ctx)
    rule_paired(chk, "C01.SEQ", ctx)
    rule_seq_paths(chk, "C01.SEQ", ctx)
    rule_read_level(chk, "C01.SEQ", ctx)
    rule_strip(chk, "C01.SEQ", ctx)
    chk.note("not decided: that the split points chosen by the dynamic programs make every sequence executable for all l, "
             "that a loaded checkpoint covers the steps still to be recomputed, and that Mixed's unit re-use never "
             "overwrites a live checkpoint (these depend on run-time table values)")
