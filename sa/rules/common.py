"""helpers shared by the per-property rule modules"""
import ast

from ..interp import Tok, Val, TRUE, FALSE, pure_sym
from ..karr import Lin
from ..model import M, N, R, NPREV, RPREV, ONE, prove_eq, prove_ge, prove_eq_cases

WORK = Tok("StorageType.WORK")
RAM = Tok("StorageType.RAM")
DISK = Tok("StorageType.DISK")
NONE_ST = Tok("StorageType.NONE")


def ycons(run, rec):
    return f"{run.construct}#yield-{rec.kind}[{rec.ordinal}]"


def register(chk, run):
    chk.files.add(run.rel)
    chk.functions.add(run.construct)


def all_runs(chk, ctx):
    runs = list(ctx.model.all_runs())
    for r in runs:
        register(chk, r)
    return runs


def generator_runs(chk, ctx):
    """one representative list of runs per distinct generator function and
    configuration (the four Revolve-family classes share one generator)"""
    return all_runs(chk, ctx)


def last_set(st):
    e = st.enum_get("$last")
    if e and e[0] == "in":
        return set(e[1])
    return None


def finality(run):
    """yield id -> (may_end, may_be_followed_by_another_yield)"""
    it = run.interp
    ids = {rec.yid for rec in it.yields}
    may_follow = {y: False for y in ids}
    may_end = {y: False for y in ids}
    for rec in it.yields:
        ls = last_set(rec.state)
        for y in (ids if ls is None else ls):
            if y in may_follow:
                may_follow[y] = True
    for o in it.outcomes:
        if o.kind in ("end", "return"):
            ls = last_set(o.state)
            for y in (ids if ls is None else ls):
                if y in may_end:
                    may_end[y] = True
    return {y: (may_end[y], may_follow[y]) for y in ids}


def multipass(run):
    """can a Reverse be emitted after an EndReverse in this configuration?"""
    for rec in run.interp.yields:
        if rec.kind == "Reverse" and rec.state.enum_is("$er", "1") != "no":
            return True
    return False


def has_reverse(run):
    return any(rec.kind in ("Reverse", "EndReverse") for rec in run.interp.yields)


def is_lin(v):
    return isinstance(v, Lin)


def recs(it, kinds=None):
    """final-pass yield records, then the records of the first ascending loop iterations (flagged
    .early: local obligations are checked on them for REFUTED verdicts only)"""
    for r in list(it.yields) + list(getattr(it, "early_yields", [])):
        if kinds is None or r.kind in kinds:
            yield r


def tri(chk, rule, cons, res, run, rec, what):
    ok, why = res
    if getattr(rec, "early", False) and ok is not False:
        return ok
    cfg = run.cfg_text()
    chk.decide(rule, cons, ok, f"{what}: {why}" + (f" under {cfg}" if cfg else ""),
               rel=run.rel, node=rec.node)
    return ok


def alias_attr(st, v):
    """the attribute of the schedule (`self.x`) that the value is certainly equal to, if any"""
    s = pure_sym(v)
    if s is None:
        return None
    if s.startswith("self."):
        return s
    for a in sorted(st.symbols() | set(st.enums)):
        if a.startswith("self.") and st.entails_eq(v - Lin.sym(a)) == "yes":
            return a
    return None


def storage_values(st, v, cfg=None):
    """possible StorageType tokens of a storage-valued expression value, or None;
    cfg: attribute valuation of the configuration under consideration"""
    if isinstance(v, Tok):
        return {v.v}
    s = pure_sym(v)
    if s is not None:
        a = alias_attr(st, v)
        if cfg and a in cfg:
            return {cfg[a]}
        e = st.enum_get(s) or (st.enum_get(a) if a else None)
        if e and e[0] == "in":
            return set(e[1])
    return None


def attr_stores(fn):
    """attribute names of `self` stored (assigned/aug-assigned/deleted) in fn"""
    out = set()
    for n in ast.walk(fn):
        if isinstance(n, ast.Attribute) and isinstance(n.ctx, (ast.Store, ast.Del)) \
                and isinstance(n.value, ast.Name) and n.value.id == "self":
            out.add(n.attr)
        if isinstance(n, ast.Call) and isinstance(n.func, ast.Name) and n.func.id in ("setattr", "delattr"):
            out.add("<dynamic>")
    return out


def attr_loads(fn):
    out = set()
    for n in ast.walk(fn):
        if isinstance(n, ast.Attribute) and isinstance(n.ctx, ast.Load) \
                and isinstance(n.value, ast.Name) and n.value.id == "self":
            out.add(n.attr)
    return out


def single_defs(fn):
    """locals with exactly one definition `name = <expr>` in fn (nested functions included) that is not inside a
    loop and whose expression reads only attributes of self, constants and other such locals: name -> expr.
    Substituting them makes syntactic rules independent of hoisting an expression into a local."""
    count, expr, in_loop = {}, {}, set()
    for l in ast.walk(fn):
        if isinstance(l, (ast.For, ast.While)):
            for n in ast.walk(l):
                if isinstance(n, ast.Name) and isinstance(n.ctx, ast.Store):
                    in_loop.add(n.id)
    for n in ast.walk(fn):
        if isinstance(n, ast.Name) and isinstance(n.ctx, (ast.Store, ast.Del)):
            count[n.id] = count.get(n.id, 0) + 1
        if isinstance(n, ast.Assign) and len(n.targets) == 1 and isinstance(n.targets[0], ast.Name):
            expr[n.targets[0].id] = n.value
        if isinstance(n, ast.arg):
            count[n.arg] = count.get(n.arg, 0) + 2
    out = {}
    changed = True
    while changed:
        changed = False
        for name, e in expr.items():
            if name in out or count.get(name) != 1 or name in in_loop:
                continue
            ok = True
            for x in ast.walk(e):
                if isinstance(x, ast.Name) and x.id != "self" and x.id not in out:
                    ok = False
                if isinstance(x, (ast.Call, ast.Subscript, ast.Lambda, ast.IfExp)):
                    ok = False
            if ok:
                out[name] = e
                changed = True
    return out


class SubstDefs(ast.NodeTransformer):
    def __init__(self, defs):
        self.defs = defs

    def visit_Name(self, n):
        if isinstance(n.ctx, ast.Load) and n.id in self.defs:
            import copy
            return self.visit(copy.deepcopy(self.defs[n.id]))
        return n


def subst_defs(node, defs):
    import copy
    return SubstDefs(defs).visit(copy.deepcopy(node)) if defs else node
