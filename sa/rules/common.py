"""helpers shared by the per-property rule modules"""
import ast

from ..interp import Tok, Val, TRUE, FALSE, pure_sym
from ..karr import Lin
from ..model import M, N, R, NPREV, RPREV, ONE, prove_eq, prove_ge, prove_eq_cases

WORK = Tok("StorageType.WORK")
RAM = Tok("StorageType.RAM")
DISK = Tok("StorageType.DISK")
NONE_ST = Tok("StorageType.NONE")


def ycons(run, rec):
    return f"{run.construct}#yield-{rec.kind}[{rec.ordinal}]"


def register(chk, run):
    chk.files.add(run.rel)
    chk.functions.add(run.construct)


def all_runs(chk, ctx):
    runs = list(ctx.model.all_runs())
    for r in runs:
        register(chk, r)
    return runs


def generator_runs(chk, ctx):
    """one representative list of runs per distinct generator function and
    configuration (the four Revolve-family classes share one generator)"""
    return all_runs(chk, ctx)


def last_set(st):
    e = st.enum_get("$last")
    if e and e[0] == "in":
        return set(e[1])
    return None


def finality(run):
    """yield id -> (may_end, may_be_followed_by_another_yield)"""
    it = run.interp
    ids = {rec.yid for rec in it.yields}
    may_follow = {y: False for y in ids}
    may_end = {y: False for y in ids}
    for rec in it.yields:
        ls = last_set(rec.state)
        for y in (ids if ls is None else ls):
            if y in may_follow:
                may_follow[y] = True
    for o in it.outcomes:
        if o.kind in ("end", "return"):
            ls = last_set(o.state)
            for y in (ids if ls is None else ls):
                if y in may_end:
                    may_end[y] = True
    return {y: (may_end[y], may_follow[y]) for y in ids}


def multipass(run):
    """can a Reverse be emitted after an EndReverse in this configuration?"""
    for rec in run.interp.yields:
        if rec.kind == "Reverse" and rec.state.enum_is("$er", "1") != "no":
            return True
    return False


def has_reverse(run):
    return any(rec.kind in ("Reverse", "EndReverse") for rec in run.interp.yields)


def is_lin(v):
    return isinstance(v, Lin)


def recs(it, kinds=None):
    """final-pass yield records, then the records of the first ascending loop iterations (flagged
    .early: local obligations are checked on them for REFUTED verdicts only)"""
    for r in list(it.yields) + list(getattr(it, "early_yields", [])):
        if kinds is None or r.kind in kinds:
            yield r


def tri(chk, rule, cons, res, run, rec, what):
    ok, why = res
    if getattr(run, "owner", None) == "RevolveCheckpointSchedule":
        chk.conv_votes.setdefault((rule, cons), []).append((ok, bool(getattr(rec, "early", False))))
    if getattr(rec, "early", False) and ok is not False:
        return ok
    cfg = run.cfg_text()
    chk.decide(rule, cons, ok, f"{what}: {why}" + (f" under {cfg}" if cfg else ""),
               rel=run.rel, node=rec.node)
    return ok


def alias_attr(st, v):
    """the attribute of the schedule (`self.x`) that the value is certainly equal to, if any"""
    s = pure_sym(v)
    if s is None:
        return None
    if s.startswith("self."):
        return s
    for a in sorted(st.symbols() | set(st.enums)):
        if a.startswith("self.") and st.entails_eq(v - Lin.sym(a)) == "yes":
            return a
    return None


def storage_values(st, v, cfg=None):
    """possible StorageType tokens of a storage-valued expression value, or None;
    cfg: attribute valuation of the configuration under consideration"""
    if isinstance(v, Tok):
        return {v.v}
    s = pure_sym(v)
    if s is not None:
        a = alias_attr(st, v)
        if cfg and a in cfg:
            return {cfg[a]}
        e = st.enum_get(s) or (st.enum_get(a) if a else None)
        if e and e[0] == "in":
            return set(e[1])
    return None


def attr_stores(fn):
    """attribute names of `self` stored (assigned/aug-assigned/deleted) in fn"""
    out = set()
    for n in ast.walk(fn):
        if isinstance(n, ast.Attribute) and isinstance(n.ctx, (ast.Store, ast.Del)) \
                and isinstance(n.value, ast.Name) and n.value.id == "self":
            out.add(n.attr)
        if isinstance(n, ast.Call) and isinstance(n.func, ast.Name) and n.func.id in ("setattr", "delattr"):
            out.add("<dynamic>")
    return out


def attr_loads(fn):
    out = set()
    for n in ast.walk(fn):
        if isinstance(n, ast.Attribute) and isinstance(n.ctx, ast.Load) \
                and isinstance(n.value, ast.Name) and n.value.id == "self":
            out.add(n.attr)
    return out


def single_defs(fn):
    """locals with exactly one definition `name = <expr>` in fn (nested functions included) that is not inside a
    loop and whose expression reads only attributes of self, constants and other such locals: name -> expr.
    Substituting them makes syntactic rules independent of hoisting an expression into a local."""
    count, expr, in_loop = {}, {}, set()
    for l in ast.walk(fn):
        if isinstance(l, (ast.For, ast.While)):
            for n in ast.walk(l):
                if isinstance(n, ast.Name) and isinstance(n.ctx, ast.Store):
                    in_loop.add(n.id)
    for n in ast.walk(fn):
        if isinstance(n, ast.Name) and isinstance(n.ctx, (ast.Store, ast.Del)):
            count[n.id] = count.get(n.id, 0) + 1
        if isinstance(n, ast.Assign) and len(n.targets) == 1 and isinstance(n.targets[0], ast.Name):
            expr[n.targets[0].id] = n.value
        if isinstance(n, ast.arg):
            count[n.arg] = count.get(n.arg, 0) + 2
    out = {}
    # parameters that are never re-assigned are fixed values
    fixed = {a.arg for a in fn.args.args + fn.args.kwonlyargs if count.get(a.arg) == 2}
    changed = True
    while changed:
        changed = False
        for name, e in expr.items():
            if name in out or count.get(name) != 1 or name in in_loop:
                continue
            ok = True
            for x in ast.walk(e):
                if isinstance(x, ast.Name) and x.id != "self" and x.id not in out and x.id not in fixed:
                    ok = False
                if isinstance(x, (ast.Call, ast.Subscript, ast.Lambda, ast.IfExp)):
                    ok = False
            if ok:
                out[name] = e
                changed = True
    return out


class SubstDefs(ast.NodeTransformer):
    def __init__(self, defs):
        self.defs = defs

    def visit_Name(self, n):
        if isinstance(n.ctx, ast.Load) and n.id in self.defs:
            import copy
            return self.visit(copy.deepcopy(self.defs[n.id]))
        return n


def subst_defs(node, defs):
    import copy
    return SubstDefs(defs).visit(copy.deepcopy(node)) if defs else node


def find_cache_wrapper(repo):
    """the function that wraps a class's generator function so that one generator per instance is created:
    a nested function (in CheckpointSchedule.__init_subclass__ or in a module-level function it calls) with the
    instance as only parameter that stores `self.A = F(self)`.  -> (rel, container, wrapper, wrapped name) or None"""
    rel, base = repo.find_class("CheckpointSchedule")
    sub = repo.method(rel, "CheckpointSchedule", "__init_subclass__", required=False)
    if sub is None:
        return None
    containers = [sub]
    for n in ast.walk(sub):
        if isinstance(n, ast.Call) and isinstance(n.func, ast.Name):
            f = repo.func(rel, n.func.id, required=False)
            if f is not None:
                containers.append(f)
    found = []
    for cont in containers:
        for w in ast.walk(cont):
            if not isinstance(w, ast.FunctionDef) or w is cont or len(w.args.args) != 1:
                continue
            first = w.args.args[0].arg
            for a in ast.walk(w):
                # the generator is created by calling the wrapped function on the instance; where it is stored (on the
                # instance, or wrongly on the class / in a closure cell) is what the rules then look at
                if isinstance(a, ast.Assign) and len(a.targets) == 1 and isinstance(a.targets[0], (ast.Attribute, ast.Subscript, ast.Name)) \
                        and isinstance(a.value, ast.Call) and isinstance(a.value.func, ast.Name) \
                        and [ast.unparse(x) for x in a.value.args] == [first]:
                    found.append((rel, cont, w, a.value.func.id))
    uniq = {id(f[2]): f for f in found}
    return list(uniq.values())[0] if len(uniq) == 1 else None


def wrapper_tests(w):
    """attributes whose presence the wrapper tests before creating the generator: hasattr(self, "A"), or
    `try: return self.A / except AttributeError:`"""
    first = w.args.args[0].arg if w.args.args else "self"
    tests = {n.args[1].value for n in ast.walk(w) if isinstance(n, ast.Call) and isinstance(n.func, ast.Name)
             and n.func.id == "hasattr" and len(n.args) == 2 and isinstance(n.args[1], ast.Constant)
             and ast.unparse(n.args[0]) == first}
    for t in ast.walk(w):
        if isinstance(t, ast.Try) and t.handlers and all(
                h.type is not None and ast.unparse(h.type) in ("AttributeError", "(AttributeError,)") for h in t.handlers):
            for x in t.body:
                for n in ast.walk(x):
                    if isinstance(n, ast.Attribute) and isinstance(n.ctx, ast.Load) and isinstance(n.value, ast.Name) \
                            and n.value.id == first:
                        tests.add(n.attr)
    return tests
