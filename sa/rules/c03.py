"""C03 - declared RAM and disk checkpoint budgets are never exceeded.

  UNITS  every n_advance(steps, units) call has units == capacity - depth (+1 directly
         after a Copy of the re-usable top element); every push keeps depth <= capacity,
         capacity = sum of the unit attributes (+ the seeded forward-sweep checkpoint)
  GUARD  capacity raise-guards compare the depth against exactly that capacity
  SLICE  allocate_snapshots labels at most `snapshots_in_ram` stack positions RAM; the
         two single-storage constructor branches produce exactly the declared counts
  KIND   a checkpoint holds restart data or one step's adjoint dependencies, never both;
         an adjoint-dependency checkpoint covers exactly one step
  TRACK  (Revolve family) the converter's tracking key identifies a checkpoint the way
         the emitted actions do: by (storage, step)
"""
import ast

from .common import *
from . import shared
from ..gram import lin_of
from ..interp import truth


def guards(chk, ctx, runs):
    """raise-guards comparing len(container) with an expression: the expression must be
    the declared capacity"""
    for run_ in runs:
        it = run_.interp
        if run_.owner == shared.CONVERTER or not it.containers:
            continue
        cap, attrs = shared.declared_capacity(ctx.repo, run_)
        if cap is None:
            continue
        seeds = shared.seeds_of(it)
        k = 0
        for node in ast.walk(run_.fn):
            if not (isinstance(node, ast.If) and node.body and isinstance(node.body[0], ast.Raise)):
                continue
            t = node.test
            if not (isinstance(t, ast.Compare) and len(t.ops) == 1 and isinstance(t.left, ast.Call)
                    and isinstance(t.left.func, ast.Name) and t.left.func.id == "len" and t.left.args
                    and isinstance(t.left.args[0], ast.Name)):
                continue
            c = t.left.args[0].id
            if c not in it.containers or not isinstance(t.ops[0], (ast.GtE, ast.Gt)):
                continue
            rhs = attr_lin(subst_defs(t.comparators[0], single_defs(run_.fn)))
            cons = f"{run_.construct}#capacity-guard[{k}]"
            k += 1
            if rhs is None:
                chk.decide("C03.GUARD", cons, None, f"unrecognised guard {ast.unparse(t)}", rel=run_.rel, node=node)
                continue
            # guard fires when len >= bound ; the push follows, so len_after <= bound
            bound = rhs if isinstance(t.ops[0], ast.GtE) else rhs + ONE
            want = cap + Lin.const(seeds.get(c, 0))
            d = bound - want
            # the guard is an internal consistency check: the unit arithmetic (C03.UNITS) is what keeps the depth within the
            # capacity, and it never lets the guard fire.  A guard with another bound is therefore not a violation by
            # itself (a weaker one changes nothing, a tighter one would raise spuriously): undecided, not refuted
            chk.decide("C03.GUARD", cons, True if (d.is_const() and d.c == 0) else None,
                       f"guard `{ast.unparse(t)}` bounds the depth of {c} by {bound}; declared capacity is {want} "
                       f"(difference {d})", rel=run_.rel, node=node)


def attr_lin(node):
    if isinstance(node, ast.Constant) and isinstance(node.value, int) and not isinstance(node.value, bool):
        return Lin.const(node.value)
    if isinstance(node, ast.Attribute) and isinstance(node.value, ast.Name) and node.value.id == "self":
        return Lin.sym("self." + node.attr)
    if isinstance(node, ast.Name):
        return Lin.sym(node.id)
    if isinstance(node, ast.BinOp) and isinstance(node.op, (ast.Add, ast.Sub)):
        a, b = attr_lin(node.left), attr_lin(node.right)
        if a is None or b is None:
            return None
        return a + b if isinstance(node.op, ast.Add) else a - b
    return None


def slice_rules(chk, ctx):
    repo = ctx.repo
    rel = "multistage.py"
    fn = repo.func(rel, "allocate_snapshots")
    chk.files.add(rel)
    chk.functions.add(f"{rel[:-3]}.allocate_snapshots")
    # the RAM positions are a slice [:bound] of the ranked positions
    found = 0
    for n in ast.walk(fn):
        if isinstance(n, ast.For) and isinstance(n.iter, ast.Subscript) and isinstance(n.iter.slice, ast.Slice):
            sets_ram = any(isinstance(a, ast.Assign) and isinstance(a.value, ast.Attribute) and a.value.attr == "RAM"
                           for a in ast.walk(n))
            if not sets_ram:
                continue
            found += 1
            sl = n.iter.slice
            cons = f"{rel[:-3]}.allocate_snapshots#ram-slice"
            if sl.lower is not None or sl.step is not None or sl.upper is None:
                chk.decide("C03.SLICE", cons, None, f"unrecognised slice {ast.unparse(n.iter)}", rel=rel, node=n)
                continue
            up = lin_of(sl.upper)
            if up is None:
                chk.decide("C03.SLICE", cons, None, f"non-linear bound {ast.unparse(sl.upper)}", rel=rel, node=n)
                continue
            d = up - Lin.sym("snapshots_in_ram")
            chk.decide("C03.SLICE", cons, True if (d.is_const() and d.c == 0) else (False if d.is_const() and d.c > 0 else None),
                       f"RAM labels go to the first {ast.unparse(sl.upper)} ranked positions; declared RAM units: "
                       f"snapshots_in_ram (difference {d})", rel=rel, node=n)
            # the bound must not have been raised above the parameter
            assigns = [a for a in ast.walk(fn) if isinstance(a, ast.Assign) and len(a.targets) == 1
                       and isinstance(a.targets[0], ast.Name) and a.targets[0].id == "snapshots_in_ram"]
            ok = all(isinstance(a.value, ast.Call) and isinstance(a.value.func, ast.Name) and a.value.func.id == "min"
                     and any(isinstance(x, ast.Name) and x.id == "snapshots_in_ram" for x in a.value.args)
                     for a in assigns)
            chk.decide("C03.SLICE", cons + "/param", True if ok else None,
                       "snapshots_in_ram is only ever lowered (min with max_n - 1) before the slice", rel=rel, node=n,
                       nontrivial=False)
    if not found:
        # no slice: which loop labels positions RAM, and what bounds the number of labels?
        loops = [n for n in ast.walk(fn) if isinstance(n, (ast.For, ast.While)) and any(
            isinstance(a, ast.Assign) and isinstance(a.value, ast.Attribute) and a.value.attr == "RAM" for a in ast.walk(n))]
        cons = f"{rel[:-3]}.allocate_snapshots#ram-slice"
        verdict, why = None, "RAM labelling loop not recognised"
        for lp in loops:
            guards = [g for g in ast.walk(lp) if isinstance(g, ast.If) and any(
                isinstance(a, ast.Assign) and isinstance(a.value, ast.Attribute) and a.value.attr == "RAM" for a in ast.walk(g))]
            idx_names = {n.id for n in ast.walk(lp.target) if isinstance(n, ast.Name)} if isinstance(lp, ast.For) else set()
            counters = {a.target.id for a in ast.walk(lp) if isinstance(a, ast.AugAssign) and isinstance(a.target, ast.Name)}
            if not guards:
                it = lp.iter if isinstance(lp, ast.For) else None
                if isinstance(it, ast.Call) and getattr(it.func, "id", None) == "range" and len(it.args) == 1:
                    d = lin_of(it.args[0])
                    if d is not None:
                        dd = d - Lin.sym("snapshots_in_ram")
                        verdict = True if (dd.is_const() and dd.c <= 0) else (False if dd.is_const() else None)
                        why = f"RAM labels for range({ast.unparse(it.args[0])})"
                continue
            for gnode in guards:
                t = gnode.test
                names = {n.id for n in ast.walk(t) if isinstance(n, ast.Name)}
                positional = isinstance(t, ast.Compare) and len(t.ops) == 1 and isinstance(t.left, ast.Name) and \
                    (t.left.id in counters or (isinstance(lp, ast.For) and isinstance(lp.target, ast.Tuple)
                                               and isinstance(lp.target.elts[0], ast.Name) and t.left.id == lp.target.elts[0].id))
                if positional and isinstance(t.ops[0], (ast.Lt, ast.LtE)):
                    d = lin_of(t.comparators[0])
                    if d is not None:
                        bound = d if isinstance(t.ops[0], ast.Lt) else d + Lin.const(1)
                        dd = bound - Lin.sym("snapshots_in_ram")
                        verdict = True if (dd.is_const() and dd.c <= 0) else (False if dd.is_const() else None)
                        why = f"RAM labels while `{ast.unparse(t)}`"
                elif isinstance(t, ast.Compare) and any(isinstance(x, ast.Name) and ("weight" in x.id) for x in ast.walk(t)) \
                        or (isinstance(t, ast.Compare) and any(isinstance(x, ast.Subscript) and getattr(x.value, "id", "") == "weights"
                                                               for x in ast.walk(t))):
                    verdict = False
                    why = (f"positions are labelled RAM by the value test `{ast.unparse(t)}`: nothing bounds their number by "
                           "snapshots_in_ram (equal weights on both sides of the cut all go to RAM), so more RAM units are used than declared")
        chk.decide("C03.SLICE", cons, verdict, why, rel=rel, node=loops[0] if loops else fn)
    # default allocation is DISK
    alloc = [a for a in ast.walk(fn) if isinstance(a, ast.Assign) and isinstance(a.value, ast.ListComp)
             and isinstance(a.value.elt, ast.Attribute) and a.value.elt.attr in ("DISK", "RAM")]
    for a in alloc:
        chk.decide("C03.SLICE", f"{rel[:-3]}.allocate_snapshots#default", True if a.value.elt.attr == "DISK" else False,
                   f"positions not selected for RAM are labelled {a.value.elt.attr}", rel=rel, node=a, nontrivial=False)
    # constructor branches: tuple(LABEL for _ in range(COUNT))
    init = repo.method(rel, "MultistageCheckpointSchedule", "__init__")
    chk.functions.add(f"{rel[:-3]}.MultistageCheckpointSchedule.__init__")
    k = 0
    for a in ast.walk(init):
        if isinstance(a, ast.Assign) and isinstance(a.value, ast.Call) and isinstance(a.value.func, ast.Name) \
                and a.value.func.id == "tuple" and a.value.args and isinstance(a.value.args[0], ast.GeneratorExp):
            ge = a.value.args[0]
            lab = ge.elt.attr if isinstance(ge.elt, ast.Attribute) else None
            it = ge.generators[0].iter
            cnt = lin_of(it.args[0]) if isinstance(it, ast.Call) and isinstance(it.func, ast.Name) and it.func.id == "range" \
                and len(it.args) == 1 else None
            cons = f"{rel[:-3]}.MultistageCheckpointSchedule.__init__#labels[{k}]"
            k += 1
            if lab not in ("RAM", "DISK") or cnt is None:
                chk.decide("C03.SLICE", cons, None, f"unrecognised label tuple {ast.unparse(a.value)}", rel=rel, node=a)
                continue
            want = Lin.sym("snapshots_in_ram" if lab == "RAM" else "snapshots_on_disk")
            d = cnt - want
            chk.decide("C03.SLICE", cons, True if (d.is_const() and d.c == 0) else (False if d.is_const() else None),
                       f"{ast.unparse(a.value)}: {cnt} labels {lab}, declared {want}", rel=rel, node=a)


def kind_rules(chk, runs):
    for run_ in runs:
        for rec in run_.interp.yields:
            if rec.kind != "Forward":
                continue
            st, cons = rec.state, ycons(run_, rec)
            wi, wa = truth(st, rec.arg(2)), truth(st, rec.arg(3))
            sto = rec.arg(4)
            if wi is None or wa is None:
                if run_.owner != shared.CONVERTER:
                    chk.decide("C03.KIND", cons, None, "write flags not resolved", rel=run_.rel, node=rec.node)
                continue
            chk.decide("C03.KIND", cons, False if (wi and wa) else True,
                       "restart data and adjoint dependencies in one checkpoint" if (wi and wa) else
                       f"flags ({wi}, {wa}): one kind of data", rel=run_.rel, node=rec.node, nontrivial=False)
            if wa and sto != WORK and is_lin(rec.arg(0)) and is_lin(rec.arg(1)):
                if run_.cname == "SingleMemoryStorageSchedule" or run_.owner == shared.CONVERTER:
                    continue
                tri(chk, "C03.KIND", cons + "/unit", prove_eq(st, rec.arg(1) - rec.arg(0) - ONE), run_, rec,
                    "length of a Forward storing adjoint dependencies in a checkpoint minus 1")


def same_value(st, sym, v):
    """'yes' if location sym certainly holds the value v"""
    if is_lin(v):
        if st.entails_eq(Lin.sym(sym) - v) == "yes":
            return "yes"
        s2 = pure_sym(v)
        if s2 and st.enum_single(sym) is not None and st.enum_single(sym) == st.enum_single(s2):
            return "yes"
        return "unknown"
    if isinstance(v, Tok):
        return "yes" if st.enum_single(sym) == v.v else "unknown"
    return "unknown"


def key_rule(chk, rid, runs):
    """tracking key vs. the storages one generator addresses"""
    chk.describe(rid, "the tracking key of a generator that addresses two storages identifies a checkpoint by (storage, step)")
    for run_ in runs:
        it = run_.interp
        if not it.containers:
            continue
        # source storages of the loads that are variables with more than one possible value
        multi = False
        for rec in it.yields:
            if rec.kind in ("Copy", "Move"):
                src = rec.arg(1)
                s = pure_sym(src)
                from_table = any(rec.state.entails_eq(src - Lin.sym(a)) == "yes" for a in it.label_atoms) \
                    if is_lin(src) else False
                sv = storage_values(rec.state, src)
                # a local that merely holds an attribute of the schedule (or a constant) does not vary per operation
                is_attr = is_lin(src) and any(rec.state.entails_eq(src - Lin.sym(a)) == "yes"
                                              for a in rec.state.symbols() if a.startswith("self."))
                # a storage that is a component of the stack element being read travels with that element: the element
                # is identified by its position, not by a (storage, step) key
                carried = is_lin(src) and any(rec.state.entails_eq(src - Lin.sym(a)) == "yes"
                                              for a in rec.state.symbols() if a.startswith(("top(", "popped(")))
                if s and not s.startswith("self.") and not from_table and not is_attr and not carried and (sv is None or len(sv) > 1):
                    multi = True
        if not multi:
            continue
        for c in sorted(it.containers):
            pushes = [(node, vals, st) for node, cc, op, vals, st in it.cops if cc == c and op == "push"]
            if not pushes:
                continue
            scalar = all(len(vals) == 1 for _, vals, _ in pushes)
            cons = f"{run_.construct}#key({c})"
            if scalar:
                chk.decide(rid, cons, False,
                           f"{run_.owner} reads checkpoints from a storage that varies per operation (RAM or DISK) but records "
                           f"only the bare step in `{c}`: a RAM and a DISK checkpoint of one step share a key, and the Move-vs-Copy "
                           "decision and the final leftover guard cannot see the storage level", rel=run_.rel, node=pushes[0][0])
                continue
            # tuple keys: the storage component must be the storage the write names, and the
            # element removed at a Move must carry the storage the Move reads from
            ok = True
            why = []
            for rec in it.yields:
                st = rec.state
                trk = st.enum_get(f"$trk({c})")
                if rec.kind == "Forward" and trk == ("in", frozenset(["P"])):
                    sto = rec.arg(4)
                    r = same_value(st, f"top({c}).0", sto)
                    if r != "yes":
                        ok = None if ok else ok
                        why.append(f"storage component of the key pushed before {rec.yid} is not the storage written to")
                if rec.kind == "Move" and trk == ("in", frozenset(["X"])):
                    src = rec.arg(1)
                    r = same_value(st, f"popped({c}).0", src)
                    if r != "yes":
                        ok = None if ok else ok
                        why.append(f"storage component of the key removed before {rec.yid} is not the storage moved from")
            chk.decide(rid, cons, ok, "tracking key is (storage, step) and both components agree with the emitted actions"
                       if ok else "; ".join(sorted(set(why))), rel=run_.rel, node=pushes[0][0])
        # the Move-vs-Copy decision of such a generator must look at the storage it reads from
        import ast as _ast
        k = 0
        for n in sorted((x for x in _ast.walk(run_.fn) if isinstance(x, _ast.If)), key=lambda x: x.lineno):
            ys = lambda body: {getattr(y.value.func, "id", "") for s in body for y in _ast.walk(s)
                               if isinstance(y, _ast.Yield) and isinstance(y.value, _ast.Call)}
            a, b = ys(n.body), ys(n.orelse)
            if ("Move" in a and "Copy" in b) or ("Copy" in a and "Move" in b):
                mv = [y for s in n.body + n.orelse for y in _ast.walk(s) if isinstance(y, _ast.Yield)
                      and getattr(y.value.func, "id", "") in ("Move", "Copy")]
                srcs = {y.value.args[1].id for y in mv if len(y.value.args) > 1 and isinstance(y.value.args[1], _ast.Name)}
                names = {x.id for x in _ast.walk(n.test) if isinstance(x, _ast.Name)}
                cons2 = f"{run_.construct}#move-decision[{k}]"
                k += 1
                if srcs:
                    dep = bool(srcs & names)
                    chk.decide(rid, cons2, True if dep else False,
                               f"Move-vs-Copy is decided by `{_ast.unparse(n.test)[:80]}`" + (
                                   ": it takes the storage read from into account" if dep else
                                   f": it ignores the storage read from ({sorted(srcs)}), so the last read of a checkpoint on one "
                                   "level is judged by a rule that only fits the other"), rel=run_.rel, node=n)


def chosen_storage_rule(chk, ctx, runs):
    """Mixed: the constructor takes one storage for all checkpoints and stores it in one attribute; the budget
    (`snapshots` units) is declared for that storage only, so every checkpoint write must name that attribute's value.
    A literal label (or another attribute) puts a checkpoint into a storage whose budget is 0."""
    from .c01 import label_repr, labels_agree
    cname = "MixedCheckpointSchedule"
    try:
        rel, c, f = ctx.repo.resolve_method(cname, "__init__")
    except Exception:
        return
    attrs = [t.attr for x in ast.walk(f) if isinstance(x, ast.Assign) and isinstance(x.value, ast.Name) and x.value.id == "storage"
             for t in x.targets if isinstance(t, ast.Attribute) and isinstance(t.value, ast.Name) and t.value.id == "self"]
    for run_ in runs:
        if run_.cname != cname:
            continue
        for rec in recs(run_.interp):
            if rec.kind != "Forward":
                continue
            v = rec.arg(4, "storage")
            if v == WORK:
                continue
            cons = ycons(run_, rec) + "/chosen"
            if len(attrs) != 1:
                chk.decide("C03.DECLARED", cons, None, f"the constructor stores its `storage` argument in {attrs}", rel=run_.rel, node=rec.node)
                continue
            st = rec.state
            lab, ref = label_repr(st, v, run_.interp), label_repr(st, Lin.sym("self." + attrs[0]), run_.interp)
            if lab is not None and ref is not None and lab[0] == "sym" and lab[1] == ref[1]:
                ok = True
            else:
                ok = labels_agree(lab, ref)
            chk.decide("C03.DECLARED", cons, ok,
                       f"checkpoint written to {ast.unparse(rec.node.value.args[4]) if len(rec.node.value.args) > 4 else lab}; the "
                       f"budget is declared for self.{attrs[0]}" + ("" if ok else
                       ": in a configuration where they differ the checkpoint goes to a storage with no declared units"),
                       rel=run_.rel, node=rec.node, nontrivial=False)


def slots_rule(chk, ctx):
    """Revolve family: the slot counts handed to the sequence builders and recorded by the base class are the declared
    unit counts - level 0 (RAM) gets snapshots_in_ram, level 1 (DISK) snapshots_on_disk, the number of steps is max_n - 1.
    (What the dynamic programs do with the slots is not decided; a schedule planned for other slot counts than the
    declared ones exceeds or wastes the budget.)"""
    import ast as _ast
    from ..gram import lin_of
    repo = ctx.repo
    rel = "hrevolve.py"
    chk.describe("C03.SLOTS", "Revolve family: the sequence builder and the base class receive the declared unit counts")
    spec = {"HRevolve": ("hrevolve", ("snapshots_in_ram", "snapshots_on_disk"), "snapshots_on_disk"),
            "DiskRevolve": ("disk_revolve", "snapshots_in_ram", None),
            "PeriodicDiskRevolve": ("periodic_disk_revolve", "snapshots_in_ram", None),
            "Revolve": ("revolve", "snapshots_in_ram", 0)}
    for cname, (entry, slots, disk_decl) in spec.items():
        try:
            init = repo.method(rel, cname, "__init__")
        except Exception:
            continue
        defs = single_defs(init)
        for n in _ast.walk(init):
            if isinstance(n, _ast.Assign) and len(n.targets) == 1 and isinstance(n.targets[0], _ast.Name) \
                    and isinstance(n.value, (_ast.Tuple, _ast.List)) and n.targets[0].id not in defs \
                    and sum(1 for x in _ast.walk(init) if isinstance(x, _ast.Name) and x.id == n.targets[0].id
                            and isinstance(x.ctx, _ast.Store)) == 1:
                defs[n.targets[0].id] = n.value
        calls = [c for c in _ast.walk(init) if isinstance(c, _ast.Call) and getattr(c.func, "id", None) == entry]
        base = f"hrevolve.{cname}.__init__"
        # positional and keyword arguments, bound through the builder's own parameter list
        ecands = [f_ for r_, q_, f_ in repo.all_functions() if q_ == entry and r_.startswith("hrevolve_sequences/")]
        eparams = [a.arg for a in ecands[0].args.args] if len(ecands) == 1 else []
        bound_e = {}
        if len(calls) == 1:
            bound_e = dict(zip(eparams, calls[0].args))
            for kw_ in calls[0].keywords:
                if kw_.arg:
                    bound_e[kw_.arg] = kw_.value
        if len(calls) != 1 or len(eparams) < 2 or eparams[0] not in bound_e or eparams[1] not in bound_e:
            chk.decide("C03.SLOTS", base + "#builder-call", None, f"call of {entry} not found", rel=rel, node=init)
            continue
        call = calls[0]
        call_args = [bound_e[eparams[0]], bound_e[eparams[1]]]
        steps = lin_of(subst_defs(call_args[0], defs))
        want = Lin.sym("max_n") - ONE
        d = (steps - want) if steps is not None else None
        chk.decide("C03.SLOTS", base + "#steps", True if (d is not None and d.is_const() and d.c == 0) else
                   (False if (d is not None and d.is_const()) else None),
                   f"{entry}({_ast.unparse(call_args[0])}, ...): number of steps handed to the builder vs max_n - 1", rel=rel, node=call,
                   nontrivial=False)
        a1 = subst_defs(call_args[1], defs)
        if isinstance(slots, tuple):
            ok = None
            if isinstance(a1, (_ast.Tuple, _ast.List)) and len(a1.elts) == len(slots):
                got = [e.id if isinstance(e, _ast.Name) else None for e in a1.elts]
                ok = True if got == list(slots) else (False if all(g is not None for g in got) else None)
            chk.decide("C03.SLOTS", base + "#slots", ok,
                       f"slot vector {_ast.unparse(a1)}: level 0 (RAM) must get snapshots_in_ram, level 1 (DISK) snapshots_on_disk"
                       + ("" if ok is not False else ": the schedule is planned for other unit counts than the declared ones"),
                       rel=rel, node=call)
        else:
            ok = True if (isinstance(a1, _ast.Name) and a1.id == slots) else (False if isinstance(a1, (_ast.Name, _ast.Constant)) else None)
            chk.decide("C03.SLOTS", base + "#slots", ok, f"memory slots {_ast.unparse(a1)} vs the declared {slots}", rel=rel, node=call)
        sup = [c for c in _ast.walk(init) if isinstance(c, _ast.Call) and isinstance(c.func, _ast.Attribute) and c.func.attr == "__init__"
               and isinstance(c.func.value, _ast.Call) and getattr(c.func.value.func, "id", None) == "super"]
        sargs = {}
        if len(sup) == 1:
            sargs = dict(zip(["max_n", "snapshots_in_ram", "snapshots_on_disk", "schedule"], sup[0].args))
            for kw_ in sup[0].keywords:
                if kw_.arg:
                    sargs[kw_.arg] = kw_.value
        if len(sup) == 1 and "snapshots_in_ram" in sargs and "snapshots_on_disk" in sargs:
            r_, d_ = subst_defs(sargs["snapshots_in_ram"], defs), subst_defs(sargs["snapshots_on_disk"], defs)
            okr = True if (isinstance(r_, _ast.Name) and r_.id == "snapshots_in_ram") else (False if isinstance(r_, (_ast.Name, _ast.Constant)) else None)
            if isinstance(disk_decl, str):
                okd = True if (isinstance(d_, _ast.Name) and d_.id == disk_decl) else (False if isinstance(d_, (_ast.Name, _ast.Constant)) else None)
            else:
                from ..interp import module_number
                params_ = {a.arg for a in init.args.args}
                if isinstance(d_, _ast.Constant) and d_.value == disk_decl:
                    okd = True
                elif disk_decl is None and isinstance(d_, _ast.Name) and d_.id not in params_ and module_number(d_.id) == "inf":
                    okd = True      # "no bound", spelled as an infinite count
                elif isinstance(d_, _ast.Name) and d_.id in params_:
                    okd = False     # another of the constructor's own parameters is recorded as the disk budget
                elif isinstance(d_, _ast.Constant):
                    okd = False
                else:
                    okd = None
            chk.decide("C03.SLOTS", base + "#declared", True if (okr and okd) else (False if (okr is False or okd is False) else None),
                       f"base class records ({_ast.unparse(r_)}, {_ast.unparse(d_)}) as (RAM, DISK) unit counts; declared "
                       f"(snapshots_in_ram, {disk_decl})", rel=rel, node=sup[0], nontrivial=False)


def run(chk, ctx):
    chk.describe("C03.GUARD", "capacity raise-guards bound the depth by the declared capacity")
    chk.describe("C03.SLICE", "RAM labels: at most the declared number of stack positions")
    chk.describe("C03.KIND", "one kind of data per checkpoint; adjoint-dependency checkpoints cover one step")
    runs = all_runs(chk, ctx)
    shared.rule_units(chk, "C03.UNITS", runs, ctx.repo)
    # unit accounting (capacity - depth) is only right if the depth is the number of stored checkpoints
    shared.rule_track(chk, "C03.PAIR", [r for r in runs if r.owner != shared.CONVERTER])
    shared.rule_config(chk, "C03.CONFIG", ctx, mode="le")
    shared.rule_declared(chk, "C03.DECLARED", ctx)
    guards(chk, ctx, runs)
    slice_rules(chk, ctx)
    kind_rules(chk, runs)
    key_rule(chk, "C03.TRACK", runs)
    slots_rule(chk, ctx)
    chosen_storage_rule(chk, ctx, runs)
    chk.note("not decided: that the slot arguments (cmem, cvect) of the Revolve/H-Revolve dynamic programs bound the number "
             "of simultaneously held checkpoints - a statement about run-time table values")
