"""C19 - PeriodicDiskRevolve really is periodic, with a period independent of n.

  INDEP  in periodic_disk_revolve the period `mx` does not depend (data or control)
         on the number of steps `l` (flow-insensitive dependence closure over live code)
  SWEEP  the write loop advances `current_task` from 0 in steps of mx while more than mx
         steps remain, emitting Write_disk(current_task); Forward [current_task,
         current_task + mx]; the read loop walks back by the same mx and reads
         Read_disk(current_task) exactly once per iteration, each segment being
         delegated to revolve(mx - 1, cm) shifted to the segment start
  ONLY   no other live Write_disk is reachable from periodic_disk_revolve; every segment
         is reversed by the memory-only builder `revolve` with the declared cm
  FORM   mxrr_close_formula and beta have the shape of their descriptors
         (min t: beta(cm+1, t) > (wd+rd)/uf, result beta(cm, t); beta(x,y) = (x+y)!/(x! y!))
"""
import ast

from ..gram import Grammar, lin_of, diff_const, reachable
from ..poly import PolyBuilder, pkey, pstr, patom, pconst, padd
from .common import *

REL = "hrevolve_sequences/periodic_disk_revolve.py"
FN = "periodic_disk_revolve"


def deps_closure(fn, live):
    """name -> set of names it depends on (data + control), flow-insensitive, live code only"""
    direct = {}

    def names(e):
        return {n.id for n in ast.walk(e) if isinstance(n, ast.Name)} if e is not None else set()

    def visit(stmts, ctrl):
        for s in stmts:
            if id(s) in live.dead_nodes:
                continue
            if isinstance(s, ast.Assign):
                for t in s.targets:
                    for n in ast.walk(t):
                        if isinstance(n, ast.Name):
                            direct.setdefault(n.id, set()).update(names(s.value) | ctrl)
            elif isinstance(s, ast.AugAssign) and isinstance(s.target, ast.Name):
                direct.setdefault(s.target.id, set()).update(names(s.value) | ctrl | {s.target.id})
            elif isinstance(s, (ast.If, ast.While)):
                c = ctrl | names(s.test)
                visit(s.body, c)
                visit(s.orelse, c)
            elif isinstance(s, ast.For):
                c = ctrl | names(s.iter)
                for n in ast.walk(s.target):
                    if isinstance(n, ast.Name):
                        direct.setdefault(n.id, set()).update(c)
                visit(s.body, c)
                visit(s.orelse, c)
    visit(fn.body, set())
    closure = {}
    for v in direct:
        seen, todo = set(), [v]
        while todo:
            x = todo.pop()
            for y in direct.get(x, ()):
                if y not in seen:
                    seen.add(y)
                    todo.append(y)
        closure[v] = seen
    return closure, direct


def run(chk, ctx):
    chk.describe("C19.INDEP", "the period mx does not depend on the number of steps l")
    chk.describe("C19.SWEEP", "write loop and read loop mirror each other with the same step mx")
    chk.describe("C19.ONLY", "Write_disk only in the initial sweep; segments reversed by revolve(., cm)")
    chk.describe("C19.FORM", "closed form of the period and beta match their descriptors")
    repo = ctx.repo
    g = Grammar(repo)
    live = g.liveness
    fn = repo.func(REL, FN)
    chk.files.add(REL)
    chk.functions.add(f"{REL[:-3]}.{FN}")
    b = g.builders.get(FN)
    cons0 = f"{REL[:-3].replace('/', '.')}.{FN}"
    lparam = fn.args.args[0].arg
    # ---- INDEP
    closure, direct = deps_closure(fn, live)
    period = None
    # the period is the increment of the sweep loop
    sweep, readl = None, None
    for n in ast.walk(fn):
        if isinstance(n, (ast.While, ast.For)) and id(n) not in live.dead_nodes:
            ops = [it for it in b.items if it.kind == "op" and it.live and any(x is it.node for x in ast.walk(n))]
            types = {o.type for o in ops}
            if "Write_disk" in types:
                sweep = (n, ops)
            elif "Read_disk" in types:
                readl = (n, ops)
    if sweep is None or readl is None or isinstance(sweep[0], ast.For):
        sweep = readl = None
        ff = for_form(chk, g, live, fn, b, cons0, lparam)
        if not ff:
            chk.decide("C19.SWEEP", cons0 + "#loops", None, "sweep / read loops not found", rel=REL, node=fn)
            form(chk, repo)
            return
        sweep, readl, per = ff
        # the period must not depend on l
        closure, direct = deps_closure(fn, live)
        dep = closure.get(per, set()) | {per}
        chk.decide("C19.INDEP", cons0 + "#period", True if lparam not in dep else False,
                   f"period `{per}` depends on {sorted(dep - {per})[:12]}", rel=REL, node=sweep[0])
        only_and_form(chk, g, fn, cons0, sweep, readl, None, None, repo)
        return
    incs = [s for s in sweep[0].body if isinstance(s, ast.AugAssign) and isinstance(s.op, ast.Add) and isinstance(s.target, ast.Name)]
    if len(incs) != 1:
        chk.decide("C19.SWEEP", cons0 + "#sweep-step", None, "sweep loop has no single `var += step`", rel=REL, node=sweep[0])
        return
    var = incs[0].target.id
    step = lin_of(incs[0].value)
    pnames = {n.id for n in ast.walk(incs[0].value) if isinstance(n, ast.Name)}
    dep = set()
    for p in pnames:
        dep |= closure.get(p, set()) | {p}
    ok = lparam not in dep
    chk.decide("C19.INDEP", cons0 + "#period", True if ok else False,
               f"period `{ast.unparse(incs[0].value)}` depends on {sorted(dep - pnames)[:12]}" +
               ("" if ok else f": it depends on the number of steps `{lparam}` "
                f"(via {sorted(x for x in pnames if lparam in closure.get(x, ()) or x == lparam)})"), rel=REL, node=incs[0])
    # ---- SWEEP
    sops = {o.type: o for o in sweep[1]}
    w, f = sops.get("Write_disk"), sops.get("Forward")
    if w is None or f is None or step is None:
        chk.decide("C19.SWEEP", cons0 + "#sweep-body", None, "sweep body not recognised", rel=REL, node=sweep[0])
    else:
        _, widx = w.level_step()
        a, z = f.span()
        checks = [("Write_disk index is the loop position", diff_const(widx, Lin.sym(var)), 0),
                  ("Forward starts at the loop position", diff_const(a, Lin.sym(var)), 0)]
        d = (z - a - step) if (z is not None and a is not None) else None
        checks.append(("Forward length equals the loop increment", d.c if d is not None and d.is_const() else None, 0))
        order = [s for s in sweep[0].body]
        pos = {id(s): i for i, s in enumerate(order)}
        checks.append(("position is advanced after the Forward", 0 if pos.get(id(incs[0]), -1) > pos.get(id(f.node), 99) else 1, 0))
        for name, got, want in checks:
            chk.decide("C19.SWEEP", cons0 + f"#sweep/{name.split()[0].lower()}-{checks.index((name, got, want))}",
                       True if got == want else (False if got is not None else None),
                       f"{name}: " + ("ok" if got == want else f"off by {got}"), rel=REL, node=sweep[0])
        # guard: l - var > step
        t = sweep[0].test
        gok = None
        if isinstance(t, ast.Compare) and len(t.ops) == 1:
            l_, r_ = lin_of(t.left), lin_of(t.comparators[0])
            if l_ is not None and r_ is not None:
                d = l_ - r_ if isinstance(t.ops[0], (ast.Gt, ast.GtE)) else r_ - l_
                want = Lin.sym(lparam) - Lin.sym(var) - step
                dd = d - want
                strict = isinstance(t.ops[0], (ast.Gt, ast.Lt))
                gok = True if (dd.is_const() and dd.c == 0 and strict) else (False if dd.is_const() else None)
        chk.decide("C19.SWEEP", cons0 + "#sweep/guard", gok,
                   f"sweep continues while `{ast.unparse(t)}` (required: more than one period remains)", rel=REL, node=sweep[0])
        inits = [s for s in fn.body if isinstance(s, ast.Assign) and isinstance(s.targets[0], ast.Name)
                 and s.targets[0].id == var]
        i0 = lin_of(inits[0].value) if len(inits) == 1 else None
        chk.decide("C19.SWEEP", cons0 + "#sweep/start", True if (i0 is not None and i0.is_const() and i0.c == 0) else
                   (False if i0 is not None and i0.is_const() else None), f"{var} starts at {ast.unparse(inits[0].value) if inits else '?'}",
                   rel=REL, node=inits[0] if inits else fn, nontrivial=False)
    decs = [s for s in readl[0].body if isinstance(s, ast.AugAssign) and isinstance(s.op, ast.Sub) and isinstance(s.target, ast.Name)
            and s.target.id == var] if isinstance(readl[0], ast.While) else []
    rops = [o for o in readl[1] if o.type == "Read_disk"]
    rvar = var
    if isinstance(readl[0], ast.For):
        # read loop over the positions themselves:  for p in range(var - step, -1, -step)
        lp = readl[0]
        it_ = lp.iter
        rng = [lin_of(a) for a in it_.args] if isinstance(it_, ast.Call) and getattr(it_.func, "id", None) == "range" \
            and len(it_.args) == 3 else None
        if rng is None or any(x is None for x in rng) or not isinstance(lp.target, ast.Name) or not rops or step is None:
            chk.decide("C19.SWEEP", cons0 + "#read-body", None, "read loop not recognised", rel=REL, node=lp)
        else:
            rvar = lp.target.id
            A, B, C = rng
            d = C + step
            chk.decide("C19.SWEEP", cons0 + "#read/step", True if (d.is_const() and d.c == 0) else (False if d.is_const() else None),
                       f"read loop walks back by `{ast.unparse(it_.args[2])}`, the sweep advanced by `{ast.unparse(incs[0].value)}`",
                       rel=REL, node=lp)
            d0 = A - (Lin.sym(var) - step)
            chk.decide("C19.SWEEP", cons0 + "#read/start", True if (d0.is_const() and d0.c == 0) else (False if d0.is_const() else None),
                       f"read loop starts at `{ast.unparse(it_.args[0])}`: one period before the end of the sweep (off by {d0})",
                       rel=REL, node=lp)
            # stops after position 0: range end -1 (the positions are multiples of the period, counted down from the sweep's end)
            gok = True if (B.is_const() and B.c == -1) else (False if B.is_const() else None)
            chk.decide("C19.SWEEP", cons0 + "#read/guard", gok,
                       f"read loop runs down to `{ast.unparse(it_.args[1])}` exclusive (required: position 0 is read)", rel=REL, node=lp)
            chk.decide("C19.SWEEP", cons0 + "#read/once", True if len(rops) == 1 else False,
                       f"{len(rops)} Read_disk per iteration", rel=REL, node=lp, nontrivial=False)
            _, ridx = rops[0].level_step()
            dd = diff_const(ridx, Lin.sym(rvar))
            chk.decide("C19.SWEEP", cons0 + "#read/index", True if dd == 0 else (False if dd is not None else None),
                       f"Read_disk({ast.unparse(rops[0].idx)}) at the loop position", rel=REL, node=rops[0].node)
    elif len(decs) != 1 or not rops:
        chk.decide("C19.SWEEP", cons0 + "#read-body", None, "read loop not recognised", rel=REL, node=readl[0])
    else:
        back = lin_of(decs[0].value)
        d = (back - step) if (back is not None and step is not None) else None
        chk.decide("C19.SWEEP", cons0 + "#read/step", True if (d is not None and d.is_const() and d.c == 0) else
                   (False if d is not None and d.is_const() else None),
                   f"read loop walks back by `{ast.unparse(decs[0].value)}`, the sweep advanced by `{ast.unparse(incs[0].value)}`",
                   rel=REL, node=decs[0])
        chk.decide("C19.SWEEP", cons0 + "#read/once", True if len(rops) == 1 else False,
                   f"{len(rops)} Read_disk per iteration", rel=REL, node=readl[0], nontrivial=False)
        _, ridx = rops[0].level_step()
        after = decs[0].lineno < rops[0].node.lineno
        dd = diff_const(ridx, Lin.sym(var))
        chk.decide("C19.SWEEP", cons0 + "#read/index", True if (dd == 0 and after) else (False if dd is not None else None),
                   f"Read_disk({ast.unparse(rops[0].idx)}) after the position was moved back", rel=REL, node=rops[0].node)
        t = readl[0].test
        gl = lin_of(t.left) if isinstance(t, ast.Compare) else None
        gr = lin_of(t.comparators[0]) if isinstance(t, ast.Compare) else None
        gok = None
        if gl is not None and gr is not None and isinstance(t.ops[0], ast.Gt):
            dd2 = gl - gr - Lin.sym(var)
            gok = True if (dd2.is_const() and dd2.c == 0) else (False if dd2.is_const() else None)
        chk.decide("C19.SWEEP", cons0 + "#read/guard", gok, f"read loop runs while `{ast.unparse(t)}`", rel=REL, node=readl[0])
    only_and_form(chk, g, fn, cons0, sweep, readl, step, rvar, repo)


def for_form(chk, g, live, fn, b, cons0, lparam):
    """sweep written as `for p in range(E)` over a period index: Write_disk(p*mx); Forward [p*mx, (p+1)*mx];
    E must be (l - 1) // mx (as many periods as leave more than one period's worth of steps... exactly the
    positions k*mx with l - k*mx > mx)"""
    from ..poly import PolyBuilder, pkey, pstr, padd, patom, pconst, pmul
    assigned = {}
    for n in ast.walk(fn):
        if isinstance(n, ast.Assign) and len(n.targets) == 1 and isinstance(n.targets[0], ast.Name):
            assigned.setdefault(n.targets[0].id, []).append(n.value)

    def resolve(e):
        if isinstance(e, ast.Name) and len(assigned.get(e.id, [])) == 1:
            return assigned[e.id][0]
        return e
    loops = [n for n in ast.walk(fn) if isinstance(n, ast.For) and id(n) not in live.dead_nodes]
    sweep = readl = None
    for n in loops:
        ops = [it for it in b.items if it.kind == "op" and it.live and any(x is it.node for x in ast.walk(n))]
        types = {o.type for o in ops}
        if "Write_disk" in types:
            sweep = (n, ops)
        elif "Read_disk" in types:
            readl = (n, ops)
    if sweep is None or readl is None:
        return None
    pb = PolyBuilder()

    def count_of(loop):
        it = loop.iter
        if isinstance(it, ast.Call) and getattr(it.func, "id", None) == "reversed" and it.args:
            it = it.args[0]
        if isinstance(it, ast.Call) and getattr(it.func, "id", None) == "range":
            if len(it.args) == 1:
                return resolve(it.args[0])
            if len(it.args) == 3:       # range(E - 1, -1, -1)
                return ast.BinOp(resolve(it.args[0]), ast.Add(), ast.Constant(1))
        return None
    period = None
    for n in ast.walk(sweep[0]):
        pass
    sops = {o.type: o for o in sweep[1]}
    w, f = sops.get("Write_disk"), sops.get("Forward")
    var = sweep[0].target.id if isinstance(sweep[0].target, ast.Name) else None
    if w is None or f is None or var is None:
        return None
    widx = pb.poly(w.idx)
    a, z = (pb.poly(x) for x in f.idx.elts)
    length = padd(z, a, -1)
    chk.decide("C19.SWEEP", cons0 + "#sweep/write-0", True if pkey(widx) == pkey(a) else False,
               f"Write_disk index {pstr(widx)} vs Forward start {pstr(a)}", rel=REL, node=sweep[0])
    # the position is index * length
    per = None
    for mono, c in widx.items():
        if var in mono and c == 1 and len(mono) == 2:
            per = [x for x in mono if x != var][0]
    okpos = per is not None and pkey(widx) == pkey(pmul(patom(var), patom(per))) and pkey(length) == pkey(patom(per))
    chk.decide("C19.SWEEP", cons0 + "#sweep/forward-2", True if okpos else None,
               f"sweep position {pstr(widx)}, Forward length {pstr(length)}", rel=REL, node=sweep[0])
    E = count_of(sweep[0])
    if E is None or per is None:
        chk.decide("C19.SWEEP", cons0 + "#sweep/guard", None, "sweep count not recognised", rel=REL, node=sweep[0])
        return sweep, readl, per or "mx"
    want = pb.poly(ast.parse(f"({lparam} - 1) // {per}", mode="eval").body)
    got = pb.poly(E)
    verdict = True if pkey(got) == pkey(want) else None
    why = f"sweep runs for {pstr(got)} periods; required {pstr(want)} (positions k*{per} with more than {per} steps remaining)"
    if verdict is None and isinstance(E, ast.BinOp) and isinstance(E.op, ast.FloorDiv):
        num, den = pb.poly(E.left), pb.poly(E.right)
        dnum = padd(num, pb.poly(ast.parse(f"{lparam} - 1", mode="eval").body), -1)
        if pkey(den) == pkey(patom(per)) and set(dnum) <= {()} and dnum:
            verdict = False
            why += f": the numerator is off by {dnum[()]}, so the count differs whenever {lparam} crosses a multiple of {per}"
    chk.decide("C19.SWEEP", cons0 + "#sweep/guard", verdict, why, rel=REL, node=sweep[0])
    # read loop: same count, Read_disk at index * per
    rops = [o for o in readl[1] if o.type == "Read_disk"]
    E2 = count_of(readl[0])
    same = E2 is not None and pkey(pb.poly(E2)) == pkey(got)
    chk.decide("C19.SWEEP", cons0 + "#read/step", True if same else None,
               "read loop runs over the same period indices as the sweep", rel=REL, node=readl[0])
    chk.decide("C19.SWEEP", cons0 + "#read/once", True if len(rops) == 1 else False, f"{len(rops)} Read_disk per iteration",
               rel=REL, node=readl[0], nontrivial=False)
    return sweep, readl, per


def only_and_form(chk, g, fn, cons0, sweep, readl, step, var, repo):
    ONE_ = ONE
    # ---- ONLY
    wd_ops = []
    for fname in reachable(g, FN):
        bb = g.builders.get(fname)
        if bb:
            wd_ops += [o for o in bb.items if o.kind == "op" and o.live and o.type in ("Write_disk", "Write")]
    extra = [o for o in wd_ops if not (sweep and any(x is o.node for x in ast.walk(sweep[0])))]
    maybe = g.liveness.maybe_nodes
    definite = [o for o in extra if id(o.node) not in maybe and o.fname not in g.liveness.maybe_funcs]
    chk.decide("C19.ONLY", cons0 + "#write-disk", True if (len(wd_ops) >= 1 and not extra) else (False if definite else None),
               f"{len(wd_ops)} live disk-write site(s) reachable; outside the sweep loop: "
               f"{[o.construct for o in extra]}", rel=REL, node=fn)
    k = 0
    for bb, c in g.calls():
        if bb.fname != FN:
            continue
        cons = cons0 + f"#segment[{k}]"
        k += 1
        args = c.call.args
        ok = c.callee == "revolve" and len(args) >= 2 and isinstance(args[1], ast.Name) and args[1].id == fn.args.args[1].arg
        chk.decide("C19.ONLY", cons, True if ok else False,
                   f"segment reversed by {c.callee}({', '.join(ast.unparse(a) for a in args[:2])})", rel=REL, node=c.node)
        inside_read = readl and any(x is c.node for x in ast.walk(readl[0]))
        if inside_read and step is not None:
            seg = lin_of(args[0])
            sh = lin_of(c.shift) if c.shift is not None else None
            d1 = (seg - (step - ONE)) if seg is not None else None
            chk.decide("C19.SWEEP", cons + "/len", True if (d1 is not None and d1.is_const() and d1.c == 0) else
                       (False if d1 is not None and d1.is_const() else None),
                       f"segment length {ast.unparse(args[0])} vs period - 1", rel=REL, node=c.node)
            d2 = diff_const(sh, Lin.sym(var))
            chk.decide("C19.SWEEP", cons + "/shift", True if d2 == 0 else (False if d2 is not None else None),
                       "segment shifted to its disk checkpoint", rel=REL, node=c.node)
    # ---- FORM
    form(chk, repo)


MIRROR = {ast.Lt: ast.Gt, ast.LtE: ast.GtE, ast.Gt: ast.Lt, ast.GtE: ast.LtE, ast.Eq: ast.Eq, ast.NotEq: ast.NotEq}
NEGATE = {ast.Lt: ast.GtE, ast.LtE: ast.Gt, ast.Gt: ast.LtE, ast.GtE: ast.Lt, ast.Eq: ast.NotEq, ast.NotEq: ast.Eq}


def _beta_test(t, defs):
    """test -> (beta call, operator class, other side) oriented as `beta(..) OP other`, or None"""
    if isinstance(t, ast.UnaryOp) and isinstance(t.op, ast.Not) and isinstance(t.operand, ast.Compare) and len(t.operand.ops) == 1 \
            and type(t.operand.ops[0]) in NEGATE:
        t = ast.Compare(t.operand.left, [NEGATE[type(t.operand.ops[0])]()], t.operand.comparators)
    if not (isinstance(t, ast.Compare) and len(t.ops) == 1 and type(t.ops[0]) in MIRROR):
        return None
    a, b, op = subst_defs(t.left, defs), subst_defs(t.comparators[0], defs), type(t.ops[0])

    def is_beta(x):
        return isinstance(x, ast.Call) and getattr(x.func, "id", None) == "beta" and len(x.args) == 2
    if is_beta(a) and not is_beta(b):
        return a, op, b
    if is_beta(b) and not is_beta(a):
        return b, MIRROR[op], a
    return None


def first_search(fn, var, funcs, depth=0):
    """how the local `var` of fn is found as "the least t >= 0 such that beta(A, t) STOP R":
    -> (A expr, STOP operator class, R expr, site node, shown text) over fn's own names, or (None, reason).
    Recognised: `t = 0; while beta(A, t) <= R: t += 1` (any orientation / negation of the test),
    `t = helper(args)` where the helper has one of these bodies, `next(t for t in count() if beta(A, t) > R)`."""
    defs = single_defs(fn)
    # (1) the inline while loop
    for w in [n for n in ast.walk(fn) if isinstance(n, ast.While)]:
        if isinstance(w.test, ast.Constant) and w.test.value is True and len(w.body) == 2 and isinstance(w.body[0], ast.If) \
                and len(w.body[0].body) == 1 and isinstance(w.body[0].body[0], ast.Break) and not w.body[0].orelse:
            # `while True: if <stop test>: break; t += 1`
            bt = _beta_test(w.body[0].test, defs)
            inc = w.body[1]
            init = [n for n in ast.walk(fn) if isinstance(n, ast.Assign) and len(n.targets) == 1 and isinstance(n.targets[0], ast.Name)
                    and n.targets[0].id == var]
            if bt is not None and isinstance(bt[0].args[1], ast.Name) and bt[0].args[1].id == var and isinstance(inc, ast.AugAssign) \
                    and isinstance(inc.target, ast.Name) and inc.target.id == var and isinstance(inc.op, ast.Add) \
                    and isinstance(inc.value, ast.Constant) and inc.value.value == 1 and len(init) == 1 \
                    and isinstance(init[0].value, ast.Constant) and init[0].value.value == 0:
                return bt[0].args[0], bt[1], bt[2], w, f"while True: if {ast.unparse(w.body[0].test)}: break"
            continue
        bt = _beta_test(w.test, defs)
        if bt is None or not (isinstance(bt[0].args[1], ast.Name) and bt[0].args[1].id == var):
            continue
        inc = [s_ for s_ in w.body if isinstance(s_, ast.AugAssign) and isinstance(s_.target, ast.Name) and s_.target.id == var]
        init = [n for n in ast.walk(fn) if isinstance(n, ast.Assign) and len(n.targets) == 1 and isinstance(n.targets[0], ast.Name)
                and n.targets[0].id == var]
        ok = len(w.body) == 1 and len(inc) == 1 and isinstance(inc[0].op, ast.Add) and isinstance(inc[0].value, ast.Constant) \
            and inc[0].value.value == 1 and len(init) == 1 and isinstance(init[0].value, ast.Constant) and init[0].value.value == 0
        if not ok:
            return None, f"the search loop for {var} is not `{var} = 0; while ...: {var} += 1`"
        # the loop runs while `beta OP R`; it stops at the first t with the negation
        return bt[0].args[0], NEGATE[bt[1]], bt[2], w, f"while {ast.unparse(w.test)}"
    return None, f"no search loop for {var}"


def search_value(e, fn, funcs, depth=0):
    """an expression that denotes "the least t with beta(A, t) STOP R" -> (A, STOP, R, site, shown) in the names of fn"""
    from .common import single_defs as _sd
    if isinstance(e, ast.Name):
        defs = [n for n in ast.walk(fn) if isinstance(n, ast.Assign) and len(n.targets) == 1 and isinstance(n.targets[0], ast.Name)
                and n.targets[0].id == e.id]
        if len(defs) == 1 and isinstance(defs[0].value, ast.Call):
            return search_value(defs[0].value, fn, funcs, depth)
        return first_search(fn, e.id, funcs, depth)
    if isinstance(e, ast.Call) and isinstance(e.func, ast.Name) and e.func.id == "next" and e.args and isinstance(e.args[0], ast.GeneratorExp):
        g = e.args[0]
        gen = g.generators[0] if len(g.generators) == 1 else None
        if gen is not None and isinstance(gen.iter, ast.Call) and getattr(gen.iter.func, "id", getattr(gen.iter.func, "attr", None)) == "count" \
                and (not gen.iter.args or (isinstance(gen.iter.args[0], ast.Constant) and gen.iter.args[0].value == 0)) and len(gen.iter.args) <= 1 \
                and isinstance(gen.target, ast.Name) and isinstance(g.elt, ast.Name) and g.elt.id == gen.target.id and len(gen.ifs) == 1:
            bt = _beta_test(gen.ifs[0], single_defs(fn))
            if bt is not None and isinstance(bt[0].args[1], ast.Name) and bt[0].args[1].id == gen.target.id:
                return bt[0].args[0], bt[1], bt[2], e, ast.unparse(e)
        return None, f"unrecognised search {ast.unparse(e)[:60]}"
    if isinstance(e, ast.Call) and isinstance(e.func, ast.Name) and e.func.id in funcs and depth < 3 and not e.keywords:
        h = funcs[e.func.id]
        ps = [a.arg for a in h.args.args]
        rets = [n for n in ast.walk(h) if isinstance(n, ast.Return)]
        if len(ps) == len(e.args) and len(rets) == 1 and rets[0].value is not None:
            r = search_value(rets[0].value, h, funcs, depth + 1)
            if r[0] is None:
                return r
            A, op, R, site, shown = r
            stored = {x.id for x in ast.walk(h) if isinstance(x, ast.Name) and isinstance(x.ctx, ast.Store)}
            if stored & set(ps):
                return None, f"{h.name} re-assigns a parameter"
            env = dict(zip(ps, e.args))

            class B(ast.NodeTransformer):
                def visit_Name(self, node):
                    return env.get(node.id, node) if isinstance(node.ctx, ast.Load) else node
            import copy as _c
            return B().visit(_c.deepcopy(A)), op, B().visit(_c.deepcopy(R)), e, f"{ast.unparse(e)} with {h.name}: {shown}"
        return None, f"helper {e.func.id} not of a recognised form"
    return None, f"unrecognised search {ast.unparse(e)[:60]}"


def _int_const(e):
    if isinstance(e, ast.Constant) and isinstance(e.value, int) and not isinstance(e.value, bool):
        return e.value
    if isinstance(e, ast.UnaryOp) and isinstance(e.op, ast.USub) and isinstance(e.operand, ast.Constant) and isinstance(e.operand.value, int):
        return -e.operand.value
    return None


def form(chk, repo):
    fn = repo.func(REL, "mxrr_close_formula")
    chk.functions.add(f"{REL[:-3]}.mxrr_close_formula")
    cons = f"{REL[:-3].replace('/', '.')}.mxrr_close_formula"
    pb = PolyBuilder()
    params = [a.arg for a in fn.args.args]
    funcs = {f.name: f for f in repo.module(REL).tree.body if isinstance(f, ast.FunctionDef)}
    rets = [n for n in ast.walk(fn) if isinstance(n, ast.Return)]
    if len(rets) != 1 or len(params) < 4 or rets[0].value is None:
        chk.decide("C19.FORM", cons, None, "shape not recognised", rel=REL, node=fn)
    else:
        cm, uf, rd, wd = params[0], params[1], params[2], params[3]
        rv = subst_defs(rets[0].value, {k: v for k, v in single_defs(fn).items() if isinstance(v, ast.Call)
                                          and getattr(v.func, "id", None) in ("int", "beta")})
        inner = rv.args[0] if isinstance(rv, ast.Call) and getattr(rv.func, "id", None) == "int" and len(rv.args) == 1 else rv
        if isinstance(inner, ast.Subscript) and isinstance(inner.value, ast.Name):
            # the period is returned through a mapping filled in this function (a memo): the value stored is the result, and
            # the closed form depends on all four of (cm, uf, rd, wd), so all four must be part of the key
            stores = [n for n in ast.walk(fn) if isinstance(n, ast.Assign) and len(n.targets) == 1 and isinstance(n.targets[0], ast.Subscript)
                      and isinstance(n.targets[0].value, ast.Name) and n.targets[0].value.id == inner.value.id]
            if len(stores) == 1:
                keyn = {x.id for x in ast.walk(stores[0].targets[0].slice) if isinstance(x, ast.Name)}
                for d_ in single_defs(fn).items():
                    if d_[0] in keyn:
                        keyn |= {x.id for x in ast.walk(d_[1]) if isinstance(x, ast.Name)}
                missing = [p_ for p_ in (cm, uf, rd, wd) if p_ not in keyn]
                chk.decide("C19.FORM", cons + "#memo-key", False if missing else True,
                           f"the period is cached in `{inner.value.id}` under `{ast.unparse(stores[0].targets[0].slice)}`"
                           + (f": {missing} are not part of the key, the period of other costs is returned" if missing else ""),
                           rel=REL, node=stores[0])
                rv = stores[0].value
                rv = subst_defs(rv, {k: v for k, v in single_defs(fn).items() if isinstance(v, ast.Call)
                                     and getattr(v.func, "id", None) in ("int", "beta")})
                inner = rv.args[0] if isinstance(rv, ast.Call) and getattr(rv.func, "id", None) == "int" and len(rv.args) == 1 else rv
        rok = isinstance(inner, ast.Call) and getattr(inner.func, "id", None) == "beta" and len(inner.args) == 2 and \
            pkey(pb.poly(inner.args[0])) == pkey(patom(cm))
        is_beta = isinstance(inner, ast.Call) and getattr(inner.func, "id", None) == "beta" and len(inner.args) == 2
        chk.decide("C19.FORM", cons + "#result", True if rok else (False if is_beta else None),
                   f"result {ast.unparse(rets[0].value)}; descriptor beta({cm}, t)", rel=REL, node=rets[0])
        sv = search_value(inner.args[1], fn, funcs) if rok else (None, "result is not beta(cm, t)")
        if sv[0] is None:
            chk.decide("C19.FORM", cons + "#threshold", None, f"search for t not recognised: {sv[1]}", rel=REL, node=fn)
        else:
            A, op, R, site, shown = sv
            want_rhs = pb.poly(ast.parse(f"({wd} + {rd}) / {uf}", mode="eval").body)
            rhs_e = subst_defs(R, single_defs(fn))
            same_a = pkey(pb.poly(A)) == pkey(padd(patom(cm), pconst(1)))
            same_r = pkey(pb.poly(rhs_e)) == pkey(want_rhs)
            ok = same_a and same_r and op is ast.Gt
            known = {n.id for n in ast.walk(rhs_e) if isinstance(n, ast.Name)} <= set(params) and \
                {n.id for n in ast.walk(A) if isinstance(n, ast.Name)} <= set(params)
            chk.decide("C19.FORM", cons + "#threshold", True if ok else (False if known else None),
                       f"t is the least integer with beta({ast.unparse(A)}, t) {({ast.Gt: '>', ast.GtE: '>=', ast.Lt: '<', ast.LtE: '<='}).get(op, '?')} "
                       f"{ast.unparse(rhs_e)} [{shown}]; descriptor: the least t with beta({cm} + 1, t) > ({wd} + {rd}) / {uf}",
                       rel=REL, node=site)
            chk.decide("C19.FORM", cons + "#search", True, "t is the least integer passing the threshold (counted up from 0 by 1)",
                       rel=REL, node=site, nontrivial=False)
    # the period is computed from *these* costs: every call of the closed form in the module passes, for each cost
    # parameter of the callee, the caller's value of the same name (directly or as an item of the parameter dictionary)
    callee_params = [a.arg for a in fn.args.args]
    k_ = 0
    for q, g_ in sorted(funcs.items()):
        own = {a.arg for a in g_.args.args + g_.args.kwonlyargs}
        for call in [n for n in ast.walk(g_) if isinstance(n, ast.Call) and getattr(n.func, "id", None) == "mxrr_close_formula"]:
            bound = dict(zip(callee_params, call.args))
            for kw in call.keywords:
                if kw.arg:
                    bound[kw.arg] = kw.value
            for pname in callee_params:
                if pname not in ("uf", "ub", "rd", "wd") or pname not in bound:
                    continue
                v = bound[pname]
                got = v.id if isinstance(v, ast.Name) else (
                    v.slice.value if isinstance(v, ast.Subscript) and isinstance(v.slice, ast.Constant) else None)
                if got is None or (isinstance(v, ast.Name) and got not in own):
                    continue
                if got in ("uf", "ub", "rd", "wd", "fwd_cost", "bwd_cost"):
                    want = {"fwd_cost": "uf", "bwd_cost": "ub"}.get(got, got)
                    chk.decide("C19.FORM", f"{REL[:-3].replace('/', '.')}.{q}#period-call[{k_}]/{pname}", True if want == pname else False,
                               f"{ast.unparse(call)[:70]}: the closed form's `{pname}` receives the caller's `{got}`"
                               + ("" if want == pname else ": the period is that of other costs"), rel=REL, node=call, nontrivial=False)
            k_ += 1
    relb = "hrevolve_sequences/basic_functions.py"
    bfn = repo.func(relb, "beta")
    chk.files.add(relb)
    chk.functions.add(f"{relb[:-3]}.beta")
    consb = f"{relb[:-3].replace('/', '.')}.beta"
    x, y = [a.arg for a in bfn.args.args][:2]
    rets = [n for n in ast.walk(bfn) if isinstance(n, ast.Return)]
    guard = [n for n in bfn.body if isinstance(n, ast.If)]
    gok = len(guard) == 1 and ast.unparse(guard[0].test).replace(" ", "") == f"{y}<0" and \
        len(guard[0].body) == 1 and isinstance(guard[0].body[0], ast.Return) and \
        isinstance(guard[0].body[0].value, ast.Constant) and guard[0].body[0].value.value == 0
    gdef = None
    if not gok and len(guard) == 1 and isinstance(guard[0].test, ast.Compare) and len(guard[0].test.ops) == 1 \
            and isinstance(guard[0].test.left, ast.Name) and guard[0].test.left.id == y \
            and _int_const(guard[0].test.comparators[0]) is not None \
            and len(guard[0].body) == 1 and isinstance(guard[0].body[0], ast.Return) \
            and isinstance(guard[0].body[0].value, ast.Constant) and guard[0].body[0].value.value == 0:
        c_, op_ = _int_const(guard[0].test.comparators[0]), type(guard[0].test.ops[0])
        # the values of y for which 0 is returned must be exactly the negative ones
        bound = {ast.Lt: c_ - 1, ast.LtE: c_}.get(op_)
        if bound is not None:
            gok, gdef = (bound == -1), True
    chk.decide("C19.FORM", consb + "#negative", True if gok else (False if gdef else None),
               "beta(x, y) = 0 for y < 0" + ("" if gok or not gdef else f": the guard `{ast.unparse(guard[0].test)}` returns 0 for other values of y "
                                             "as well (beta(x, 0) is 1)"), rel=relb, node=bfn, nontrivial=False)
    main = [r for r in rets if not (isinstance(r.value, ast.Constant))]
    # single-definition locals of beta (numerator / denominator) stand for their definitions
    bdefs = {}
    for a_ in ast.walk(bfn):
        if isinstance(a_, ast.Assign) and len(a_.targets) == 1 and isinstance(a_.targets[0], ast.Name):
            bdefs.setdefault(a_.targets[0].id, []).append(a_.value)
    bdefs = {k: v[0] for k, v in bdefs.items() if len(v) == 1 and k not in (x, y)}
    if main and bdefs:
        import copy as _c
        main = [ast.Return(subst_defs(_c.deepcopy(main[0].value), bdefs))]
    fok = None
    if len(main) == 1 and isinstance(main[0].value, ast.BinOp) and isinstance(main[0].value.op, (ast.Div, ast.FloorDiv)):
        num, den = main[0].value.left, main[0].value.right

        def fact_arg(n):
            if isinstance(n, ast.Call) and isinstance(n.func, ast.Attribute) and n.func.attr == "factorial" and len(n.args) == 1:
                return pkey(PolyBuilder().poly(n.args[0]))
            return None
        na = fact_arg(num)
        das = None
        if isinstance(den, ast.BinOp) and isinstance(den.op, ast.Mult):
            das = sorted([fact_arg(den.left), fact_arg(den.right)], key=repr)
        want_den = sorted([pkey(patom(x)), pkey(patom(y))], key=repr)
        if na is not None and das is not None and None not in das:
            fok = na == pkey(padd(patom(x), patom(y))) and das == want_den
    chk.decide("C19.FORM", consb + "#binomial", fok, f"beta returns {ast.unparse(main[0].value) if main else '?'}; "
               f"descriptor ({x}+{y})! / ({x}! {y}!)", rel=relb, node=bfn)
