"""C04 - no checkpoint outlives its use: storage is clean when a schedule concludes.

The static argument is "faithful tracking + Move <=> removal + terminal emptiness => clean":
  KEY      the tracking key identifies a checkpoint the way the emitted actions do
  PAIR     write <=> push, Move <=> removal, Copy <=> no removal (on every path)
  EMPTY    every path to EndReverse passes a guard/condition entailing depth == 0
  PERSIST  repeatable passes: forward-sweep checkpoints are only copied, checkpoints
           written during the pass are moved; the stored set at EndReverse == at EndForward
  SD       generators without a tracking container: the step moved/copied in an iteration
           is the step reversed in that iteration (so with C02.CONTIG every written step is
           moved exactly once when data is moved)
"""
from .common import *
from ..interp import Tok
from . import shared
from .c01 import rule_passes
from .c03 import key_rule


def run(chk, ctx):
    chk.describe("C04.EMPTY", "the tracking containers are provably empty whenever EndReverse is emitted")
    chk.describe("C04.SD", "without a container: the step loaded is the step reversed next")
    runs = all_runs(chk, ctx)
    key_rule(chk, "C04.KEY", runs)
    shared.rule_track(chk, "C04.PAIR", runs)
    rule_passes(chk, "C04.PERSIST", runs)
    # a checkpoint that is written to one storage and moved out of another stays behind in the first
    from .c01 import rule_label
    rule_label(chk, "C04.LABEL", runs)
    chk.describe("C04.LABEL", "a checkpoint is deleted from the storage it was written to (label named at the write == label named at the Move)")
    for run_ in runs:
        it = run_.interp
        for rec in it.yields:
            st, cons = rec.state, ycons(run_, rec)
            if rec.kind == "EndReverse":
                for c in sorted(it.containers):
                    tri(chk, "C04.EMPTY", cons + f"/{c}", prove_eq(st, Lin.sym(f"len({c})")), run_, rec,
                        f"depth of {c} at EndReverse")
            if rec.kind == "Reverse" and not it.containers and run_.owner != shared.CONVERTER:
                ls = last_set(st) or set()
                if ls and all(y.startswith(("Copy[", "Move[")) for y in ls):
                    lo = rec.arg(1)
                    if is_lin(lo):
                        tri(chk, "C04.SD", cons, prove_eq(st, lo - Lin.sym("arg0@prev")), run_, rec,
                            "lower end of the Reverse minus the step just loaded")
        if not it.containers and has_reverse(run_) and run_.owner != shared.CONVERTER:
            # data is written per step in the forward sweep.  In a configuration that permits exactly one adjoint
            # calculation every such checkpoint must have been removed when the schedule concludes: a load that only
            # copies leaves it behind (in a repeatable configuration the opposite holds: C04.PERSIST)
            wrote = any(shared.is_write(r) and r.arg(4, "storage") != WORK for r in it.yields)
            if wrote and not multipass(run_):
                k_ = 0
                for rec in it.yields:
                    if rec.kind == "Copy" and rec.arg(2, "to_storage") == WORK and isinstance(rec.arg(1, "from_storage"), Tok) \
                            and rec.arg(1, "from_storage").v in ("StorageType.RAM", "StorageType.DISK"):
                        chk.decide("C04.SD", ycons(run_, rec) + "/single-pass-copy", False,
                                   f"{rec.yid} only copies a checkpoint in a configuration that permits one adjoint calculation"
                                   f"{shared.cfgs(run_)}: the checkpoint is never deleted, storage is not clean at EndReverse",
                                   rel=run_.rel, node=rec.node)
                        k_ += 1
    chk.note("Revolve family: that every DISK/RAM checkpoint written by the sequence is eventually moved depends on the "
             "sequence; the converter-side necessary condition is C04.KEY")
