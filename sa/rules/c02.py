"""C02 - each adjoint calculation reverses every step exactly once, in order.

  PHASE    typestate: EndForward is emitted once, before any Reverse/Copy/Move/
           EndReverse, and only when the forward stands at max_n
  CONTIG   Reverse(hi, lo): hi == max_n - r_before, r_after == max_n - lo, lo < hi
           (consecutive Reverse actions abut, each step covered once)
  END      EndReverse only when r_before == max_n (hand-written generators);
           single-pass generators: nothing is emitted after it
  RESET    generators permitting further passes: r == 0 when EndReverse is emitted
  UNIT     (GRAM) every live Backward operation has index [e+1, e]
"""
from .common import *
from . import shared
from ..gram import Grammar, diff_const

CONVERTER = "RevolveCheckpointSchedule"


def run(chk, ctx):
    _identity(chk, ctx)
    _run(chk, ctx)


def _identity(chk, ctx):
    fns = [(r_, q_, f_) for r_, q_, f_ in ctx.repo.all_functions() if q_.endswith('._iterator')]
    shared.rule_identity(chk, 'C02.END', ctx.repo, fns)


def _run(chk, ctx):
    chk.describe("C02.PHASE", "EndForward once, before every Reverse/Copy/Move/EndReverse, with n == max_n")
    chk.describe("C02.CONTIG", "Reverse(hi, lo): hi == max_n - r_before, r_after == max_n - lo, lo < hi")
    chk.describe("C02.END", "EndReverse only after step 0 was reversed; nothing follows the last one")
    chk.describe("C02.RESET", "r == 0 at EndReverse when another pass is permitted")
    chk.describe("C02.UNIT", "every live Backward operation of the sequence builders has index [e+1, e]")
    for run_ in all_runs(chk, ctx):
        it = run_.interp
        multi = multipass(run_)
        fin = finality(run_)
        for rec in recs(it):
            st, cons = rec.state, ycons(run_, rec)
            cfg = run_.cfg_text()
            ef = st.enum_single("$ef")
            if rec.early and rec.kind != "Reverse":
                continue
            conv = run_.owner == CONVERTER
            if conv and rec.kind in ("Reverse", "Copy", "Move", "EndReverse"):
                chk.note("C02.PHASE typestate is not decided for the converter: whether a Read/Backward precedes the "
                         "completion of the forward sweep depends on the operation sequence, not on the converter's shape")
            elif rec.kind in ("Reverse", "Copy", "Move", "EndReverse"):
                ok = True if ef == "1" else (False if ef == "0" else None)
                chk.decide("C02.PHASE", cons, ok,
                           f"{rec.kind} reachable " + ("only after EndForward" if ok else
                                                     "before EndForward" if ok is False else "with unknown phase")
                           + (f" under {cfg}" if cfg else ""), rel=run_.rel, node=rec.node)
            elif rec.kind == "EndForward":
                if not conv:
                    ok = True if ef == "0" else (False if ef == "1" else None)
                    chk.decide("C02.PHASE", cons, ok, "EndForward emitted at most once" if ok else
                               "EndForward can be emitted a second time", rel=run_.rel, node=rec.node)
                tri(chk, "C02.PHASE", cons, prove_eq(st, R), run_, rec, "no step reversed before EndForward: r")
                tri(chk, "C02.PHASE", cons, prove_eq(st, N - M), run_, rec, "forward position at EndForward: n - max_n")
            if rec.kind == "Reverse":
                hi, lo = rec.arg(0, "n1"), rec.arg(1, "n0")
                if not (is_lin(hi) and is_lin(lo)) and rec.early:
                    continue
                if not (is_lin(hi) and is_lin(lo)):
                    chk.decide("C02.CONTIG", cons, None, "non-integer bounds", rel=run_.rel, node=rec.node)
                    continue
                tri(chk, "C02.CONTIG", cons, prove_eq(st, hi - M + RPREV), run_, rec, "hi - (max_n - r_before)")
                if run_.owner == CONVERTER:
                    # r' == max_n - lo follows from r' == r + 1 and C02.UNIT (hi - lo == 1)
                    tri(chk, "C02.CONTIG", cons, prove_eq(st, R - RPREV - ONE), run_, rec,
                        "converter advances r by one per Backward (unit length: C02.UNIT)")
                else:
                    tri(chk, "C02.CONTIG", cons, prove_eq(st, R - M + lo), run_, rec, "r_after - (max_n - lo)")
                    tri(chk, "C02.CONTIG", cons, prove_ge(st, hi - lo - ONE), run_, rec, "hi - lo >= 1")
            if rec.kind == "EndReverse":
                if run_.owner != CONVERTER:
                    tri(chk, "C02.END", cons, prove_eq(st, RPREV - M), run_, rec,
                        "steps reversed when EndReverse is emitted: r_before - max_n")
                else:
                    chk.note("C02.END for the converter depends on the operation sequence: decided on the grammar (C02.END-SEQ: "
                             "the last Backward of every sequence is [1, 0])")
                end, follow = fin.get(rec.yid, (False, True))
                if multi:
                    tri(chk, "C02.RESET", cons, prove_eq(st, R), run_, rec, "r at EndReverse with further passes permitted")
                else:
                    ok = True if (end and not follow) else (False if follow else None)
                    chk.decide("C02.END", cons + "/final", ok,
                               ("nothing is emitted after the only EndReverse" if ok else
                                "another action can follow the EndReverse of the last permitted calculation")
                               + (f" under {cfg}" if cfg else ""), rel=run_.rel, node=rec.node)
    # ---- GRAM: every entry point's sequence ends by reversing step [1, 0]: with the converter's
    # guard n_0 == max_n - r_before this is r == max_n when EndReverse is emitted
    g = Grammar(ctx.repo)
    from ..gram import ends_at_origin
    res, why = ends_at_origin(g)
    chk.describe("C02.END-SEQ", "every live production of the sequence builders ends with the quartet reversing step [1, 0]")
    for f in sorted(res):
        b = g.builders[f]
        chk.files.add(b.rel)
        chk.decide("C02.END-SEQ", f"{b.rel[:-3].replace('/', '.')}.{f}#last-backward", res[f],
                   "all productions end (up to trailing Discards) with Backward [1, 0] or an unshifted sequence that does"
                   if res[f] else why.get(f, ""), rel=b.rel, node=b.fn)
    for b, op in g.ops():
        if op.type != "Backward":
            continue
        chk.files.add(op.rel)
        chk.functions.add(f"{op.rel[:-3]}.{op.fname}")
        a, z = op.span()
        d = diff_const(a, z)
        ok = True if d == 1 else (False if d is not None else None)
        chk.decide("C02.UNIT", op.construct, ok, f"Backward {ast.unparse(op.idx)}: from - to = {d}",
                   rel=op.rel, node=op.node)
