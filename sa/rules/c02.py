"""C02 - each adjoint calculation reverses every step exactly once, in order.

  PHASE    typestate: EndForward is emitted once, before any Reverse/Copy/Move/
           EndReverse, and only when the forward stands at max_n
  CONTIG   Reverse(hi, lo): hi == max_n - r_before, r_after == max_n - lo, lo < hi
           (consecutive Reverse actions abut, each step covered once)
  END      EndReverse only when r_before == max_n (hand-written generators);
           single-pass generators: nothing is emitted after it
  RESET    generators permitting further passes: r == 0 when EndReverse is emitted
  UNIT     (GRAM) every live Backward operation has index [e+1, e]
"""
from .common import *
from . import shared
from ..gram import Grammar, diff_const

CONVERTER = "RevolveCheckpointSchedule"


def run(chk, ctx):
    _identity(chk, ctx)
    _run(chk, ctx)
    _idxguard(chk, ctx)


def _identity(chk, ctx):
    fns = [(r_, q_, f_) for r_, q_, f_ in ctx.repo.all_functions() if q_.endswith('._iterator')]
    shared.rule_identity(chk, 'C02.END', ctx.repo, fns)


def _run(chk, ctx):
    chk.describe("C02.PHASE", "EndForward once, before every Reverse/Copy/Move/EndReverse, with n == max_n")
    chk.describe("C02.CONTIG", "Reverse(hi, lo): hi == max_n - r_before, r_after == max_n - lo, lo < hi")
    chk.describe("C02.END", "EndReverse only after step 0 was reversed; nothing follows the last one")
    chk.describe("C02.RESET", "r == 0 at EndReverse when another pass is permitted")
    chk.describe("C02.UNIT", "every live Backward operation of the sequence builders has index [e+1, e]")
    for run_ in all_runs(chk, ctx):
        it = run_.interp
        multi = multipass(run_)
        fin = finality(run_)
        for rec in recs(it):
            st, cons = rec.state, ycons(run_, rec)
            cfg = run_.cfg_text()
            ef = st.enum_single("$ef")
            if rec.early and rec.kind != "Reverse":
                continue
            conv = run_.owner == CONVERTER
            if conv and rec.kind in ("Reverse", "Copy", "Move", "EndReverse"):
                chk.note("C02.PHASE typestate is not decided for the converter: whether a Read/Backward precedes the "
                         "completion of the forward sweep depends on the operation sequence, not on the converter's shape")
            elif rec.kind in ("Reverse", "Copy", "Move", "EndReverse"):
                ok = True if ef == "1" else (False if ef == "0" else None)
                chk.decide("C02.PHASE", cons, ok,
                           f"{rec.kind} reachable " + ("only after EndForward" if ok else
                                                     "before EndForward" if ok is False else "with unknown phase")
                           + (f" under {cfg}" if cfg else ""), rel=run_.rel, node=rec.node)
            elif rec.kind == "EndForward":
                if not conv:
                    ok = True if ef == "0" else (False if ef == "1" else None)
                    chk.decide("C02.PHASE", cons, ok, "EndForward emitted at most once" if ok else
                               "EndForward can be emitted a second time", rel=run_.rel, node=rec.node)
                tri(chk, "C02.PHASE", cons, prove_eq(st, R), run_, rec, "no step reversed before EndForward: r")
                tri(chk, "C02.PHASE", cons, prove_eq(st, N - M), run_, rec, "forward position at EndForward: n - max_n")
            if rec.kind == "Reverse":
                hi, lo = rec.arg(0, "n1"), rec.arg(1, "n0")
                if not (is_lin(hi) and is_lin(lo)) and rec.early:
                    continue
                if not (is_lin(hi) and is_lin(lo)):
                    chk.decide("C02.CONTIG", cons, None, "non-integer bounds", rel=run_.rel, node=rec.node)
                    continue
                tri(chk, "C02.CONTIG", cons, prove_eq(st, hi - M + RPREV), run_, rec, "hi - (max_n - r_before)")
                if run_.owner == CONVERTER:
                    # r' == max_n - lo follows from r' == r + 1 and C02.UNIT (hi - lo == 1)
                    tri(chk, "C02.CONTIG", cons, prove_eq(st, R - RPREV - ONE), run_, rec,
                        "converter advances r by one per Backward (unit length: C02.UNIT)")
                else:
                    tri(chk, "C02.CONTIG", cons, prove_eq(st, R - M + lo), run_, rec, "r_after - (max_n - lo)")
                    tri(chk, "C02.CONTIG", cons, prove_ge(st, hi - lo - ONE), run_, rec, "hi - lo >= 1")
            if rec.kind == "EndReverse":
                if run_.owner != CONVERTER:
                    tri(chk, "C02.END", cons, prove_eq(st, RPREV - M), run_, rec,
                        "steps reversed when EndReverse is emitted: r_before - max_n")
                else:
                    chk.note("C02.END for the converter depends on the operation sequence: decided on the grammar (C02.END-SEQ: "
                             "the last Backward of every sequence is [1, 0])")
                end, follow = fin.get(rec.yid, (False, True))
                if multi:
                    tri(chk, "C02.RESET", cons, prove_eq(st, R), run_, rec, "r at EndReverse with further passes permitted")
                else:
                    ok = True if (end and not follow) else (False if follow else None)
                    chk.decide("C02.END", cons + "/final", ok,
                               ("nothing is emitted after the only EndReverse" if ok else
                                "another action can follow the EndReverse of the last permitted calculation")
                               + (f" under {cfg}" if cfg else ""), rel=run_.rel, node=rec.node)
    # ---- GRAM: every entry point's sequence ends by reversing step [1, 0]: with the converter's
    # guard n_0 == max_n - r_before this is r == max_n when EndReverse is emitted
    g = Grammar(ctx.repo)
    from ..gram import ends_at_origin
    res, why = ends_at_origin(g)
    chk.describe("C02.END-SEQ", "every live production of the sequence builders ends with the quartet reversing step [1, 0]")
    for f in sorted(res):
        b = g.builders[f]
        chk.files.add(b.rel)
        chk.decide("C02.END-SEQ", f"{b.rel[:-3].replace('/', '.')}.{f}#last-backward", res[f],
                   "all productions end (up to trailing Discards) with Backward [1, 0] or an unshifted sequence that does"
                   if res[f] else why.get(f, ""), rel=b.rel, node=b.fn)
    for b, op in g.ops():
        if op.type != "Backward":
            continue
        chk.files.add(op.rel)
        chk.functions.add(f"{op.rel[:-3]}.{op.fname}")
        a, z = op.span()
        d = diff_const(a, z)
        ok = True if d == 1 else (False if d is not None else None)
        chk.decide("C02.UNIT", op.construct, ok, f"Backward {ast.unparse(op.idx)}: from - to = {d}",
                   rel=op.rel, node=op.node)


# ---------------------------------------------------------------------------
# C02.IDXGUARD: the converter rejects an operation by its position in the sequence (`if i < K: raise`).
# Such a guard ends the stream with an exception instead of the closing EndReverse whenever an operation
# of the guarded kinds can sit before position K.  The position of the first such operation is bounded from
# below on the grammar of the sequence builders.

def _idx_guards(fn):
    """-> index variable, [(If node, K, operation types of the enclosing branch)] of the converter generator"""
    idx = act = None
    for n in ast.walk(fn):
        if isinstance(n, ast.Assign) and isinstance(n.value, ast.Call) and isinstance(n.value.func, ast.Name) \
                and n.value.func.id == "_convert_action" and n.value.args \
                and isinstance(n.value.args[0], ast.Subscript) and isinstance(n.value.args[0].slice, ast.Name) \
                and isinstance(n.targets[0], ast.Tuple) and isinstance(n.targets[0].elts[0], ast.Name):
            idx, act = n.value.args[0].slice.id, n.targets[0].elts[0].id
            break
    if idx is None:
        return None, []
    out = []

    def types_of(test):
        """string constants the action name is compared with for equality in a (disjunctive) test"""
        ts = set()
        parts = test.values if isinstance(test, ast.BoolOp) and isinstance(test.op, ast.Or) else [test]
        for p in parts:
            if isinstance(p, ast.Compare) and len(p.ops) == 1 and isinstance(p.ops[0], ast.Eq) \
                    and isinstance(p.left, ast.Name) and p.left.id == act \
                    and isinstance(p.comparators[0], ast.Constant) and isinstance(p.comparators[0].value, str):
                ts.add(p.comparators[0].value)
            elif isinstance(p, ast.Compare) and len(p.ops) == 1 and isinstance(p.ops[0], ast.In) \
                    and isinstance(p.left, ast.Name) and p.left.id == act \
                    and isinstance(p.comparators[0], (ast.Tuple, ast.List, ast.Set)) \
                    and all(isinstance(e, ast.Constant) and isinstance(e.value, str) for e in p.comparators[0].elts):
                ts |= {e.value for e in p.comparators[0].elts}
            else:
                return None
        return ts

    def walk(stmts, types):
        for s in stmts:
            if isinstance(s, ast.If):
                t = s.test
                if isinstance(t, ast.Compare) and len(t.ops) == 1 and isinstance(t.left, ast.Name) and t.left.id == idx \
                        and isinstance(t.ops[0], (ast.Lt, ast.LtE)) and isinstance(t.comparators[0], ast.Constant) \
                        and isinstance(t.comparators[0].value, int) and s.body and isinstance(s.body[0], ast.Raise):
                    out.append((s, t.comparators[0].value + (1 if isinstance(t.ops[0], ast.LtE) else 0), types))
                    walk(s.orelse, types)
                    continue
                ts = types_of(t)
                walk(s.body, ts if ts is not None else types)
                walk(s.orelse, types)
            elif isinstance(s, (ast.For, ast.While, ast.With, ast.Try)):
                for fld in ("body", "orelse", "finalbody"):
                    walk(getattr(s, fld, []) or [], types)
                for h in getattr(s, "handlers", []) or []:
                    walk(h.body, types)
    walk(fn.body, None)
    return idx, out


def _witness_feasible(b, conds):
    """a call-free, loop-free production is taken for some valid argument when its conditions are bookkeeping tests
    (`x is None`) or comparisons of one parameter with integer constants that a small non-negative value satisfies"""
    params = {a.arg for a in b.fn.args.args}
    cmp_ = {ast.Eq: lambda a, c: a == c, ast.NotEq: lambda a, c: a != c, ast.Lt: lambda a, c: a < c,
            ast.LtE: lambda a, c: a <= c, ast.Gt: lambda a, c: a > c, ast.GtE: lambda a, c: a >= c}
    per = {}
    for node, tag in conds:
        t = node.test
        if isinstance(t, ast.Compare) and len(t.ops) == 1 and isinstance(t.ops[0], (ast.Is, ast.IsNot)):
            continue
        if isinstance(t, ast.Compare) and len(t.ops) == 1 and type(t.ops[0]) in cmp_ and isinstance(t.left, ast.Name) \
                and t.left.id in params and isinstance(t.comparators[0], ast.Constant) \
                and isinstance(t.comparators[0].value, int) and not isinstance(t.comparators[0].value, bool):
            per.setdefault(t.left.id, []).append((cmp_[type(t.ops[0])], t.comparators[0].value, tag))
            continue
        return False
    return all(any(all(f(v, c) == tag for f, c, tag in tests) for v in range(0, 16)) for tests in per.values())


def _idxguard(chk, ctx):
    from ..gram import min_first_index, INF
    chk.describe("C02.IDXGUARD", "a position guard of the converter (`if i < K: raise`) cannot fire: the first operation of the "
                 "guarded kinds sits at index >= K in every sequence the builders produce")
    g = Grammar(ctx.repo)
    conv = [(r_, q_, f_) for r_, q_, f_ in ctx.repo.all_functions() if q_.endswith(CONVERTER + "._iterator")]
    if not conv:
        chk.error("C02.IDXGUARD: converter generator not found")
        return
    rel, q, fn = conv[0]
    idx, guards = _idx_guards(fn)
    # expected count on a tree without such guards is zero: a built-in positive example must match on every run
    ex = ast.parse("def _iterator(self):\n    i = 0\n    while i < len(self._schedule):\n"
                   "        a, (n0, n1, st) = _convert_action(self._schedule[i])\n"
                   "        if a == 'Forward':\n            pass\n"
                   "        elif a in ('Discard', 'Discard_memory'):\n            if i <= 1:\n                raise ValueError\n"
                   "        i += 1\n").body[0]
    exi, exg = _idx_guards(ex)
    if exi != "i" or len(exg) != 1 or exg[0][1] != 2 or exg[0][2] != {"Discard", "Discard_memory"}:
        chk.error("C02.IDXGUARD: built-in positive example not matched")
    chk.note(f"C02.IDXGUARD: index variable `{idx}`, {len(guards)} position guard(s) found in {q}; built-in positive example matched")
    # builders the schedule classes of the converter module call by name
    entry = set()
    for r_, q_, f_ in ctx.repo.all_functions():
        if r_ == rel:
            entry |= {n.id for n in ast.walk(f_) if isinstance(n, ast.Name) and n.id in g.builders}
    chk.files.add(rel)
    chk.functions.add(q)
    for node, k, types in guards:
        cons = f"{q}#index-guard[{'|'.join(sorted(types)) if types else '?'}]"
        if not types:
            chk.decide("C02.IDXGUARD", cons, None, "operation kinds of the guarded branch not recognised", rel=rel, node=node)
            continue
        first = min_first_index(g, types)
        worst = min(first.items(), key=lambda kv: kv[1][0]) if first else (None, (INF, None))
        lo = worst[1][0]
        if lo >= k:
            chk.decide("C02.IDXGUARD", cons, True, f"`{ast.unparse(node.test)}` raises; first {sorted(types)} operation of any "
                       f"live builder's sequence is at index >= {lo}", rel=rel, node=node)
            continue
        definite = None
        for f, (v, w) in sorted(first.items()):
            b = g.builders[f]
            if v < k and w and w[2] and f in entry and not getattr(b, "opaque", None) \
                    and not any(id(c.test) in g.liveness.maybe_nodes or id(c) in g.liveness.maybe_nodes for c, _ in w[0]) \
                    and _witness_feasible(b, w[0]):
                definite = (f, v, w)
                break
        if definite:
            f, v, w = definite
            cs = " and ".join(("" if tag else "not ") + f"({ast.unparse(c.test)})" for c, tag in w[0]) or "always"
            chk.decide("C02.IDXGUARD", cons, False, f"`{ast.unparse(node.test)}` raises, but {f}() returns, when {cs}, the sequence "
                       f"{[repr(x) for x in w[1]]} with a guarded operation at index {v}: the stream ends with an exception "
                       "instead of EndReverse", rel=rel, node=node)
        else:
            chk.decide("C02.IDXGUARD", cons, None, f"`{ast.unparse(node.test)}`: the lower bound of the first guarded operation "
                       f"is {lo} ({worst[0]}), below the guard; no production attaining it is followed exactly", rel=rel, node=node)
