"""rule families shared by several properties (each property module passes its own rule id)"""
import ast

from .common import *
from ..interp import truth, pure_sym, Unsupported
from ..load import AnchorMissing

CONVERTER = "RevolveCheckpointSchedule"
UNIT_PARAMS = ("snapshots", "snapshots_in_ram", "snapshots_on_disk", "binomial_snapshots")


def cfgs(run_):
    c = run_.cfg_text()
    return f" under {c}" if c else ""


def is_write(rec):
    if rec.kind != "Forward":
        return False
    st = rec.state
    wi, wa, sto = rec.arg(2, "write_ics"), rec.arg(3, "write_adj_deps"), rec.arg(4, "storage")
    return truth(st, wi) is True or (truth(st, wa) is True and sto != WORK)


def flags_known(rec):
    st = rec.state
    return truth(st, rec.arg(2, "write_ics")) is not None and truth(st, rec.arg(3, "write_adj_deps")) is not None


def trk_values(st):
    out = {}
    for k, v in st.enums.items():
        if k.startswith("$trk(") and v[0] == "in":
            out[k[5:-1]] = set(v[1])
    return out


def top_syms(it, c):
    ar = it.container_arity.get(c)
    return (f"top({c}).1" if ar and ar > 1 else f"top({c})")


# ------------------------------------------------------------------ START
def rule_start(chk, rid, runs):
    chk.describe(rid, "every Forward starts at the step where the forward state currently is (n at the previous action)")
    for run_ in runs:
        for rec in recs(run_.interp):
            if rec.kind == "Forward" and is_lin(rec.arg(0)):
                tri(chk, rid, ycons(run_, rec), prove_eq(rec.state, rec.arg(0) - NPREV), run_, rec,
                    "n0 of the Forward minus the forward position")


# ------------------------------------------------------------------ TRACK / LOAD / PAIR
def rule_track(chk, rid, runs, what="tracking"):
    """write <=> push of n0, Move <=> removal of the moved step, Copy <=> no removal
    (except the persistent seed of a repeatable pass)"""
    chk.describe(rid, "tracking is faithful: checkpoint write <=> push of its step, Move <=> removal, Copy <=> no removal")
    for run_ in runs:
        it = run_.interp
        if not it.containers:
            continue
        multi = multipass(run_)
        if run_.owner == CONVERTER:
            conv_track(chk, rid, run_)
            continue
        for rec in it.yields:
            st, cons = rec.state, ycons(run_, rec)
            trk = trk_values(st)
            if not trk:
                continue
            pend = {c: v for c, v in trk.items()}
            if rec.kind == "Forward" and not flags_known(rec):
                chk.decide(rid, cons, None, "write flags not resolved", rel=run_.rel, node=rec.node)
                continue
            if is_write(rec):
                a = rec.arg(0)
                for c, v in pend.items():
                    if v == {"P"}:
                        res = prove_eq(st, Lin.sym(top_syms(it, c)) - a) if is_lin(a) else (None, "n0 not linear")
                        tri(chk, rid, cons + f"/push({c})", res, run_, rec, f"step pushed on {c} before the write minus its n0")
                    elif v == {"0"}:
                        pass   # push must follow: checked at the push and at the next yield ("W" pending)
                    else:
                        chk.decide(rid, cons + f"/push({c})", False if v <= {"X", "ERR"} else None,
                                   f"checkpoint write with {c} in tracking state {sorted(v)}" + cfgs(run_),
                                   rel=run_.rel, node=rec.node)
            else:
                for c, v in pend.items():
                    if "X" in v and rec.kind not in ("Move", "Copy"):
                        chk.decide(rid, cons + f"/dropped({c})", False if v == {"X"} else None,
                                   f"an element was removed from {c} but {rec.yid} is not a Move: the checkpoint is no longer "
                                   "tracked although it is still stored" + cfgs(run_), rel=run_.rel, node=rec.node)
                    if "W" in v:
                        chk.decide(rid, cons + f"/owed({c})", False if v == {"W"} else None,
                                   f"{rec.yid} is reached although the checkpoint written by the previous Forward was never "
                                   f"recorded in {c}" + cfgs(run_), rel=run_.rel, node=rec.node)
                    if "P" in v:
                        chk.decide(rid, cons + f"/extra({c})", False if v == {"P"} else None,
                                   f"a step was recorded in {c} but {rec.yid} does not write a checkpoint" + cfgs(run_),
                                   rel=run_.rel, node=rec.node)
            if rec.kind == "Move" and rec.arg(2, "to_storage") == WORK:
                x = rec.arg(0)
                popped = [c for c, v in pend.items() if v == {"X"}]
                if popped:
                    for c in popped:
                        tri(chk, rid, cons + f"/pop({c})", prove_eq(st, Lin.sym(f"popped({c})") - x), run_, rec,
                            f"step removed from {c} minus the step moved")
                    # containers that are pushed together must be popped together
                    pushed = {cc for _, cc, op, _, _ in it.cops if op == "push"}
                    for c in sorted(pushed - set(popped)):
                        v = pend.get(c)
                        if v == {"0"}:
                            chk.decide(rid, cons + f"/pop({c})", False,
                                       f"the moved step is removed from {popped} but stays recorded in {c}: the schedule "
                                       "will name a checkpoint that no longer exists / report leftovers" + cfgs(run_),
                                       rel=run_.rel, node=rec.node)
                else:
                    definite = all(v == {"0"} for v in pend.values())
                    chk.decide(rid, cons + "/pop", False if definite else None,
                               "Move deletes a checkpoint but nothing is removed from the tracking container(s): the "
                               "schedule will name it again or report leftovers" + cfgs(run_), rel=run_.rel, node=rec.node)
            if rec.kind == "Copy" and rec.arg(2, "to_storage") == WORK:
                x = rec.arg(0)
                for c, v in pend.items():
                    if v == {"X"}:
                        seed = Lin.sym(f"seed({c})")
                        is_seed = is_lin(x) and st.entails_eq(x - seed) == "yes"
                        if multi and is_seed:
                            chk.decide(rid, cons + f"/seed({c})", True,
                                       "the block's forward-sweep checkpoint leaves the container but stays stored (Copy): persistent across passes",
                                       rel=run_.rel, node=rec.node)
                        else:
                            chk.decide(rid, cons + f"/pop({c})", False,
                                       f"a step is removed from {c} but the checkpoint is only copied: it is never deleted "
                                       "(storage is not clean at the end / the unit count drifts)" + cfgs(run_),
                                       rel=run_.rel, node=rec.node)
                    elif v == {"0"}:
                        chk.decide(rid, cons + f"/keep({c})", True, "Copy leaves the tracked element in place",
                                   rel=run_.rel, node=rec.node, nontrivial=False)
        # pushes after a write yield: value pushed == n0 of that write
        for node, c, op, vals, st in it.cops:
            if op != "push":
                continue
            # state recorded after the push, before the trk transition
            t = st.enum_single(f"$trk({c})")
            if t == "W":
                v = vals[1] if len(vals) > 1 else vals[0]
                cons = f"{run_.construct}#push({c})@{getattr(node, 'lineno', 0)}"
                ordn = sorted({getattr(n, 'lineno', 0) for n, cc, o, _, _ in it.cops if o == "push" and cc == c})
                cons = f"{run_.construct}#push-{c}[{ordn.index(getattr(node, 'lineno', 0))}]"
                if is_lin(v):
                    ok, why = prove_eq(st, v - Lin.sym("arg0@prev"))
                    chk.decide(rid, cons, ok, f"step pushed after the write minus the n0 just written: {why}" + cfgs(run_),
                               rel=run_.rel, node=node)
                else:
                    chk.decide(rid, cons, None, "pushed value not linear", rel=run_.rel, node=node)


def conv_track(chk, rid, run_):
    """converter: a tracked step is added exactly when the Forward carries write_ics,
    and removed exactly when a Move is emitted"""
    it = run_.interp
    for rec in it.yields:
        st, cons = rec.state, ycons(run_, rec)
        trk = trk_values(st)
        if rec.kind == "Forward":
            wi = truth(st, rec.arg(2))
            for c, v in trk.items():
                if wi is True:
                    ok = v == {"P"}
                    chk.decide(rid, cons + f"/push({c})", True if ok else (False if v == {"0"} else None),
                               f"Forward with write_ics: tracking state {sorted(v)}", rel=run_.rel, node=rec.node)
                    if ok:
                        tri(chk, rid, cons + f"/push({c})", prove_eq(st, Lin.sym(top_syms(it, c)) - rec.arg(0)), run_, rec,
                            "tracked step minus n0 of the writing Forward")
                elif wi is False:
                    chk.decide(rid, cons + f"/nopush({c})", True if v == {"0"} else (False if v == {"P"} else None),
                               f"Forward without write_ics: tracking state {sorted(v)}", rel=run_.rel, node=rec.node)
        if rec.kind == "Move":
            for c, v in trk.items():
                ok = v == {"X"}
                chk.decide(rid, cons + f"/pop({c})", True if ok else (False if v == {"0"} else None),
                           f"Move: tracking state {sorted(v)}", rel=run_.rel, node=rec.node)
                if ok:
                    tri(chk, rid, cons + f"/pop({c})", prove_eq(st, Lin.sym(f"popped({c})") - rec.arg(0)), run_, rec,
                        "removed step minus the step moved")
        if rec.kind == "Copy":
            for c, v in trk.items():
                chk.decide(rid, cons + f"/keep({c})", True if v == {"0"} else (False if v == {"X"} else None),
                           f"Copy: tracking state {sorted(v)}", rel=run_.rel, node=rec.node)
        if rec.kind not in ("Move", "Copy"):
            for c, v in trk.items():
                if "X" in v:
                    chk.decide(rid, cons + f"/dropped({c})", False if v == {"X"} else None,
                               f"an element was removed from {c} but {rec.yid} is not a Move: the checkpoint is no longer "
                               "tracked although it is still stored (the leftover guard cannot see it)", rel=run_.rel, node=rec.node)


def rule_load(chk, rid, runs):
    chk.describe(rid, "a Copy/Move to WORK names a step recorded in the tracking container (its top / the element just removed)")
    for run_ in runs:
        it = run_.interp
        if run_.owner == CONVERTER:
            continue
        for rec in it.yields:
            if rec.kind not in ("Copy", "Move") or rec.arg(2, "to_storage") != WORK:
                continue
            st, cons, x = rec.state, ycons(run_, rec), rec.arg(0)
            if not it.containers:
                continue
            if not is_lin(x):
                chk.decide(rid, cons, None, "step not linear", rel=run_.rel, node=rec.node)
                continue
            best = (None, "no tracked element related to the step")
            for c in sorted(it.containers):
                trk = trk_values(st).get(c, set())
                cand = Lin.sym(f"popped({c})") if trk == {"X"} else Lin.sym(top_syms(it, c))
                r = prove_eq(st, x - cand)
                if r[0] is True:
                    best = r
                    break
                if r[0] is False and best[0] is None:
                    best = r
            tri(chk, rid, cons, best, run_, rec, "step loaded minus the tracked element")


# ------------------------------------------------------------------ WORK typestate
def rule_work(chk, rid, runs, skip_classes=(), hold=True):
    chk.describe(rid, "working-storage typestate: Reverse only with adjoint data present, loads only into empty WORK, "
                      "adjoint data written only when none is held")
    for run_ in runs:
        if run_.owner == CONVERTER:
            chk.note(f"{rid}: not decided for the converter (depends on the operation sequence; the adjacency of "
                     "Write_Forward/Forward/Backward is decided on the grammar)")
            continue
        if run_.cname in skip_classes:
            continue
        for rec in run_.interp.yields:
            st, cons = rec.state, ycons(run_, rec)
            w = st.enum_get("$work")
            vals = set(w[1]) if w and w[0] == "in" else None
            # the working-storage typestate is a property of the whole path to this action.  Where the path branches on
            # the step *kinds* returned by a planner (run-time table values, known to the analysis only through the
            # planner's return-case summary), a violating path may be one the planner never takes: not a definite verdict
            plan_dep = any(k.startswith("@plan") and k.endswith(".k") for k in st.enums)

            def soften(ok):
                return None if (ok is False and plan_dep) else ok
            _decide = chk.decide

            def decide(rule, cons_, ok, detail, **kw):
                if ok is False and plan_dep:
                    ok, detail = None, detail + " [not definite: the path depends on the step kinds the planner returns]"
                return _decide(rule, cons_, ok, detail, **kw)
            if rec.kind == "Reverse":
                need = {"A", "A*"}
                # a multi-step Reverse needs the data of all its steps
                ok = None if vals is None else (True if vals <= need else (False if not (vals & need) else None))
                p2 = "/pass2" if st.enum_is("$er", "1") == "yes" else ""
                decide(rid, cons + p2, ok, f"working storage is {sorted(vals) if vals else '?'} when Reverse is emitted"
                           + ("" if ok is not False else ": no adjoint dependency data for the steps to be reversed")
                           + cfgs(run_), rel=run_.rel, node=rec.node)
            elif rec.kind in ("Copy", "Move") and rec.arg(2, "to_storage") == WORK:
                ok = None if vals is None else (True if vals <= {"E"} else (False if "E" not in vals else None))
                decide(rid, cons, ok, f"working storage is {sorted(vals) if vals else '?'} when a checkpoint is loaded"
                           + ("" if ok is not False else ": it still holds unused restart data or adjoint dependencies")
                           + cfgs(run_), rel=run_.rel, node=rec.node)
            elif hold and rec.kind == "Forward" and rec.arg(4, "storage") == WORK and truth(st, rec.arg(3)) is True \
                    and run_.cname not in skip_classes:
                ok = None if vals is None else (True if not (vals & {"A", "A*"}) else (False if vals <= {"A", "A*"} else None))
                decide(rid, cons, ok, f"working storage is {sorted(vals) if vals else '?'} when adjoint dependencies are written to it"
                           + ("" if ok is not False else ": it would hold the data of more than one step") + cfgs(run_),
                           rel=run_.rel, node=rec.node)


# ------------------------------------------------------------------ capacity / units
def param_attrs(repo, cname):
    """constructor parameter -> the attribute of self that holds it (from the stores of the constructor chain:
    `self.X = p`, or `self.X = min(p, ...)` / another expression in which p is the only unit parameter) - the
    attribute's name does not matter"""
    out = {}
    try:
        rel, c, f = repo.resolve_method(cname, "__init__")
    except AnchorMissing:
        return out
    params = {a.arg for a in f.args.args} | {a.arg for a in f.args.kwonlyargs}
    # locals of the constructor that stand for a parameter (p = min(p, ...), q = p)
    for _, cc in repo.mro(cname):
        for g in cc.body:
            if not (isinstance(g, ast.FunctionDef) and g.name == "__init__"):
                continue
            gparams = {a.arg for a in g.args.args} | {a.arg for a in g.args.kwonlyargs}
            for a in ast.walk(g):
                if not isinstance(a, ast.Assign):
                    continue
                names = {x.id for x in ast.walk(a.value) if isinstance(x, ast.Name)} & gparams
                units = names & set(UNIT_PARAMS)
                src = next(iter(units)) if len(units) == 1 else (next(iter(names)) if len(names) == 1 else None)
                # the number of positions labelled RAM / DISK is the RAM / DISK budget the schedule works with
                v = a.value
                if isinstance(v, ast.Call) and isinstance(v.func, ast.Attribute) and v.func.attr == "count" and len(v.args) == 1 \
                        and isinstance(v.args[0], ast.Attribute) and isinstance(v.args[0].value, ast.Name) \
                        and v.args[0].value.id == "StorageType":
                    src = {"RAM": "snapshots_in_ram", "DISK": "snapshots_on_disk"}.get(v.args[0].attr)
                    if src not in gparams:
                        src = None
                if src is None or src not in params:
                    continue
                for t in a.targets:
                    if isinstance(t, ast.Attribute) and isinstance(t.value, ast.Name) and t.value.id == "self":
                        out.setdefault(src, "self." + t.attr)
    return out


def declared_capacity(repo, run_):
    """sum of the attributes that hold the unit parameters of the constructor, as Lin, or None"""
    rel, c, f = repo.resolve_method(run_.cname, "__init__")
    pa = param_attrs(repo, run_.cname)
    attrs = sorted({a for p_, a in pa.items() if p_ in UNIT_PARAMS})
    if not attrs:
        return None, attrs
    cap = Lin.const(0)
    for a in attrs:
        cap = cap + Lin.sym(a)
    return cap, attrs


def seeds_of(it):
    """number of seed elements per container (elements the container is initialised with)"""
    out = {}
    for node, c, op, vals, st in it.cops:
        if op == "init":
            out[c] = max(out.get(c, 0), len(vals))
    return out


def rule_units(chk, rid, runs, repo):
    chk.describe(rid, "n_advance(steps, units): units == capacity - depth (+1 directly after a Copy of the re-usable top "
                      "element); every push keeps depth <= capacity; capacity guards compare against the declared capacity")
    for run_ in runs:
        it = run_.interp
        calls = [c for c in it.calls if c.name == "n_advance"]
        if not calls and not any(op == "push" for _, _, op, _, _ in it.cops):
            continue
        if run_.owner == CONVERTER:
            continue
        cap, attrs = declared_capacity(repo, run_)
        seeds = seeds_of(it)
        conts = [c for c in sorted(it.containers) if any(cc == c and op == "push" for _, cc, op, _, _ in it.cops)]
        if cap is None or not conts:
            continue
        c0 = conts[-1] if len(conts) > 1 else conts[0]
        capc = cap + Lin.const(seeds.get(c0, 0))
        D = Lin.sym(f"len({c0})")
        ecalls = [c for c in getattr(it, "early_calls", []) if c.name == "n_advance"]
        for cr in calls + ecalls:
            st = cr.state
            early = cr in ecalls
            units = cr.args[1] if len(cr.args) > 1 else cr.kwargs.get("snapshots")
            cons = f"{run_.construct}#call-n_advance[{cr.ordinal}]"
            if not is_lin(units):
                if not early:
                    chk.decide(rid, cons, None, "units argument not linear", rel=run_.rel, node=cr.node)
                continue
            ls = last_set(st) or set()
            after_copy = bool(ls) and all(y.startswith("Copy[") for y in ls)
            want = capc - D + (ONE if after_copy else Lin.const(0))
            ok, why = prove_eq_cases(it, st, units - want)
            if early and ok is not False:
                continue
            chk.decide(rid, cons, ok, f"units - (capacity[{capc}] - depth{' + 1 after Copy' if after_copy else ''}): {why}"
                       + cfgs(run_), rel=run_.rel, node=cr.node)
        # pushes stay within capacity
        lines = sorted({getattr(n, 'lineno', 0) for n, cc, o, _, _ in it.cops if o == "push" and cc == c0})
        for node, c, op, vals, st in it.cops:
            if op != "push" or c != c0:
                continue
            cons = f"{run_.construct}#push-{c}[{lines.index(getattr(node, 'lineno', 0))}]/cap"
            ok, why = prove_ge(st, capc - D)
            chk.decide(rid, cons, ok, f"capacity[{capc}] - depth after the push >= 0: {why}" + cfgs(run_),
                       rel=run_.rel, node=node)


# ------------------------------------------------------------------ advance argument
def rule_adv(chk, rid, runs, names=("n_advance", "mixed_step_memoization")):
    chk.describe(rid, "the planner is asked for exactly the distance to the adjoint position: steps == max_n - r - n0")
    for run_ in runs:
        it = run_.interp
        crecs = [(c.node, c.name, c.ordinal, c.args, c.state, False) for c in it.calls if c.name in names]
        crecs += [(c.node, c.name, c.ordinal, c.args, c.state, True) for c in getattr(it, "early_calls", []) if c.name in names]
        # tabulated arm: schedule[steps, units]
        sites = sorted({(node.lineno, node.col_offset) for node, base, idx, st in it.subs
                        if base == "schedule" and isinstance(idx, tuple) and len(idx) == 2})
        for node, base, idx, st in it.subs:
            if base == "schedule" and isinstance(idx, tuple) and len(idx) == 2:
                crecs.append((node, "schedule[]", sites.index((node.lineno, node.col_offset)), list(idx), st, False))
        for node, name, ordinal, args, st, early in crecs:
            cons = f"{run_.construct}#call-{name}[{ordinal}]"
            steps = args[0] if args else None
            if not is_lin(steps):
                if not early:
                    chk.decide(rid, cons, None, "steps argument not linear", rel=run_.rel, node=node)
                continue
            # the advance starts where the forward state is when the planner is asked (C01.START: the Forward that
            # follows starts at n); a stack element is an admissible reference only while it is that position
            mentioned = set()
            argnode = None
            if isinstance(node, ast.Call) and node.args:
                argnode = node.args[0]
            elif isinstance(node, ast.Subscript):
                argnode = node.slice.elts[0] if isinstance(node.slice, ast.Tuple) and node.slice.elts else node.slice
            if argnode is not None:
                for x_ in ast.walk(argnode):
                    if isinstance(x_, ast.Name):
                        mentioned.add(x_.id)
                    elif isinstance(x_, ast.Attribute) and isinstance(x_.value, ast.Name) and x_.value.id == "self":
                        mentioned.add("self." + x_.attr)
            # a parameter of an inlined helper stands for the argument it was called with
            psrc = getattr(it, "param_src", {})
            for _ in range(3):
                for v in list(mentioned):
                    if v in psrc:
                        for x_ in ast.walk(psrc[v]):
                            if isinstance(x_, ast.Name):
                                mentioned.add(x_.id)
                            elif isinstance(x_, ast.Attribute) and isinstance(x_.value, ast.Name) and x_.value.id == "self":
                                mentioned.add("self." + x_.attr)
            mentioned -= {"self._max_n", "self._r", "self"}

            def admissible(x):
                # a stack element is a reference position if it is the forward position, or if the argument is written
                # relative to it (the planner is asked what would happen from that checkpoint)
                if st.entails_eq(x - N) == "yes":
                    return True
                return any(st.entails_eq(Lin.sym(v) - x) == "yes" for v in mentioned)
            cands = [N] + [x for x in [Lin.sym(top_syms(it, c)) for c in sorted(it.containers)] +
                           [Lin.sym(f"popped({c})") for c in sorted(it.containers)] if admissible(x)]
            verdict, why = None, ""
            consts = []
            for x in cands:
                r = st.entails_eq(steps - (M - R - x))
                if r == "yes":
                    verdict = True
                    break
                if isinstance(r, tuple):
                    consts.append(r[1])
            if verdict is None and consts:
                verdict, why = False, f"off by the constant {consts[0]} from max_n - r - (current step)"
            elif verdict is None:
                # provably different from max_n - r - x for every admissible position x
                def nonzero(d):
                    return st.entails_neq(d) or st.entails_ineq(d - ONE) or st.entails_ineq(-d - ONE)
                live_c = [x for x in cands if not (pure_sym(x) and pure_sym(x) not in st.symbols())]
                if live_c and all(nonzero(steps - (M - R - x)) for x in live_c):
                    verdict, why = False, (f"provably different from max_n - r - (current step): the difference "
                                           f"{st.reduce(steps - (M - R - N))} cannot be zero here")
            elif verdict is None:
                why = f"residual {st.reduce(steps - (M - R - N))}"
            if early and verdict is not False:
                continue
            chk.decide(rid, cons, verdict, f"steps argument {st.reduce(steps)} vs max_n - r - position: {why or 'equal'}"
                       + cfgs(run_), rel=run_.rel, node=node)


# ------------------------------------------------------------------ configuration attributes
def _cases(it, st, e, prover):
    """prover(st, e) with case analysis on the min/max atoms in the residual"""
    r = prover(st, e)
    if r[0] is not None or it is None:
        return r
    res = st.reduce(e)
    atoms = [k for k in it.minmax if k in res.t]
    if not atoms:
        return r
    k = atoms[0]
    kind, a, b = it.minmax[k]
    A, B, K = Lin.sym(a), Lin.sym(b), Lin.sym(k)
    verdicts = []
    for pick, other in ((A, B), (B, A)):
        s2 = st.copy()
        s2.add_eq(K - pick)
        s2.add_ineq((other - pick) if kind == "min" else (pick - other))
        if s2.bottom or s2.infeasible():
            continue
        verdicts.append(_cases(it, s2, e, prover))
    if verdicts and all(v[0] is True for v in verdicts):
        return True, "entailed in every case of " + kind
    return None, r[1]


def _config_attrs(repo, cname):
    """attributes whose constructor value derives from a constructor parameter (the declared units, period,
    storages, trajectory ...), as opposed to run-time state initialised with a literal"""
    cfg = set()
    for _, cc in repo.mro(cname):
        for f in cc.body:
            if not (isinstance(f, ast.FunctionDef) and f.name == "__init__"):
                continue
            params = {a.arg for a in f.args.args + f.args.kwonlyargs} - {"self"}
            changed = True
            while changed:
                changed = False
                for n in ast.walk(f):
                    if not isinstance(n, ast.Assign):
                        continue
                    dep = any((isinstance(x, ast.Name) and x.id in params) or
                              (isinstance(x, ast.Attribute) and isinstance(x.value, ast.Name) and x.value.id == "self"
                               and x.attr in cfg) for x in ast.walk(n.value))
                    if not dep:
                        continue
                    for t in n.targets:
                        for x in ast.walk(t):
                            if isinstance(x, ast.Attribute) and isinstance(x.value, ast.Name) and x.value.id == "self" \
                                    and isinstance(x.ctx, ast.Store) and x.attr not in cfg:
                                cfg.add(x.attr)
                                changed = True
                            elif isinstance(x, ast.Name) and isinstance(x.ctx, ast.Store) and x.id not in params:
                                params.add(x.id)
                                changed = True
    return cfg - {"_n", "_r", "_max_n", "_exhausted", "iter", "_iter"}


def _loop_varying(fn):
    """names assigned inside a loop of fn, plus loop targets"""
    out = set()
    for l in ast.walk(fn):
        if isinstance(l, (ast.For, ast.While)):
            for n in ast.walk(l):
                if isinstance(n, ast.Name) and isinstance(n.ctx, ast.Store):
                    out.add(n.id)
    return out


def rule_config(chk, rid, ctx, classes=None, mode="eq"):
    """attributes that hold constructor parameters (the declared units, period, storage, trajectory ...) keep the
    constructor's value: every analysis starts from the constructor's facts about them, and a schedule that
    changes its own parameters while iterating no longer follows them.  mode "eq": a store outside __init__ must
    re-store the same value; mode "le" (budgets): it may only lower it.  A store whose value depends on a
    loop-varying local / the counters makes the configuration depend on the history: REFUTED (mode eq)."""
    repo = ctx.repo
    chk.describe(rid, "constructor-parameter attributes (units, period, storages) keep their constructor value"
                 + (" or only decrease" if mode == "le" else "") + " outside __init__")
    prover = prove_eq if mode == "eq" else (lambda st, e: prove_ge(st, -e))
    for cname in (classes or repo.schedule_classes()):
        rel, c = repo.find_class(cname)
        cfg = _config_attrs(repo, cname)
        recs_by_pos = {}
        try:
            runs = ctx.model.runs(cname) if cname in ctx.model.concrete_classes() else []
        except Exception:
            runs = []
        for run in runs:
            for node, sym, st, val in run.interp.astores:
                recs_by_pos.setdefault((node.lineno, node.col_offset), []).append((run, sym, st, val))
        bad = False
        for f in c.body:
            if not isinstance(f, ast.FunctionDef) or f.name == "__init__":
                continue
            vary = _loop_varying(f)
            for stmt in ast.walk(f):
                if isinstance(stmt, (ast.Assign, ast.AugAssign, ast.AnnAssign)):
                    tgts = stmt.targets if isinstance(stmt, ast.Assign) else [stmt.target]
                elif isinstance(stmt, ast.Delete):
                    tgts = stmt.targets
                else:
                    continue
                for t in tgts:
                    for n in ast.walk(t):
                        if not (isinstance(n, ast.Attribute) and isinstance(n.ctx, (ast.Store, ast.Del))
                                and isinstance(n.value, ast.Name) and n.value.id == "self" and n.attr in cfg):
                            continue
                        cons = f"{rel[:-3]}.{cname}.{f.name}#store-{n.attr}"
                        value = getattr(stmt, "value", None)
                        if isinstance(stmt, ast.Assign) and isinstance(value, ast.Attribute) and isinstance(value.value, ast.Name) \
                                and value.value.id == "self" and value.attr == n.attr:
                            continue      # self.x = self.x
                        rs = recs_by_pos.get((n.lineno, n.col_offset), [])
                        verdicts = []
                        for run, sym, st, val in rs:
                            if isinstance(val, Lin):
                                verdicts.append(_cases(run.interp, st, val - Lin.sym(sym), prover))
                            elif isinstance(val, Tok):
                                e = st.enum_single(sym) if hasattr(st, "enum_single") else None
                                verdicts.append((True, "same token") if e == val.v else (None, "token not known equal"))
                            else:
                                verdicts.append((None, "value not tracked"))
                        names = set()
                        if value is not None:
                            for x in ast.walk(value):
                                if isinstance(x, ast.Name):
                                    names.add(x.id)
                                elif isinstance(x, ast.Attribute) and isinstance(x.value, ast.Name) and x.value.id == "self":
                                    names.add("self." + x.attr)
                        hist = sorted((names & vary) | (names & {"self._n", "self._r"}))
                        if rs and all(v[0] is True for v in verdicts):
                            chk.decide(rid, cons, True, f"{cname}.{f.name} re-stores self.{n.attr} with a value that is "
                                       + ("equal to" if mode == "eq" else "not above") + " the constructor's in every reachable state",
                                       rel=rel, node=n)
                        elif mode == "eq" and hist:
                            bad = True
                            chk.decide(rid, cons, False,
                                       f"{cname}.{f.name} re-assigns self.{n.attr}, which holds a constructor parameter, with a value "
                                       f"depending on {hist} (loop-varying / position): later blocks and passes run with parameters that "
                                       "depend on the history instead of the ones the schedule was built with", rel=rel, node=n)
                        else:
                            bad = True
                            chk.decide(rid, cons, None,
                                       f"{cname}.{f.name} re-assigns self.{n.attr}, which holds a constructor parameter; the value is not "
                                       "provably " + ("the same" if mode == "eq" else "at most the declared one")
                                       + (": " + verdicts[0][1] if verdicts else " (store not reached by the generator analysis)"),
                                       rel=rel, node=n)
        if not bad:
            chk.decide(rid, f"{rel[:-3]}.{cname}#config-attributes", True,
                       f"constructor-parameter attributes {sorted(cfg)} keep their constructor value outside __init__",
                       rel=rel, node=c, nontrivial=False)


REFUTED_ = "REFUTED"


# ------------------------------------------------------------------ declared budgets
def rule_declared(chk, rid, ctx, classes=None):
    """the unit counts a schedule works with never exceed the ones it was constructed with: in every exactly
    evaluated constructor outcome the stored unit attribute is at most the parameter it is named after"""
    chk.describe(rid, "the stored unit counts never exceed the constructor arguments they are named after")
    repo = ctx.repo
    for cname in (classes or ctx.model.concrete_classes()):
        try:
            rel, c, f = repo.resolve_method(cname, "__init__")
        except AnchorMissing:
            continue
        params = {a.arg for a in f.args.args} | {a.arg for a in f.args.kwonlyargs}
        units = sorted(p for p in params if p in UNIT_PARAMS)
        if not units:
            continue
        try:
            rel2, c2, f2, it = ctx.model.init_run(cname, exact=True)
        except Unsupported:
            continue
        pa = param_attrs(repo, cname)
        for p in units:
            aname = pa.get(p, "self._" + p)
            attr = Lin.sym(aname)
            par = Lin.sym(p)
            cons = f"{rel[:-3]}.{cname}.__init__#declared-{p}"
            verdicts = []
            for o in it.outcomes:
                if o.kind not in ("end", "return"):
                    continue
                st = o.state
                if aname not in st.symbols() and st.enum_get(aname) is None:
                    continue        # not an integer the constructor analysis follows (e.g. a count of labels): no statement
                if st.enum_is(aname, "None") == "yes" or st.enum_is(p, "None") == "yes":
                    continue
                red = st.reduce(attr)
                free = set(red.t) == {aname} and not any(aname in i.t for i in st.ineq)
                if free or any(k.startswith("@") and k not in getattr(it, "minmax", {}) for k in red.t):
                    continue        # the stored value comes from a computation the constructor analysis has no model of
                                    # (a count of labels): its bound is the business of SLICE / BOUND
                if st.entails_ineq(par - attr):
                    verdicts.append((True, "stored <= declared"))
                    continue
                s2 = st.copy()
                s2.add_ineq(attr - par - ONE)
                if s2.bottom or s2.infeasible():
                    verdicts.append((True, "stored <= declared"))
                else:
                    w = s2.reduce(attr - par)
                    verdicts.append((False, f"an accepted argument region stores more units than declared "
                                            f"({aname} - {p} = {w} >= 1 is feasible there, e.g. for the smallest accepted {p})"))
            if not verdicts:
                continue
            if any(v[0] is False for v in verdicts) and not getattr(it, "fuzzy", None):
                bad = next(v for v in verdicts if v[0] is False)
                chk.decide(rid, cons, False, f"{cname}: " + bad[1], rel=rel, node=f)
            elif all(v[0] is True for v in verdicts):
                chk.decide(rid, cons, True, f"{cname}: {aname} <= {p} in all {len(verdicts)} constructor outcomes", rel=rel, node=f)
            else:
                chk.decide(rid, cons, None, f"{cname}: " + next(v[1] for v in verdicts if v[0] is not True), rel=rel, node=f)


def stored_by_constructors(repo, cname):
    """names available on every instance of cname right after construction: attributes stored by an __init__ of the MRO,
    class-level names, methods and properties"""
    have = set()
    for _, cc in repo.mro(cname):
        for b_ in cc.body:
            if isinstance(b_, ast.FunctionDef):
                have.add(b_.name)
                if b_.name == "__init__":
                    for x in ast.walk(b_):
                        if isinstance(x, (ast.Assign, ast.AugAssign, ast.AnnAssign)):
                            for t in (x.targets if isinstance(x, ast.Assign) else [x.target]):
                                for y in ast.walk(t):
                                    if isinstance(y, ast.Attribute) and isinstance(y.value, ast.Name) and y.value.id == "self":
                                        have.add(y.attr)
            elif isinstance(b_, ast.Assign):
                have |= {t.id for t in b_.targets if isinstance(t, ast.Name)}
    return have


def rule_observer_attrs(chk, rid, repo, cname, observers):
    """an observer that can be read at any time reads only attributes that exist from construction on"""
    have = stored_by_constructors(repo, cname)
    for oname in observers:
        try:
            rel, c, f = repo.resolve_method(cname, oname)
        except AnchorMissing:
            continue
        reads = {x.attr for x in ast.walk(f) if isinstance(x, ast.Attribute) and isinstance(x.value, ast.Name) and x.value.id == "self"
                 and isinstance(x.ctx, ast.Load)}
        # hasattr(self, "x") guards make a read conditional: not an unconditional read
        guarded = {x.args[1].value for x in ast.walk(f) if isinstance(x, ast.Call) and getattr(x.func, "id", None) == "hasattr"
                   and len(x.args) == 2 and isinstance(x.args[1], ast.Constant)}
        missing = sorted(reads - have - guarded)
        chk.decide(rid, f"{rel[:-3]}.{c.name}.{oname}@{cname}#attributes", True if not missing else False,
                   f"{oname} reads {sorted(reads)}" + ("" if not missing else f"; {missing} is not stored by the constructors of {cname}: "
                                                       "reading it before the first action raises AttributeError"),
                   rel=rel, node=f, nontrivial=False)


import re as _re
_STEP_NAME = _re.compile(r"^(cp_|w_|d_)?n(_?\d)?s?$|^(self\.)?_?(max_n|n|r)$|^steps?$")


def rule_identity(chk, rid, repo, functions):
    """step numbers are compared by value: `a is b` / `a is not b` on integers is true only while both happen to be the
    same object (CPython shares small integers up to 256), so a guard or loop condition written that way changes its
    meaning for longer calculations.  An operand is known to be a number if it is a counter attribute (_n, _r, _max_n),
    a name of the step vocabulary (n0, n_1, cp_n, max_n, ...), an arithmetic expression or an integer literal."""
    def numeric(e):
        if isinstance(e, ast.Constant) and isinstance(e.value, int) and not isinstance(e.value, bool):
            return True
        if isinstance(e, ast.BinOp):
            return True
        if isinstance(e, ast.Name):
            return bool(_STEP_NAME.match(e.id))
        if isinstance(e, ast.Attribute) and isinstance(e.value, ast.Name) and e.value.id == "self":
            return e.attr in ("_n", "_r", "_max_n")
        return False

    def singleton(e):
        return (isinstance(e, ast.Constant) and (e.value is None or isinstance(e.value, bool))) or \
            (isinstance(e, ast.Attribute) and isinstance(e.value, ast.Name) and e.value.id[:1].isupper())
    def hits(f):
        for x in ast.walk(f):
            if isinstance(x, ast.Compare) and any(isinstance(o, (ast.Is, ast.IsNot)) for o in x.ops):
                operands = [x.left] + list(x.comparators)
                if any(singleton(e) for e in operands):
                    yield x, False
                else:
                    yield x, any(numeric(e) for e in operands)
    # the expected count on a correct tree is zero: a built-in positive example must match on every run
    canary = ast.parse("def f(self, n0, x):\n    if self._r is self._max_n: pass\n    if n0 is not x: pass\n"
                       "    if x is None: pass\n    if x is not StorageType.RAM: pass\n").body[0]
    got = [flag for _, flag in hits(canary)]
    if got != [True, True, False, False]:
        chk.error(f"{rid}: identity rule does not match its built-in example ({got})")
    scanned = seen = 0
    for rel, q, f in functions:
        k = 0
        scanned += 1
        for x, flag in hits(f):
            seen += 1
            if flag:
                chk.decide(rid, f"{rel[:-3].replace('/', '.')}.{q}#identity[{k}]", False,
                           f"`{ast.unparse(x)}` compares step numbers by identity: equal integers above CPython's small-integer "
                           "cache are distinct objects, so the test changes its outcome for calculations with more than 256 steps",
                           rel=rel, node=x, nontrivial=False)
                k += 1
    chk.note(f"{rid}: identity rule: {scanned} functions scanned, {seen} identity comparisons, all others with None / bool / enum "
             "operands; built-in positive example matched")
