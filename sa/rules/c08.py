"""C08 - n, r and max_n always report where the execution actually is.

Decided at every `yield` of every schedule generator (AFF dataflow facts):
  N-FWD   self._n == n1 at `yield Forward(n0, n1, ...)`
  N-LOAD  self._n == x  at `yield Copy/Move(x, S, WORK)` of restart data
  R-REV   hi == max_n - r_before and self._r == max_n - lo at `yield Reverse(hi, lo, .)`
  R-END   at `yield EndReverse()`: r == 0 iff another adjoint pass is permitted
          (multiplicity read off the loop structure), otherwise r is the value
          last reported
  MAXN    who may write _n/_r/_max_n (effects), finalize stores n in both
"""
import ast

from .common import *
from . import shared


def run(chk, ctx):
    chk.describe("C08.N-FWD", "self._n equals the end step of the Forward being yielded")
    chk.describe("C08.N-LOAD", "self._n equals the step of the restart checkpoint being loaded")
    chk.describe("C08.R-REV", "Reverse(hi, lo): hi == max_n - r_before and r_after == max_n - lo")
    chk.describe("C08.R-END", "r is reset at EndReverse iff another adjoint calculation is permitted")
    chk.describe("C08.MAXN", "only the constructor, finalize and the generators write _n/_r/_max_n")
    for cname_ in ctx.model.concrete_classes():
        shared.rule_observer_attrs(chk, "C08.MAXN", ctx.repo, cname_, ("n", "r", "max_n"))
    for run_ in all_runs(chk, ctx):
        it = run_.interp
        multi = multipass(run_)
        for rec in recs(it):
            st, cons = rec.state, ycons(run_, rec)
            if rec.early and rec.kind == "EndReverse":
                continue
            if rec.kind == "Forward":
                b = rec.arg(1, "n1")
                if is_lin(b):
                    tri(chk, "C08.N-FWD", cons, prove_eq(st, N - b), run_, rec, "self._n - n1")
                elif not rec.early:
                    chk.decide("C08.N-FWD", cons, None, "n1 is not an integer term", rel=run_.rel, node=rec.node)
            elif rec.kind in ("Copy", "Move"):
                x, to = rec.arg(0, "n"), rec.arg(2, "to_storage")
                if to != WORK:
                    continue
                hook = it.hooks.get("load_kind")
                if hook and hook(it, rec, st) in ("A", "?") and run_.owner != "RevolveCheckpointSchedule":
                    if not rec.early:
                        chk.note(f"{cons}: adjoint-dependency checkpoint load, no forward state defined (exempt from N-LOAD)")
                    continue
                if is_lin(x):
                    tri(chk, "C08.N-LOAD", cons, prove_eq(st, N - x), run_, rec, "self._n - loaded step")
                elif not rec.early:
                    chk.decide("C08.N-LOAD", cons, None, "step is not an integer term", rel=run_.rel, node=rec.node)
            elif rec.kind == "Reverse":
                hi, lo = rec.arg(0, "n1"), rec.arg(1, "n0")
                if is_lin(hi) and is_lin(lo):
                    a = prove_eq(st, hi - M + RPREV)
                    b = prove_eq(st, R - M + lo)
                    if run_.owner == "RevolveCheckpointSchedule" and b[0] is None:
                        # r' == max_n - lo needs the unit length of Backward operations (C02.UNIT, GRAM)
                        b = prove_eq(st, R - RPREV - ONE)
                        what = "converter: r advanced by one per Backward (unit length imported from C02.UNIT)"
                        tri(chk, "C08.R-REV", cons, a, run_, rec, "hi - (max_n - r_before)")
                        tri(chk, "C08.R-REV", cons, b, run_, rec, what)
                        continue
                    tri(chk, "C08.R-REV", cons, a, run_, rec, "hi - (max_n - r_before)")
                    tri(chk, "C08.R-REV", cons, b, run_, rec, "r - (max_n - lo)")
                elif not rec.early:
                    chk.decide("C08.R-REV", cons, None, "non-integer bounds", rel=run_.rel, node=rec.node)
            elif rec.kind == "EndReverse":
                if multi:
                    tri(chk, "C08.R-END", cons, prove_eq(st, R), run_, rec,
                        "another pass is permitted, r must be reset: r")
                else:
                    res = prove_eq(st, R - RPREV)
                    if res[0] is None and st.entails_ineq(RPREV - R - ONE):
                        res = (False, "r was changed after the last Reverse although no further pass is permitted "
                                      f"(r = {st.reduce(R)}, last reported r = {st.reduce(RPREV)})")
                    tri(chk, "C08.R-END", cons, res, run_, rec, "single pass, r must keep the value last reported")
    # ---- MAXN: effects
    repo = ctx.repo
    base_rel, base = repo.find_class("CheckpointSchedule")
    chk.files.add(base_rel)
    allowed = {"_max_n": {"__init__", "finalize"}, "_n": {"__init__", "finalize", "_iterator"},
               "_r": {"__init__", "_iterator"}}
    names = ["CheckpointSchedule"] + repo.schedule_classes()

    def self_calls(f):
        return {n.func.attr for n in ast.walk(f) if isinstance(n, ast.Call) and isinstance(n.func, ast.Attribute)
                and isinstance(n.func.value, ast.Name) and n.func.value.id == "self"}

    for cname in names:
        rel, c = repo.find_class(cname)
        methods = {f.name: f for f in c.body if isinstance(f, ast.FunctionDef)}
        # private helpers of the generator: reachable from _iterator through self.m() calls and called from nowhere else
        helpers, todo = set(), ["_iterator"] if "_iterator" in methods else []
        while todo:
            m = todo.pop()
            for callee in self_calls(methods[m]):
                if callee in methods and callee not in helpers and callee != "_iterator" and callee.startswith("_") \
                        and not callee.startswith("__"):
                    helpers.add(callee)
                    todo.append(callee)
        # helpers that the load-time normalisation placed into the generator (their only call sites were there) and that
        # are called from no other method
        for r_, owner_, h_ in getattr(repo, "inlined_helpers", []):
            if r_ == rel and owner_ == "_iterator" and h_ in methods and h_.startswith("_") and not h_.startswith("__") \
                    and not any(h_ in self_calls(f_) for m_, f_ in methods.items() if m_ != "_iterator"):
                helpers.add(h_)
        for h in list(helpers):
            callers = {m for m, f in methods.items() if h in self_calls(f)}
            if not callers <= helpers | {"_iterator"}:
                helpers.discard(h)
        for f in c.body:
            if not isinstance(f, ast.FunctionDef):
                continue
            chk.functions.add(f"{rel[:-3]}.{cname}.{f.name}")
            st = attr_stores(f)
            observer = any(ast.unparse(d) == "property" for d in f.decorator_list) or f.name in ("uses_storage_type", "__iter__")
            for a, ok_in in allowed.items():
                if a in st:
                    good = f.name in ok_in or (f.name in helpers and "_iterator" in ok_in)
                    verdict = True if good else (False if observer else None)
                    chk.decide("C08.MAXN", f"{rel[:-3]}.{cname}.{f.name}#store-{a}", verdict,
                               f"{a} written in {f.name}" + (" (a private helper called only from the generator)" if good and f.name in helpers
                                                              else "" if good else
                                                              " (an observer must not move the counters)" if observer else
                                                              " (a method outside the generator, the constructor and finalize)"),
                               rel=rel, node=f, nontrivial=False)
            if "<dynamic>" in st:
                chk.decide("C08.MAXN", f"{rel[:-3]}.{cname}.{f.name}#setattr", None,
                           "dynamic attribute store", rel=rel, node=f)
    # observers return the attribute they are named after
    for prop, attr in (("n", "_n"), ("r", "_r"), ("max_n", "_max_n")):
        f = repo.method(base_rel, "CheckpointSchedule", prop)
        rets = [s for s in ast.walk(f) if isinstance(s, ast.Return)]
        ok = len(rets) == 1 and isinstance(rets[0].value, ast.Attribute) and rets[0].value.attr == attr \
            and isinstance(rets[0].value.value, ast.Name) and rets[0].value.value.id == "self"
        cons = f"{base_rel[:-3]}.CheckpointSchedule.{prop}"
        if ok:
            chk.decide("C08.MAXN", cons, True, f"returns self.{attr}", rel=base_rel, node=f, nontrivial=False)
        else:
            plain = len(rets) == 1 and isinstance(rets[0].value, ast.Attribute) and \
                isinstance(rets[0].value.value, ast.Name) and rets[0].value.value.id == "self"
            chk.decide("C08.MAXN", cons, False if plain else None,
                       f"property {prop} does not return self.{attr}", rel=base_rel, node=f)
        for cname in repo.schedule_classes():
            rel, c = repo.find_class(cname)
            for g in c.body:
                if isinstance(g, ast.FunctionDef) and g.name == prop:
                    chk.decide("C08.MAXN", f"{rel[:-3]}.{cname}.{prop}", None,
                               f"{cname} overrides the observer {prop}", rel=rel, node=g)
