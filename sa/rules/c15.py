"""C15 - a schedule's stream depends only on its own parameters (ownership / effects).

  KEY    every process-wide or closure-level mapping written under a key inside a function
         is keyed by all parameters the stored value depends on (cache_step: the key is
         exactly the tuple passed to fn after the clamp)
  PURE   the memoised functions read only their parameters, themselves, enum constants
         and builtins, and return immutable values
  OWN    no function whose result is mutated by a caller (.shift, .remove_useless_wm,
         .remove) is memoised; DP tables are written only by their builders; no parameter
         with a mutable default is mutated; official_names has no writer
  GEN    the generator cache is an attribute of the instance
  OBS    the observers store no attribute
  plus a census of module-level / closure-level mutable state and its writers; a new
  shared mutable written from schedule code with no recognised discipline is UNKNOWN.
"""
import ast
import builtins

from .common import *

MUTATORS = {"append", "extend", "insert", "remove", "pop", "clear", "update", "setdefault", "popitem", "add",
            "discard", "sort", "reverse", "shift", "remove_useless_wm", "remove_last_discard",
            "convert_old_to_branch", "convert_new_to_branch", "insert_sequence"}
RESULT_MUTATORS = {"shift", "remove_useless_wm", "remove", "remove_last_discard"}
OBSERVERS = ("n", "r", "max_n", "is_exhausted", "is_running", "uses_storage_type")
MEMO_DECOS = {"cache_step", "lru_cache", "cache", "functools.lru_cache", "functools.cache"}


def deco_names(f):
    out = []
    for d in f.decorator_list:
        n = d.func if isinstance(d, ast.Call) else d
        out.append(ast.unparse(n))
    return out


def local_names(f):
    names = {a.arg for a in f.args.args + f.args.kwonlyargs}
    if f.args.vararg:
        names.add(f.args.vararg.arg)
    if f.args.kwarg:
        names.add(f.args.kwarg.arg)
    for n in ast.walk(f):
        if isinstance(n, ast.Name) and isinstance(n.ctx, ast.Store):
            names.add(n.id)
        if isinstance(n, (ast.FunctionDef, ast.ClassDef)) and n is not f:
            names.add(n.name)
    for n in ast.walk(f):
        if isinstance(n, (ast.Nonlocal, ast.Global)):
            names -= set(n.names)
    return names


def run(chk, ctx):
    chk.describe("C15.KEY", "shared mappings are keyed by every parameter the stored value depends on")
    chk.describe("C15.PURE", "memoised functions are pure functions of their parameters with immutable results")
    chk.describe("C15.OWN", "results that callers mutate are never shared; tables and constants have a single writer")
    chk.describe("C15.GEN", "one generator per schedule object (cached on the instance)")
    chk.describe("C15.OBS", "observers do not modify the schedule")
    repo = ctx.repo
    all_fns = list(repo.all_functions())
    global REPO_FNS
    REPO_FNS = all_fns
    for rel, q, f in all_fns:
        chk.files.add(rel)
    # ---------------- module-level mutable state and closure cells
    module_state = {}   # (rel, name) -> node
    for rel, m in repo.modules.items():
        for n in m.tree.body:
            if isinstance(n, ast.Assign) and len(n.targets) == 1 and isinstance(n.targets[0], ast.Name):
                v = n.value
                if isinstance(v, (ast.Dict, ast.List, ast.Set)) or (
                        isinstance(v, ast.Call) and getattr(v.func, "id", None) in ("dict", "list", "set", "defaultdict")):
                    if n.targets[0].id != "__all__":
                        module_state[(rel, n.targets[0].id)] = n
    closure_state = {}  # (rel, outer q, name)
    for rel, q, f in all_fns:
        for s in f.body:
            if isinstance(s, ast.Assign) and len(s.targets) == 1 and isinstance(s.targets[0], ast.Name):
                v = s.value
                inner = [x for x in f.body if isinstance(x, ast.FunctionDef)]
                if inner and (isinstance(v, (ast.Dict, ast.List, ast.Set)) or (
                        isinstance(v, ast.Call) and getattr(v.func, "id", None) in ("dict", "list", "set"))):
                    name = s.targets[0].id
                    if any(isinstance(x, ast.Name) and x.id == name for i in inner for x in ast.walk(i)):
                        closure_state[(rel, q, name)] = (f, inner)
    chk.extra["shared_state_census"] = {
        "module_level": sorted(f"{r}:{n}" for r, n in module_state),
        "closure_cells": sorted(f"{r}:{q}:{n}" for r, q, n in closure_state)}
    # writers of module-level state
    for (rel, name), node in sorted(module_state.items()):
        writers = []
        for r2, q, f in all_fns:
            if r2 != rel and name not in {x.id for x in ast.walk(f) if isinstance(x, ast.Name)}:
                continue
            loc = local_names(f)
            if name in loc:
                continue
            for n in ast.walk(f):
                if isinstance(n, ast.Subscript) and isinstance(n.ctx, (ast.Store, ast.Del)) and isinstance(n.value, ast.Name) \
                        and n.value.id == name:
                    writers.append((q, n))
                if isinstance(n, ast.Call) and isinstance(n.func, ast.Attribute) and isinstance(n.func.value, ast.Name) \
                        and n.func.value.id == name and n.func.attr in MUTATORS:
                    writers.append((q, n))
        cons = f"{rel[:-3].replace('/', '.')}.{name}"
        if not writers:
            chk.decide("C15.OWN", cons + "#writers", True, f"module-level {name} has no writer", rel=rel, node=node, nontrivial=False)
        else:
            for q, n in writers:
                key_rule(chk, rel, q, n, [f for r2, qq, f in all_fns if qq == q and r2 == rel or qq == q][0], name, "module-level")
    # cache_step-like closures
    for (rel, q, name), (outer, inners) in sorted(closure_state.items()):
        for inner in inners:
            for n in ast.walk(inner):
                if isinstance(n, ast.Subscript) and isinstance(n.ctx, ast.Store) and isinstance(n.value, ast.Name) \
                        and n.value.id == name:
                    chk.functions.add(f"{rel[:-3]}.{q}.{inner.name}")
                    key_rule(chk, rel, f"{q}.{inner.name}", n, inner, name, "closure-level")
    # class-level mutable attributes mutated through the instance
    for rel, c in repo.all_classes():
        shared_attrs = {}
        for n in c.body:
            if isinstance(n, ast.Assign) and len(n.targets) == 1 and isinstance(n.targets[0], ast.Name):
                v = n.value
                if isinstance(v, (ast.Dict, ast.List, ast.Set)) or (
                        isinstance(v, ast.Call) and getattr(v.func, "id", None) in ("dict", "list", "set")):
                    shared_attrs[n.targets[0].id] = n
        for name, node in shared_attrs.items():
            rebound = False
            for _, cc in repo.mro(c.name):
                for f in cc.body:
                    if isinstance(f, ast.FunctionDef) and f.name == "__init__" and name in attr_stores(f):
                        rebound = True
            muts = []
            for f in c.body:
                if isinstance(f, ast.FunctionDef):
                    aliases = {a.targets[0].id for a in ast.walk(f) if isinstance(a, ast.Assign) and len(a.targets) == 1
                               and isinstance(a.targets[0], ast.Name) and isinstance(a.value, ast.Attribute)
                               and a.value.attr == name and isinstance(a.value.value, ast.Name) and a.value.value.id in ("self", "cls")}
                    for x in ast.walk(f):
                        if isinstance(x, ast.Call) and isinstance(x.func, ast.Attribute) and x.func.attr in MUTATORS and \
                                isinstance(x.func.value, ast.Name) and x.func.value.id in aliases:
                            muts.append((f.name, x))
                        if isinstance(x, ast.Subscript) and isinstance(x.ctx, (ast.Store, ast.Del)) and \
                                isinstance(x.value, ast.Name) and x.value.id in aliases:
                            muts.append((f.name, x))
                        if isinstance(x, ast.Call) and isinstance(x.func, ast.Attribute) and x.func.attr in MUTATORS and \
                                isinstance(x.func.value, ast.Attribute) and x.func.value.attr == name:
                            muts.append((f.name, x))
                        if isinstance(x, ast.Subscript) and isinstance(x.ctx, (ast.Store, ast.Del)) and \
                                isinstance(x.value, ast.Attribute) and x.value.attr == name:
                            muts.append((f.name, x))
            cons = f"{rel[:-3].replace('/', '.')}.{c.name}.{name}#class-level"
            if muts and not rebound:
                chk.decide("C15.OWN", cons, False,
                           f"{c.name}.{name} is a mutable object created once in the class body and mutated by {sorted({m for m, _ in muts})} "
                           "through the instance: every object of the class shares it, so a stream depends on other schedules",
                           rel=rel, node=node)
            else:
                chk.decide("C15.OWN", cons, True, f"class-level {name} is " + ("re-bound per instance" if rebound else "never mutated"),
                           rel=rel, node=node, nontrivial=False)
    # ---------------- PURE: memoised functions
    memo = [(rel, q, f) for rel, q, f in all_fns if set(deco_names(f)) & MEMO_DECOS]
    bnames = set(dir(builtins))
    for rel, q, f in memo:
        chk.functions.add(f"{rel[:-3]}.{q}")
        loc = local_names(f)
        mod = repo.module(rel).tree
        mod_funcs = {n.name for n in mod.body if isinstance(n, (ast.FunctionDef, ast.ClassDef))}
        imported = set()
        for n in mod.body:
            if isinstance(n, (ast.Import, ast.ImportFrom)):
                imported |= {a.asname or a.name.split(".")[0] for a in n.names}
        bad = []
        for n in ast.walk(f):
            if isinstance(n, ast.Name) and isinstance(n.ctx, ast.Load) and n.id not in loc and n.id not in bnames:
                if n.id in mod_funcs or n.id in imported:
                    if n.id in {nm for (r2, nm) in module_state if r2 == rel}:
                        bad.append(n.id)
                    continue
                bad.append(n.id)
            if isinstance(n, (ast.Global, ast.Nonlocal)):
                bad.append("global/nonlocal")
            if isinstance(n, ast.Attribute) and isinstance(n.ctx, ast.Store):
                bad.append("attribute store")
        cons = f"{rel[:-3].replace('/', '.')}.{q}"
        chk.decide("C15.PURE", cons + "#reads", True if not bad else False,
                   f"memoised {q} reads only parameters, module functions and builtins" if not bad else
                   f"memoised {q} reads/writes non-parameter state {sorted(set(bad))}", rel=rel, node=f)
        rets = [r.value for r in ast.walk(f) if isinstance(r, ast.Return) and r.value is not None]
        mutable = [r for r in rets if isinstance(r, (ast.List, ast.Dict, ast.Set, ast.ListComp, ast.DictComp))]
        chk.decide("C15.PURE", cons + "#result", True if not mutable else False,
                   "results are ints / tuples" if not mutable else "a mutable object is cached and handed to every caller",
                   rel=rel, node=f, nontrivial=False)
    if not memo:
        chk.decide("C15.PURE", "memoised-functions", None, "no memoised function found", rel="mixed.py")
    # ---------------- OWN: callers mutating results
    mutated_results = {}
    for rel, q, f in all_fns:
        for n in ast.walk(f):
            if isinstance(n, ast.Call) and isinstance(n.func, ast.Attribute) and n.func.attr in RESULT_MUTATORS:
                cur = n.func.value
                while isinstance(cur, ast.Call) and isinstance(cur.func, ast.Attribute):
                    cur = cur.func.value
                if isinstance(cur, ast.Call) and isinstance(cur.func, ast.Name):
                    mutated_results.setdefault(cur.func.id, []).append((rel, q, n))
    memo_names = {q for _, q, _ in memo}
    for name in sorted(mutated_results):
        rel0, q0, n0 = mutated_results[name][0]
        hits = [(rel, q, f) for rel, q, f in all_fns if q == name]
        if not hits:
            continue
        rel, q, f = hits[0]
        stored = False
        for (r2, nm), node in module_state.items():
            pass
        is_memo = name in memo_names
        # stored into shared state inside its own body?
        shared_store = any(isinstance(x, ast.Subscript) and isinstance(x.ctx, ast.Store) and isinstance(x.value, ast.Name)
                           and x.value.id not in local_names(f) for x in ast.walk(f))
        chk.decide("C15.OWN", f"{rel[:-3].replace('/', '.')}.{name}#fresh-result", False if (is_memo or shared_store) else True,
                   f"result of {name} is mutated in place by {q0} (.{n0.func.attr}); " +
                   ("it is memoised/shared, so the mutation leaks into later schedules" if (is_memo or shared_store)
                    else "it is built afresh on every call"), rel=rel, node=f)
    # DP tables written only by their builders
    TABLES = ("opt_0", "opt_1d", "opt_inf", "hopt", "hoptp")
    for rel, q, f in all_fns:
        if not rel.startswith("hrevolve_sequences/"):
            continue
        params = {a.arg for a in f.args.args}
        for n in ast.walk(f):
            tgt = None
            if isinstance(n, ast.Subscript) and isinstance(n.ctx, (ast.Store, ast.Del)):
                cur = n
                while isinstance(cur, ast.Subscript):
                    cur = cur.value
                if isinstance(cur, ast.Name):
                    tgt = cur.id
            if isinstance(n, ast.Call) and isinstance(n.func, ast.Attribute) and n.func.attr in ("append", "remove", "pop", "insert"):
                cur = n.func.value
                while isinstance(cur, ast.Subscript):
                    cur = cur.value
                if isinstance(cur, ast.Name):
                    tgt = cur.id
            if tgt in TABLES and tgt in params:
                chk.decide("C15.OWN", f"{rel[:-3].replace('/', '.')}.{q}#table-{tgt}", False,
                           f"{q} modifies the table {tgt} it received: tables are shared across the recursion and must be "
                           "read-only after they are built", rel=rel, node=n)
    chk.decide("C15.OWN", "hrevolve_sequences#tables-read-only", True,
               f"no builder writes a table parameter among {TABLES}", rel="hrevolve_sequences/hrevolve.py", nontrivial=False) \
        if not any(o.construct.startswith("hrevolve_sequences") and "#table-" in o.construct for o in chk.obs) else None
    # mutable defaults mutated
    for rel, q, f in all_fns:
        defaults = list(zip([a.arg for a in f.args.args][len(f.args.args) - len(f.args.defaults):], f.args.defaults)) + \
            [(a.arg, d) for a, d in zip(f.args.kwonlyargs, f.args.kw_defaults) if d is not None]
        for p, d in defaults:
            if isinstance(d, (ast.List, ast.Dict, ast.Set)) or (isinstance(d, ast.Call) and getattr(d.func, "id", None) in ("list", "dict", "set")):
                mut = any((isinstance(n, ast.Call) and isinstance(n.func, ast.Attribute) and isinstance(n.func.value, ast.Name)
                           and n.func.value.id == p and n.func.attr in MUTATORS) or
                          (isinstance(n, ast.Subscript) and isinstance(n.ctx, ast.Store) and isinstance(n.value, ast.Name) and n.value.id == p)
                          for n in ast.walk(f))
                # the default object kept on the instance (`self.x = p`) and filled through any method of the class
                attrs = {t.attr for n in ast.walk(f) if isinstance(n, ast.Assign) and isinstance(n.value, ast.Name) and n.value.id == p
                         for t in n.targets if isinstance(t, ast.Attribute) and isinstance(t.value, ast.Name) and t.value.id == "self"}
                if attrs and "." in q:
                    cname = q.split(".")[0]
                    for rel2, q2, f2 in all_fns:
                        if rel2 != rel or not q2.startswith(cname + "."):
                            continue
                        for n in ast.walk(f2):
                            tgt = None
                            if isinstance(n, ast.Call) and isinstance(n.func, ast.Attribute) and n.func.attr in MUTATORS:
                                tgt = n.func.value
                            elif isinstance(n, ast.Subscript) and isinstance(n.ctx, (ast.Store, ast.Del)):
                                tgt = n.value
                            elif isinstance(n, ast.AugAssign):
                                tgt = n.target
                            if isinstance(tgt, ast.Attribute) and isinstance(tgt.value, ast.Name) and tgt.value.id == "self" \
                                    and tgt.attr in attrs:
                                mut = True
                chk.decide("C15.OWN", f"{rel[:-3].replace('/', '.')}.{q}#default-{p}", False if mut else True,
                           f"parameter {p} has a mutable default" + (" and is mutated: state leaks between calls" if mut else " but is not mutated"),
                           rel=rel, node=f)
    # ---------------- GEN
    rel, base = repo.find_class("CheckpointSchedule")
    sub = repo.method(rel, "CheckpointSchedule", "__init_subclass__")
    chk.functions.add(f"{rel[:-3]}.CheckpointSchedule.__init_subclass__")
    fw = find_cache_wrapper(repo)
    cons = f"{rel[:-3]}.CheckpointSchedule.__init_subclass__#generator-cache"
    if fw is None:
        chk.decide("C15.GEN", cons, None, "generator-caching wrapper not found", rel=rel, node=sub)
    else:
        w = fw[2]
        first = w.args.args[0].arg if w.args.args else "self"
        stores = [n for n in ast.walk(w) if isinstance(n, ast.Attribute) and isinstance(n.ctx, ast.Store)]
        on_self = [n for n in stores if isinstance(n.value, ast.Name) and n.value.id == first]
        other = [n for n in stores if n not in on_self]
        cells = [n for n in ast.walk(w) if isinstance(n, ast.Nonlocal)] + \
            [n for n in ast.walk(w) if isinstance(n, ast.Subscript) and isinstance(n.ctx, ast.Store)]
        gen_calls = [n for n in ast.walk(w) if isinstance(n, ast.Call) and getattr(n.func, "id", None) == fw[3]]
        ok = len(on_self) >= 1 and not other and not cells and len(gen_calls) == 1 and \
            [ast.unparse(a) for a in gen_calls[0].args] == [first]
        chk.decide("C15.GEN", cons, True if ok else (False if (other or cells) else None),
                   f"generator stored on {[ast.unparse(n) for n in on_self]}" +
                   (f"; also stored on {[ast.unparse(n) for n in other]} / closure cells {len(cells)}: shared between instances"
                    if (other or cells) else ""), rel=rel, node=w)
    # ---------------- OBS
    for cname in ["CheckpointSchedule"] + repo.schedule_classes():
        r2, c = repo.find_class(cname)
        for f in c.body:
            if isinstance(f, ast.FunctionDef) and f.name in OBSERVERS:
                chk.functions.add(f"{r2[:-3]}.{cname}.{f.name}")
                st = attr_stores(f)
                calls_next = any(isinstance(n, ast.Call) and getattr(n.func, "id", None) == "next" for n in ast.walk(f))
                muts = [n for n in ast.walk(f) if isinstance(n, ast.Call) and isinstance(n.func, ast.Attribute)
                        and n.func.attr in MUTATORS and isinstance(n.func.value, ast.Attribute)]
                bad = bool(st) or calls_next or bool(muts)
                chk.decide("C15.OBS", f"{r2[:-3]}.{cname}.{f.name}", False if bad else True,
                           (f"observer stores {sorted(st)}" if st else "observer advances the generator" if calls_next else
                            "observer mutates an attribute" if muts else "observer is read-only"), rel=r2, node=f, nontrivial=False)


REPO_FNS = []


def key_rule(chk, rel, q, store, fn, name, level):
    """store: Subscript store D[key] = value inside fn; the key must be made of every input the stored value is
    computed from.  Inputs are the parameters of fn (and single items `params["k"]` of a parameter dict), followed
    through locals with one definition."""
    params = [a.arg for a in fn.args.args + fn.args.kwonlyargs]
    star = [a.arg for a in (fn.args.vararg, fn.args.kwarg) if a is not None]
    params += star
    defs = {}
    for n in ast.walk(fn):
        if isinstance(n, ast.Assign) and len(n.targets) == 1 and isinstance(n.targets[0], ast.Name):
            defs.setdefault(n.targets[0].id, []).append(n.value)
        elif isinstance(n, ast.Assign):
            for t in n.targets:
                if isinstance(t, ast.Name):
                    defs.setdefault(t.id, []).append(n.value)

    def root_name(e):
        while isinstance(e, (ast.Subscript, ast.Attribute)):
            e = e.value
        return e.id if isinstance(e, ast.Name) else None
    # an object filled in place is made of everything that is put into it: X.append(v), X[i].append(v), X[i][j] = v
    for n in ast.walk(fn):
        if isinstance(n, ast.Call) and isinstance(n.func, ast.Attribute) and n.func.attr in (
                "append", "extend", "insert", "add", "update", "setdefault", "appendleft"):
            r = root_name(n.func.value)
            if r is not None and r != name and r not in params:
                for a in n.args:
                    defs.setdefault(r, []).append(a)
        elif isinstance(n, (ast.Assign, ast.AugAssign)):
            for t in (n.targets if isinstance(n, ast.Assign) else [n.target]):
                if isinstance(t, ast.Subscript):
                    r = root_name(t)
                    if r is not None and r != name and r not in params:
                        defs.setdefault(r, []).append(n.value)

    def inputs(e, depth=0):
        out = set()
        if e is None or depth > 6:
            return out
        if isinstance(e, ast.Subscript) and isinstance(e.value, ast.Name) and e.value.id in params \
                and isinstance(e.slice, ast.Constant) and isinstance(e.ctx, ast.Load):
            return {f"{e.value.id}[{e.slice.value!r}]"}
        if isinstance(e, ast.Name):
            if e.id in params and e.id not in defs:
                return {e.id}
            if e.id in defs and e.id != name:
                for v in defs[e.id]:
                    out |= inputs(v, depth + 1)
                if e.id in params:
                    out.add(e.id)
            return out
        for c in ast.iter_child_nodes(e):
            if isinstance(c, ast.keyword) and c.arg is None:
                out |= {(c.value.id if isinstance(c.value, ast.Name) else "?") } if isinstance(c.value, ast.Name) and c.value.id in params else inputs(c.value, depth + 1)
            elif isinstance(c, ast.AST):
                out |= inputs(c, depth + 1)
        return out

    val = None
    for n in ast.walk(fn):
        if isinstance(n, ast.Assign) and any(t is store for t in n.targets):
            val = n.value
    key_in = inputs(store.slice)
    val_in = inputs(val) if val is not None else set()
    # control dependence: a value built from a variable that is assigned in a loop or under a condition also depends
    # on what those conditions read (t counted up `while f(t) <= (wd + rd) / uf` depends on uf)
    if val is not None:
        guarded = set()
        for c in ast.walk(fn):
            if isinstance(c, (ast.While, ast.For, ast.If)):
                for b in c.body + c.orelse:
                    for x in ast.walk(b):
                        if isinstance(x, ast.Name) and isinstance(x.ctx, ast.Store):
                            guarded.add(x.id)

        def names_of(e, depth=0, seen=None):
            seen = set() if seen is None else seen
            out = set()
            for x in ast.walk(e):
                if isinstance(x, ast.Name) and x.id not in seen:
                    seen.add(x.id)
                    out.add(x.id)
                    if depth < 6:
                        for v in defs.get(x.id, []):
                            out |= names_of(v, depth + 1, seen)
            return out
        if names_of(val) & guarded:
            for c in ast.walk(fn):
                if isinstance(c, (ast.While, ast.If)) and not any(x is store for x in ast.walk(c.test)):
                    # tests that only ask whether the key is present do not count
                    if any(isinstance(x, ast.Name) and x.id == name for x in ast.walk(c.test)):
                        continue
                    val_in |= inputs(c.test)
    if val is None or not val_in:
        # fall back to everything the function reads
        for n in ast.walk(fn):
            if isinstance(n, ast.Name) and isinstance(n.ctx, ast.Load) and n.id in params:
                val_in.add(n.id)

    def covered(x):
        if x in key_in:
            return True
        base = x.split("[")[0]
        if "[" in x and base in key_in:
            return True           # the whole dict is part of the key
        return False
    missing = sorted(x for x in val_in if not covered(x))
    # a whole dict handed on while the key holds only some of its items: which items matter is not known here
    partial = [x for x in missing if "[" not in x and any(k.startswith(x + "[") for k in key_in)]
    read = val_in
    cons = f"{rel[:-3].replace('/', '.')}.{q}#cache-{name}"
    verdict = True if not missing else (None if partial and len(partial) == len(missing) else False)
    extra_why = ""
    if missing and set(missing) <= set(star) and fn.args.kwarg is not None and fn.args.kwarg.arg in missing and not partial:
        # a generic wrapper(*args, **kwargs) keyed by the positional arguments only: definite when a function it wraps
        # takes keyword arguments at all
        outer = q.split(".")[0]
        wrapped = [(r2, q2, f2) for r2, q2, f2 in REPO_FNS if any(
            (isinstance(d, ast.Name) and d.id == outer) or (isinstance(d, ast.Call) and getattr(d.func, "id", None) == outer)
            for d in f2.decorator_list)]
        kw_takers = [q2 for r2, q2, f2 in wrapped if f2.args.kwonlyargs or f2.args.kwarg or f2.args.defaults]
        if kw_takers:
            extra_why = f" (it wraps {kw_takers}, which take keyword arguments)"
        else:
            verdict = None
            extra_why = " (no wrapped function with keyword arguments was found)"
    chk.decide("C15.KEY", cons, verdict,
               f"{level} mapping {name} is written under key `{ast.unparse(store.slice)}` (inputs {sorted(key_in)}); the stored value "
               f"is computed from {sorted(read)}"
               + ("" if not missing else f"; {missing} influence the stored value but are not part of the key: "
                  "a later schedule with other values receives the cached result" + extra_why), rel=rel, node=store)
    # lookups use the same key expression
    lookups = [n for n in ast.walk(fn) if isinstance(n, ast.Subscript) and isinstance(n.ctx, ast.Load)
               and isinstance(n.value, ast.Name) and n.value.id == name]
    tests = [n for n in ast.walk(fn) if isinstance(n, ast.Compare) and any(isinstance(c, ast.Name) and c.id == name
                                                                           for c in n.comparators)]
    same = all(ast.unparse(n.slice) == ast.unparse(store.slice) for n in lookups) and \
        all(ast.unparse(t.left) == ast.unparse(store.slice) for t in tests)
    chk.decide("C15.KEY", cons + "/lookup", True if same else False,
               "membership test, store and lookup use the same key expression" if same else
               "the key used for lookup differs from the key used for the store", rel=rel, node=store, nontrivial=False)
    # the value stored is computed from the key's components only: fn(...) called with them
    val = None
    for n in ast.walk(fn):
        if isinstance(n, ast.Assign) and any(t is store for t in n.targets):
            val = n.value
    if isinstance(val, ast.Call):
        chk.decide("C15.KEY", cons + "/args", True if not missing else verdict,
                   f"cached value {ast.unparse(val)[:80]} is computed from the key components" if not missing else
                   f"cached value depends on {missing}, not part of the key", rel=rel, node=store, nontrivial=False)
